"""C20 — extensions are inert unless enabled and needed; front matter only shifts lines.

proof:  Verif.Props.C20
        * over the faithful Verif.Model.FrontMatter, for every parser proper satisfying the shift law, every YAML oracle, both
          allow_blank_lines settings: fm_shift, fm_token_only_valid, fm_abandon_identity (+ syntactic corollaries), fm_disabled_identity,
          excluded points fm_eof_error / fm_eof_witness (F-FM), fm_close_spelling_witness (F-FM-CLOSE), fm_yaml_raise;
        * over Verif.Gen.ExtFlags (regenerated from the AST of /repo every run): flags_guard, reviewed_pinned, wiring_straight,
          wiring_complete, defaults, copies_only_in_props, every_flag_guards, ext_chars_owned, handlers_off / handlers_on,
          all_off_tables, emph_strike, handlers_depend_on.
tie:    (T) for all 64 extension subsets: real configuration -> manager flags -> ParseBlockPassProperties flags -> the inline handler
            table / simple table / emphasis set built by InlineProcessor.initialize   ==   model tables of Verif.Gen.ExtFlags;
        (a) front-matter header stage of the real parser (return value of __process_front_matter_header_if_present, token appended,
            lines left in the provider, exception class) == model `headerStage`, with the real YAML verdict of
            FrontMatterExtension.__validate_yaml supplied as the model's `yaml` parameter; and end to end: real tokens(front matter on)
            == [front-matter token] ++ real plain parse of exactly the lines the model says the parser proper is fed, renumbered.
oracle: (b) property statement, independent of the model: a Python restatement of "valid front-matter block" decides per document
            whether tokens(on) must be [token] ++ shift_k(tokens_off(rest)) (also HTML and regenerated Markdown) or tokens_off(document);
        (c) inertness: all 64 subsets x document pool split by trigger syntax; outputs (tokens, HTML, Markdown) may depend only on
            S ∩ triggers(document) (checked as: for every extension e the document has no trigger for, and every setting S of the other
            five, out(S) == out(S+e)); a disabled extension leaves no artefact token whatever the document contains;
            all-off == default configuration == expected_gfm on the repo's spec cases (also those full of extension syntax).
"""
import hashlib, itertools, json, multiprocessing, os, re, sys, time, traceback
import vlib, implib, docs

EXT_IDS = ["front-matter", "linter-pragmas", "markdown-disallow-raw-html", "markdown-task-list-items",
           "markdown-strikethrough", "markdown-extended-autolinks"]          # order of Verif.Model.ExtFlags.Flags
EXT_SHORT = ["fm", "pragmas", "rawhtml", "tasklist", "strike", "autolinks"]
LEAN_EXT = ["frontMatter", "pragmas", "disallowRawHtml", "taskListItems", "strikeThrough", "extendedAutolinks"]
WS = " \t\n\x0b\x0c\r"
NPROC = min(16, os.cpu_count() or 2)

# ------------------------------------------------------------------------------------------------ real parser
_P = {}


def make_parser(bits, allow_blank=False):
    """(TokenizedMarkdown, ExtensionManager) with exactly the extensions of `bits` on (every flag set explicitly)."""
    key = (tuple(int(b) for b in bits), bool(allow_blank))
    if key not in _P:
        from application_properties import ApplicationProperties
        from pymarkdown.extension_manager.extension_manager import ExtensionManager
        from pymarkdown.general.main_presentation import MainPresentation
        from pymarkdown.general.tokenized_markdown import TokenizedMarkdown
        cfg = {"extensions": {e: {"enabled": bool(b)} for e, b in zip(EXT_IDS, key[0])}}
        if allow_blank:
            cfg["extensions"]["front-matter"]["allow_blank_lines"] = True
        props = ApplicationProperties()
        props.load_from_dict(cfg)
        em = ExtensionManager(MainPresentation())
        em.initialize(None, props)
        em.apply_configuration()
        tk = TokenizedMarkdown()
        tk.apply_configuration(props, em)
        _P[key] = (tk, em)
    return _P[key]


def root_exc(e):
    seen = 0
    while e.__cause__ is not None and seen < 10:
        e, seen = e.__cause__, seen + 1
    return e


def exc_signature(e):
    r = root_exc(e)
    frames = [f.name for f in traceback.extract_tb(r.__traceback__)]
    fn = frames[-1] if frames else "?"
    if "__validate_yaml" in frames:
        fn = "__validate_yaml"
    return f"{type(r).__name__}@{fn}"


def transform(tk, text):
    """(tokens or None, exception signature or None)"""
    from pymarkdown.general.source_providers import InMemorySourceProvider
    try:
        return tk.transform_from_provider(InMemorySourceProvider(text)), None
    except Exception as e:
        return None, exc_signature(e)


def render(tokens):
    from pymarkdown.transform_gfm.transform_to_gfm import TransformToGfm
    from pymarkdown.transform_markdown.transform_to_markdown import TransformToMarkdown
    try:
        html = TransformToGfm().transform(tokens)
    except Exception as e:
        html = "EXC " + exc_signature(e)
    try:
        md = TransformToMarkdown().transform(tokens)
    except Exception as e:
        md = "EXC " + exc_signature(e)
    return html, md


POS = re.compile(r"\((\d+),(\d+)\)")


def shift_str(s, k):
    return POS.sub(lambda m: f"({int(m.group(1)) + k},{m.group(2)})", s)


def tok_strs(tokens):
    return [str(t) for t in tokens]


# ------------------------------------------------------------------------------------------------ (T) flag tables
def flags_correspondence(ctx):
    from pymarkdown.inline.inline_processor import InlineProcessor
    from pymarkdown.inline.inline_handler_helper import InlineHandlerHelper
    from pymarkdown.inline.emphasis_helper import EmphasisHelper
    subsets = list(itertools.product([0, 1], repeat=6))
    answers = vlib.Driver("frontmatter").run(["flags|" + "".join(map(str, b)) for b in subsets])
    bad, n = [], 0
    for bits, ans in zip(subsets, answers):
        n += 1
        tk, em = make_parser(bits)
        try:
            pp = tk._TokenizedMarkdown__parse_properties
            real_flags = [em.is_front_matter_enabled, em.is_linter_pragmas_enabled, em.is_disallow_raw_html_enabled,
                          em.is_task_list_items_enabled, em.is_strike_through_enabled, em.is_extended_autolinks_enabled]
            real_props = [pp.is_front_matter_enabled, pp.is_pragmas_enabled, pp.is_disallow_raw_html_enabled, pp.is_task_lists_enabled]
            InlineProcessor.initialize(em)
            handlers = dict(InlineHandlerHelper._InlineHandlerHelper__inline_character_handlers)
            starts = InlineHandlerHelper.valid_inline_text_block_sequence_starts
            simple = InlineHandlerHelper._InlineHandlerHelper__valid_inline_simple_text_block_sequence_starts
            emph = EmphasisHelper.get_inline_emphasis()
        except AttributeError as e:
            ctx.broken.append(f"correspondence flags: attribute moved: {e}")
            return n, [("attribute", str(e), "")]
        real = {"flags": [bool(x) for x in real_flags], "props": [bool(x) for x in real_props], "starts": starts, "simple": simple, "emph": emph,
                "handlers": {c: getattr(h, "__qualname__", repr(h)) for c, h in handlers.items()}}
        f = ans.split("|")
        if len(f) != 4:
            bad.append((bits, "model answer", ans)); continue
        model = {"flags": [bool(b) for b in bits], "props": [bool(bits[0]), bool(bits[1]), bool(bits[2]), bool(bits[3])],
                 "starts": "\n" + vlib.unhex(f[0]), "simple": "\n" + vlib.unhex(f[1]), "emph": vlib.unhex(f[2]),
                 "handlers": {vlib.unhex(kv.split("=")[0]): kv.split("=", 1)[1] for kv in f[3].split(";") if kv}}
        for k in model:
            if model[k] != real[k]:
                bad.append((bits, k, {"real": real[k], "model": model[k]}))
    return n, bad


# ------------------------------------------------------------------------------------------------ YAML verdict (outside the model)
def yaml_verdict(lines):
    """0 ok / 1 invalid / 2 raises — FrontMatterExtension.__validate_yaml as its caller sees it."""
    from pymarkdown.extensions.front_matter_extension import FrontMatterExtension
    fn = getattr(FrontMatterExtension, "_FrontMatterExtension__validate_yaml")
    try:
        r = fn(list(lines))
    except Exception:
        return 2
    return 1 if (r is None or isinstance(r, str)) else 0


def py_valid_block(lines, allow_blank):
    """Independent restatement of the property's 'valid front-matter block' (not derived from the Lean model):
    line 1 is `---` ignoring trailing ASCII whitespace; the first later line that is `---` (same rule) closes it; no blank
    line in between unless allow_blank_lines; the lines in between are acceptable YAML.
    Returns ('valid', k) | ('crash', None) when the YAML loader raises | ('none', None)."""
    if not lines or lines[0].rstrip(WS) != "---":
        return "none", None
    for j in range(1, len(lines)):
        s = lines[j].rstrip(WS)
        if s == "---":
            v = yaml_verdict(lines[1:j])
            return ("valid", j + 1) if v == 0 else ("crash", None) if v == 2 else ("none", None)
        if s == "" and not allow_blank:
            return "none", None
    return "none", None


# ------------------------------------------------------------------------------------------------ (a) header-stage space
STARTS = ["---", "--- ", "---\t", "---\x0c", " ---", "----", "- - -", "***", "--", "---x", "", "a: b"]
BODIES = [(), ("a: b",), ("a: b", "c: d"), ("title: x", "tags:", "  - p"), ("- x", "- y"), ("{}",), ("0",), ("[]",),
          ("a: b: c",), ("a",), ("[",), ("# c",), ("a: 'b",), ("5",), ("- test",), ("test: assert",), ("true",), ("a\x01: b",),
          ("a: b", "", "c: d"), ("",), ("  ",), ("a: b", "***"), ("a: b", "----"), ("a: b", " ---"), ("a: b", "___", "c: d")]
CLOSES = ["---", "--- ", "---\t ", " ---", "----", None]
RESTS = [None, "", "# h\n", "x", "- [ ] t\n\n~~s~~\n", "---\nb: c\n---\nz\n", "[r]: /u\n\n[r]\n", "> q\n> r\n", "```\ncode\n", "\n\npara\n"]
PRES = ["", "\n", "x\n"]
EOLS = ["\n", "\r\n"]
ALLOW = [False, True]
FM_CORPUS = ["---\nabc", "---", "---\n", "---\n---", "---\n---\n", "---\na: b\n---", "---\na: b\n---\n", "---\na: b\n---\n# h\n",
             "---\n5\n---\nx", "---\na: b: c\n---  \nx\n", "--- \na: b: c\n---\nx\n", "---\r\na: b\r\n---\r\nx\r\n", "x\n---\na: b\n---\n", ""]


REAL_STARTS = [s for s in STARTS if s.rstrip(WS) == "---" and s[:1] == "-"]
SMALL_BODIES = [("a: b",), ("a: b: c",), ("a: b", "", "c: d")]
SMALL_CLOSES = ["---", None]
SMALL_RESTS = [None, "# h\n", "---\nb: c\n---\nz\n"]


def fm_doc(pre, st, body, cl, rest, eol):
    lines = [st] + list(body) + ([cl] if cl is not None else [])
    d = pre + "\n".join(lines) + ("" if rest is None else "\n" + rest)
    return d if eol == "\n" else d.replace("\n", eol)


def fm_space():
    """Full product of the header shapes where the first line IS a front-matter start; a reduced product (3 bodies x 2 closes x 3 rests)
    for the contexts in which it is not (other first lines, block not at line 1)."""
    for st, body, cl, rest, eol, allow in itertools.product(REAL_STARTS, BODIES, CLOSES, RESTS, EOLS, ALLOW):
        yield fm_doc("", st, body, cl, rest, eol), allow
    for pre, st in itertools.product(PRES, STARTS):
        if pre == "" and st in REAL_STARTS:
            continue
        for body, cl, rest, eol, allow in itertools.product(SMALL_BODIES, SMALL_CLOSES, SMALL_RESTS, EOLS, ALLOW):
            yield fm_doc(pre, st, body, cl, rest, eol), allow


def fm_real(doc, allow):
    """Real header stage: wrap the private method, record what it returns and what is left in the provider."""
    from pymarkdown.general.tokenized_markdown import TokenizedMarkdown
    from pymarkdown.general.source_providers import InMemorySourceProvider
    tk, _ = make_parser((1, 0, 0, 0, 0, 0), allow)
    name = "_TokenizedMarkdown__process_front_matter_header_if_present"
    orig = getattr(TokenizedMarkdown, name)
    sp = InMemorySourceProvider(doc)
    rec = {}

    def wrapped(self, first, line_number, requeue):
        r = orig(self, first, line_number, requeue)
        left = list(getattr(sp, "_InMemorySourceProvider__next_line_tuple"))
        rec["out"] = (r[0], r[1], list(r[2]), [] if not left else "\n".join(left).split("\n"),
                      list(getattr(self, "_TokenizedMarkdown__tokenized_document")))
        return r
    setattr(TokenizedMarkdown, name, wrapped)
    try:
        try:
            toks, sig = tk.transform_from_provider(sp), None
        except Exception as e:
            toks, sig = None, exc_signature(e)
    finally:
        setattr(TokenizedMarkdown, name, orig)
    return rec.get("out"), toks, sig


def dec_lines(f, i):
    n = int(f[i]); i += 1
    return [vlib.unhex(x) for x in f[i:i + n]], i + n


def parse_run_answer(ans):
    """-> dict(status, tok, next, lineNo, requeue, provider, echo)"""
    if ans.startswith("err"):
        return {"status": ans}
    f = ans.split("|")
    i = 1
    tok = None
    if f[i] == "1":
        start, close = vlib.unhex(f[i + 1]), vlib.unhex(f[i + 2])
        coll, i = dec_lines(f, i + 3)
        tok = (start, close, coll)
    else:
        i += 1
    nxt = None
    if f[i] == "1":
        nxt = vlib.unhex(f[i + 1]); i += 2
    else:
        i += 1
    line_no = int(f[i]); i += 1
    req, i = dec_lines(f, i)
    prov, i = dec_lines(f, i)
    n = int(f[i]); i += 1
    echo = [(int(f[i + 2 * j]), vlib.unhex(f[i + 2 * j + 1])) for j in range(n)]
    return {"status": "ok", "tok": tok, "next": nxt, "lineNo": line_no, "requeue": req, "provider": prov, "echo": echo}


def enc_doc(doc):
    return "|".join(vlib.hexs(l) for l in doc.split("\n"))


def fm_check_one(doc, allow, verdict, model_ans):
    """Compare real vs model vs property oracle for one document.  Returns (branch, problems[])."""
    problems = []
    lines = doc.split("\n")
    m = parse_run_answer(model_ans)
    hdr, toks_on, sig_on = fm_real(doc, allow)
    tk_off, _ = make_parser((0, 0, 0, 0, 0, 0))
    # ---- (a1) header stage
    if m["status"] != "ok":
        branch = m["status"]
        want_sig = {"err eof": "AssertionError@__handle_document_front_matter", "err yaml": None}[m["status"]]
        if toks_on is not None or hdr is not None:
            problems.append(("corr-header", {"model": m["status"], "real": "no exception in the header stage"}))
        elif want_sig and sig_on != want_sig:
            problems.append(("corr-header", {"model": m["status"], "real": sig_on}))
        elif not want_sig and not (sig_on or "").endswith("@__validate_yaml"):
            problems.append(("corr-header", {"model": m["status"], "real": sig_on}))
    else:
        branch = "token" if m["tok"] else ("abandon" if lines[0].rstrip(WS) == "---" else "nostart")
        if hdr is None:
            problems.append(("corr-header", {"model": "ok", "real": sig_on}))
        else:
            nxt, line_no, req, left, tdoc = hdr
            rtok = None
            if tdoc:
                t = tdoc[0]
                rtok = (t.start_boundary_line, t.end_boundary_line, list(t.collected_lines)) if getattr(t, "is_front_matter", False) and len(tdoc) == 1 else ("?", str(tdoc), [])
                if rtok[0] != "?" and (t.line_number, t.column_number) != (1, 1):
                    problems.append(("corr-header", {"field": "token position", "real": (t.line_number, t.column_number)}))
            real = {"tok": rtok, "next": nxt, "lineNo": line_no, "requeue": req, "provider": left}
            for k in real:
                if real[k] != m[k]:
                    problems.append(("corr-header", {"field": k, "real": real[k], "model": m[k]}))
            # ---- (a2) end to end: the parser proper is fed exactly the model's lines
            fed = [l for _, l in m["echo"]]
            first_no = m["echo"][0][0] if m["echo"] else m["lineNo"]
            if fed:
                t_off, s_off = transform(tk_off, "\n".join(fed))
            else:
                t_off, s_off = [], None
            if (toks_on is None) != (t_off is None):
                problems.append(("corr-mainloop", {"real": sig_on or "ok", "expected": s_off or "ok", "fed": fed[:6]}))
            elif toks_on is not None:
                exp = ([str(toks_on[0])] if m["tok"] and toks_on and toks_on[0].is_front_matter else []) + [shift_str(s, first_no - 1) for s in tok_strs(t_off)]
                if exp != tok_strs(toks_on):
                    problems.append(("corr-mainloop", {"real": tok_strs(toks_on)[:8], "expected": exp[:8], "fed": fed[:6]}))
    # ---- (b) property oracle, independent of the model
    kind, k = py_valid_block(lines, allow)
    t_plain, s_plain = transform(tk_off, doc)
    if kind == "valid":
        rest_lines = lines[k:]
        header_text = "\n".join(lines[:k])
        if rest_lines:
            t_rest, s_rest = transform(tk_off, "\n".join(rest_lines))
        else:
            t_rest, s_rest = [], None
        if toks_on is None:
            if s_rest is None:     # (both failing = the parser proper cannot parse the rest either: nothing to compare)
                problems.append(("fm-crash", {"signature": sig_on, "expected": "front-matter token + parse of the rest"}))
        elif t_rest is None:
            problems.append(("fm-shift-mismatch", {"real": "parses", "expected": "rest alone fails: " + s_rest}))
        else:
            exp = [shift_str(s, k) for s in tok_strs(t_rest)]
            got = tok_strs(toks_on)
            ok = (len(got) >= 1 and toks_on[0].is_front_matter and toks_on[0].start_boundary_line == lines[0]
                  and toks_on[0].end_boundary_line == lines[k - 1] and list(toks_on[0].collected_lines) == lines[1:k - 1]
                  and got[1:] == exp)
            if not ok:
                problems.append(("fm-shift-mismatch", {"real": got[:8], "expected": ["<front-matter>"] + exp[:7], "k": k}))
            else:
                h_on, md_on = render(toks_on)
                h_rest, md_rest = render(t_rest) if rest_lines else ("", "")
                if h_on != h_rest:
                    fp = "plain-html-leading-newline" if (h_rest == "\n" + h_on and t_rest and t_rest[0].is_html_block) else None
                    problems.append(("fm-html-mismatch", {"real": h_on[:200], "expected": h_rest[:200], "footprint": fp}))
                exp_md = header_text + ("\n" + md_rest if rest_lines else "")
                if not md_on.startswith("EXC") and not md_rest.startswith("EXC") and md_on != exp_md:
                    problems.append(("fm-markdown-mismatch", {"real": md_on[:200], "expected": exp_md[:200]}))
    elif kind == "crash":
        if toks_on is not None or not (sig_on or "").endswith("@__validate_yaml"):
            problems.append(("fm-shift-mismatch", {"real": sig_on or tok_strs(toks_on)[:5], "expected": "the YAML loader raises on this block"}))
        else:
            problems.append(("fm-crash", {"signature": sig_on, "expected": "a parse (token + rest, or the plain parse)"}))
    else:
        if toks_on is None and t_plain is not None:
            problems.append(("fm-crash", {"signature": sig_on, "expected": "plain parse"}))
        elif toks_on is not None and t_plain is None:
            problems.append(("fm-abandon-not-identity", {"real": "parses", "expected": s_plain}))
        elif toks_on is not None and tok_strs(toks_on) != tok_strs(t_plain):
            det = {"real": tok_strs(toks_on)[:8], "expected": tok_strs(t_plain)[:8], "footprint": None}
            # F-FM-CLOSE footprint: identical to the plain parse of the document whose closing line is replaced by the starting line
            if lines and lines[0].rstrip(WS) == "---":
                j = next((i for i in range(1, len(lines)) if lines[i].rstrip(WS) == "---"), None)
                if j is not None and lines[j] != lines[0]:
                    alt = lines[:j] + [lines[0]] + lines[j + 1:]
                    t_alt, _ = transform(tk_off, "\n".join(alt))
                    if t_alt is not None and tok_strs(t_alt) == tok_strs(toks_on) and yaml_verdict(lines[1:j]) == 1:
                        det["footprint"] = "close-replaced-by-start"
            problems.append(("fm-abandon-not-identity", det))
    return branch, kind, problems


def _fm_worker(args):
    doc, allow, verdict, model_ans = args
    try:
        branch, kind, problems = fm_check_one(doc, allow, verdict, model_ans)
        return doc, allow, verdict, branch, kind, problems
    except Exception as e:
        return doc, allow, verdict, "harness-error", "?", [("harness-error", {"error": repr(e), "trace": traceback.format_exc()[-600:]})]


def run_fm(ctx, pool):
    space = list(dict.fromkeys(fm_space()))
    total = len(space)
    corpus = [(d, a) for d in FM_CORPUS for a in ALLOW]
    if ctx.quick():
        space = docs.sample(ctx.rng, space, 2500)
    cases = list(dict.fromkeys(corpus + space))
    drv = vlib.Driver("frontmatter")
    scans = drv.run([f"scan|{int(a)}|{enc_doc(d)}" for d, a in cases])
    verdicts = []
    for (d, a), s in zip(cases, scans):
        v = 1
        if s.startswith("closed"):
            coll, _ = dec_lines(s.split("|"), 1)
            v = yaml_verdict(coll)
        verdicts.append(v)
    runs = drv.run([f"run|1|{int(a)}|{v}|{enc_doc(d)}" for (d, a), v in zip(cases, verdicts)])
    work = [(d, a, v, r) for (d, a), v, r in zip(cases, verdicts, runs)]
    results = pool.map(_fm_worker, work, chunksize=64)
    return total, cases, results


# ------------------------------------------------------------------------------------------------ triggers / pools for (c)
# GFM: a task list item marker is `[ ]`/`[x]`/`[X]` at the very start of the FIRST paragraph of a list item: textually, directly after
# the list marker(s) on the item's first line, or on the line after a bare list marker.  `[ ]` anywhere else is ordinary text.
_LM = r"(?:[-+*]|\d{1,9}[.)])"
TASK_TRIG = re.compile(r"(?m)^[ \t>]*(?:%s[ \t]+)+\[[ xX]\]|^[ \t>]*(?:%s[ \t]*)+\n[ \t>]*\[[ xX]\]" % (_LM, _LM))
# checkbox-looking text that is NOT in the first block of an item: enabling the extension must change nothing
TASK_NOT_FIRST = ["- a\n- b\n\n  [ ] c\n", "- a\n\n  [ ] c\n", "- a\n- b\n  [ ] c\n", "- a\n  - b\n\n    [x] c\n", "> - a\n> - b\n>\n>   [ ] c\n",
                  "- a\n- b\n\n  [ ] c\n- d\n\n  [X] e\n", "1. a\n2. b\n\n   [ ] c\n", "1. a\n1. b\n1. c\n\n   [x] d\n", "- a\n\n[ ] c\n",
                  "- a\n- b\n\n  # h\n\n  [ ] c\n", "* a\n* b\n\n  [X] c\n\n  [ ] d\n", "+ a\n+ b\n\n  > [ ] c\n", "- a\n- b\n\n  [ ] c", "a\n[ ] b\n",
                  "- a\n- b\n- c\n\n  [ ] d\n\n  e\n", "- a\n  b\n- c\n  d\n\n  [x] e\n"]
DISALLOWED = ["title", "textarea", "style", "xmp", "iframe", "noembed", "noframes", "script", "plaintext"]
TRIG = [
    lambda d: d.split("\n")[0].rstrip(WS) == "---",                                      # front matter: `---` at the top
    lambda d: re.search(r"<!---?\s*pyml", d, re.I) is not None,                           # pragmas
    lambda d: re.search(r"<\s*/?\s*(%s)" % "|".join(DISALLOWED), d, re.I) is not None,    # disallowed raw html
    lambda d: TASK_TRIG.search(d) is not None,                                            # task list items
    lambda d: "~" in d,                                                                   # strikethrough
    lambda d: re.search(r"www\.|https?://|@|mailto:|xmpp:", d) is not None,               # extended autolinks
]


def triggers(doc):
    return tuple(int(bool(t(doc))) for t in TRIG)


EXT_LINES = [
    # strikethrough + near misses
    "~~del~~", "~one~", "a ~~b~~ c ~", "~~~", "~~a", "*~~x~~*", "a~~b~~c", "~~~~x~~~~",
    # task list items + near misses
    "- [ ] task", "- [x] done", "* [X] t", "1. [ ] n", "- [ ]", "[ ] not in a list", "- [y] z", "- [] z", "- [  ] z", "- a [ ] b",
    "- [a](/u)", "- [r]", "1. [t](/u \"T\")", "- [", "- []()", "- [ x] y", "- ![i](/u)",
    # extended autolinks + near misses
    "www.example.com", "see http://a.b/c.", "https://x.y/z?q=1", "me@example.com", "mailto:me@example.com", "xmpp:a@b.c/r",
    "(www.a.b)", "*www.a.b*", "hello world max", "wwwx.y", "http:/x", "ftp://a.b", "w.w.w", "mixed hwxm", "h", "ww",
    # disallowed raw html + near misses
    "<script>alert(1)</script>", "<title>", "a <iframe src=x> b", "<div><script></div>", "<SCRIPT>", "</style>", "<scriptx>", "<b>", "<div>",
    "a <xmp> b <b> c", "<pre>", "<?php x ?>", "<!DOCTYPE html>", "<![CDATA[x]]>", "a <b x=\"y\"> c </b>", "<a href=\"h\">",
    # pragmas + near misses
    "<!-- pyml disable-next-line md013-->", "<!--- pyml disable-num-lines 2 md013-->", "<!-- pyml -->", "<!-- c -->", "<!-- pym -->", "<!-- x pyml -->", "<!--",
    # front matter starts + near misses
    "---", "--- ", " ---", "----", "a: b",
]
# words made of the characters extended autolinks registers handlers for, in every inline context (none is a URL / e-mail)
WORDS = ["hello", "max", "wow", "x", "ww.a.b", "http", "mailt", "hm"]
INLINE_TEMPLATES = ["*{w}*", "**{w}**", "_{w}_", "*a {w}* b", "[{w}](/u)", "![{w}](/u)", "![a  \n{w}](/u)", "![a\\\n{w} b](/u \"t\")", "[a  \n{w}](/u)",
                    "`{w}`", "a  \n{w}", "a\\\n{w}", "<{w}>", "[{w}]: /u\n\n[{w}]", "# {w}", "&amp;{w}", "\\{w}", "{w}\n===", "[a {w}][r]\n\n[r]: /u \"{w}\"",
                    "<a href=\"{w}\">", "a {w}\nb {w}", "*{w}\n{w}*", "![*{w}*  \n{w}][r]\n\n[r]: /u"]
# lines used in ordered pairs (cross-extension independence): the acting forms of every extension + one near miss each
PAIR_LINES = ["~~del~~", "a ~~b~~ c ~", "~~a", "- [ ] task", "* [X] t", "- [y] z", "- [a](/u)", "www.example.com", "see http://a.b/c.", "me@example.com",
              "hello world max", "(www.a.b)", "<script>alert(1)</script>", "a <iframe src=x> b", "<div><script></div>", "<b>", "<pre>",
              "<!-- pyml disable-next-line md013-->", "<!--- pyml disable-num-lines 2 md013-->", "<!-- c -->", "---", "--- ", "a: b", "----"]
ACTING_LINES = ["~~del~~", "- [ ] task", "1. [x] n", "www.example.com", "see http://a.b/c.", "https://x.y/z", "me@example.com", "mailto:me@example.com",
                "xmpp:a@b.c/r", "<script>alert(1)</script>", "a <iframe src=x> b", "<!-- pyml disable-next-line md013-->", "---\nk: v\n---\nx"]
CONT = ["", "> ", "- ", "1. ", "  "]
PLAIN_LINES = ["", "a", "# h", "*e*", "`c`", "[t](/u)", "<http://a.b>", "+ x", "===", "***", "a  ", "\\*", "&amp;", "[r]: /u"]


def inert_space():
    """Finite document pool for (c): every extension line alone, inside containers, every ordered pair of the PAIR_LINES,
    every extension line next to every plain line, header+body, all with and without final newline."""
    seen = {}
    def add(d):
        seen.setdefault(d, None)
    for l in EXT_LINES:
        for p in CONT:
            add(p + l); add(p + l + "\n")
    for a, b in itertools.product(PAIR_LINES, repeat=2):
        add(a + "\n" + b + "\n")
    for a, b in itertools.product(EXT_LINES, PLAIN_LINES):
        add(a + "\n" + b + "\n"); add(b + "\n" + a + "\n"); add(b + "\n" + a)
    for d in TASK_NOT_FIRST:
        add(d)
    for a in EXT_LINES:
        add("---\nk: v\n---\n" + a + "\n")
        add("- [ ] " + a + "\n")
        add("> " + a + "\n> " + a + "\n")
    for l in ACTING_LINES:                      # one deletion away from acting syntax
        for k in range(len(l)):
            add(l[:k] + l[k + 1:] + "\n")
    for t in INLINE_TEMPLATES:
        for w in WORDS:
            add(t.format(w=w)); add(t.format(w=w) + "\n"); add("> " + t.format(w=w).replace("\n", "\n> ")); add("- " + t.format(w=w).replace("\n", "\n  "))
    for d in docs.d1(docs.CORE_PREFIX, docs.CORE_BODY):
        add(d)
    return list(seen)


RAWHTML_ART = re.compile("\a<\a&lt;\a/?(%s)\\b[^<\a]*>" % "|".join(DISALLOWED), re.I)


def artefact(i, toks, doc):
    """Does the token stream show the work of extension i?  (Used only for subsets in which i is OFF.)"""
    if i == 0:
        return any(t.startswith("[front-matter(") for t in toks)
    if i == 1:
        return any(t.startswith("[pragma:") for t in toks)
    if i == 2:   # a complete disallowed tag that ended up as escaped text (in plain CommonMark a complete tag is raw HTML, never text)
        return any(t.startswith("[text(") and RAWHTML_ART.search(t) for t in toks)
    if i == 3:
        return any(t.startswith("[task-list(") for t in toks)
    if i == 4:
        return any(re.match(r"^\[emphasis\(\d+,\d+\):\d+:~\]$", t) for t in toks)
    # every CommonMark autolink comes from a `<`; more autolink tokens than `<` characters = bare autolinks
    return sum(1 for t in toks if t.startswith(("[uri-autolink(", "[email-autolink("))) > doc.count("<")


def outputs(doc, bits):
    tk, _ = make_parser(bits)
    toks, sig = transform(tk, doc)
    if toks is None:
        return ("EXC", sig, "", "")
    html, md = render(toks)
    return ("ok", tuple(tok_strs(toks)), html, md)


def _inert_worker(doc):
    """All 64 subsets on one document.  For every extension e whose trigger syntax the document lacks and every setting S of the
    other five: out(S) == out(S + e).  (Equivalently: the output depends only on S ∩ triggers(doc).)"""
    try:
        trig = triggers(doc)
        allout = {bits: outputs(doc, bits) for bits in itertools.product([0, 1], repeat=6)}
        fails, nfails = [], 0
        # disabled => no artefact of that extension, whatever the document contains
        for i in range(6):
            hit = next((bits for bits, out in allout.items() if not bits[i] and out[0] == "ok" and artefact(i, out[1], doc)), None)
            if hit is not None:
                nfails += 1
                fails.append((hit, i, "artefact"))
        for i in range(6):
            if trig[i]:
                continue
            first = None
            for bits, out in allout.items():
                if bits[i]:
                    continue
                on = tuple(1 if j == i else bits[j] for j in range(6))
                if allout[on] != out:
                    nfails += 1
                    if first is None:
                        first = (bits, i, "toggle")
            if first:
                fails.append(first)
        distinct = len({hashlib.sha1(repr(o).encode()).hexdigest() for o in allout.values()})
        off = allout[(0,) * 6]
        return doc, trig, fails, nfails, distinct, off[0], off[2]
    except Exception as e:
        return doc, None, [{"harness-error": repr(e), "trace": traceback.format_exc()[-500:]}], 1, 0, "?", ""


def _clip(x):
    if isinstance(x, tuple):
        return list(x)[:10]
    return x[:300] if isinstance(x, str) else x


def inert_footprint(doc, i, a, b):
    """F-EA-IMG-ALT: extended autolinks on; only image tokens differ (their alt text lost characters) and the document has an image
    label with a hard line break followed, inside the label, by one of the characters the extension registers handlers for."""
    if EXT_SHORT[i] == "autolinks" and a[0] == b[0] == "ok" and len(a[1]) == len(b[1]):
        diff = [(x, y) for x, y in zip(a[1], b[1]) if x != y]
        if diff and all(x.startswith("[image(") and y.startswith("[image(") for x, y in diff) \
                and re.search(r"!\[[^\]]*(  |\\)\n[^\]]*[hwxm@]", doc):
            return "autolinks-image-alt-after-hard-break"
    return None


def shrink_doc(doc, pred, budget=150):
    """line-wise then character-wise ddmin keeping pred(doc) true"""
    best = doc
    changed = True
    n = 0
    while changed and n < budget:
        changed = False
        lines = best.split("\n")
        for i in range(len(lines)):
            cand = "\n".join(lines[:i] + lines[i + 1:])
            n += 1
            if cand != best and pred(cand):
                best, changed = cand, True
                break
    changed = True
    while changed and n < budget:
        changed = False
        for i in range(len(best)):
            cand = best[:i] + best[i + 1:]
            n += 1
            if pred(cand):
                best, changed = cand, True
                break
            if n >= budget:
                break
    return best


# ------------------------------------------------------------------------------------------------ (b) valid header x pool
HEADERS = [("---", ("a: b",), "---"), ("--- ", ("title: x", "tags:", "  - p"), "---\t"), ("---", ("k1: v", "k2: v", "k3: v", "k4: v", "k5: v"), "---"),
           ("---", ("- x", "- y"), "---"), ("---", ("{}",), "--- ")]


def _shift_worker(args):
    """front matter on (alone, or with the five others on) + valid header + rest  ==  token ++ shift_k(parse(rest))"""
    hi, rest, others = args
    st, body, cl = HEADERS[hi]
    k = len(body) + 2
    header = "\n".join([st] + list(body) + [cl])
    doc = header if rest is None else header + "\n" + rest
    on = (1,) + (others,) * 5
    off = (0,) + (others,) * 5
    try:
        tk_on, _ = make_parser(on)
        tk_off, _ = make_parser(off)
        toks_on, sig_on = transform(tk_on, doc)
        if rest is None:
            t_rest, s_rest = [], None
        else:
            t_rest, s_rest = transform(tk_off, rest)
        if toks_on is None and t_rest is None:
            return doc, k, "rest-unparseable"     # the parser proper fails on the rest alone too (C01 territory): the property has nothing to say
        if toks_on is None or t_rest is None:
            return doc, k, [("fm-shift-mismatch", {"real": sig_on or "parses", "expected": s_rest or "parses", "others_on": others, "hi": hi, "rest": rest})]
        if any(getattr(t, "is_pragma", False) for t in t_rest):
            return doc, k, None     # pragma token serialises line numbers differently: outside this oracle
        exp = [shift_str(s, k) for s in tok_strs(t_rest)]
        got = tok_strs(toks_on)
        t0 = toks_on[0] if toks_on else None
        ok = (t0 is not None and t0.is_front_matter and t0.start_boundary_line == st and t0.end_boundary_line == cl
              and list(t0.collected_lines) == list(body) and (t0.line_number, t0.column_number) == (1, 1) and got[1:] == exp)
        if not ok:
            i = next((j for j, (x, y) in enumerate(zip(got[1:], exp)) if x != y), min(len(got) - 1, len(exp)))
            return doc, k, [("fm-shift-mismatch", {"k": k, "others_on": others, "hi": hi, "rest": rest, "first_difference": [got[1:][i:i + 2], exp[i:i + 2]]})]
        probs = []
        h_on, md_on = render(toks_on)
        h_rest, md_rest = render(t_rest) if rest is not None else ("", "")
        if h_on != h_rest:
            fp = "plain-html-leading-newline" if (h_rest == "\n" + h_on and t_rest and t_rest[0].is_html_block) else None
            probs.append(("fm-html-mismatch", {"real": h_on[:200], "expected": h_rest[:200], "others_on": others, "hi": hi, "rest": rest, "footprint": fp}))
        exp_md = header + ("\n" + md_rest if rest is not None else "")
        if not md_on.startswith("EXC") and not md_rest.startswith("EXC") and md_on != exp_md:
            probs.append(("fm-markdown-mismatch", {"real": md_on[:200], "expected": exp_md[:200], "others_on": others, "hi": hi, "rest": rest}))
        return doc, k, probs
    except Exception as e:
        return doc, k, [("harness-error", {"error": repr(e), "trace": traceback.format_exc()[-500:]})]


# ------------------------------------------------------------------------------------------------ run
def signature_finding(ctx, symptom, det):
    for f in ctx.findings:
        if f.get("symptom") != symptom:
            continue
        if "signature" in f and det.get("signature") is not None and f["signature"] == det.get("signature"):
            return f
        if "footprint" in f and det.get("footprint") is not None and f["footprint"] == det.get("footprint"):
            return f
    return None


def run(ctx):
    t0 = time.time()
    ctx.lean_stage(["ext_flags"], ["Verif.Props.C20", "Verif.Props.C20LeanMark"])
    # ids spelled as `extensions list` spells them (tie to the generated table)
    try:
        sys.path.insert(0, os.path.join(vlib.ROOT, "tools", "translate"))
        import ext_flags
        table = ext_flags.extract(vlib.REPO)
        ids = {w["ext"]: w["ident"] for w in table["wires"]}
        if [ids.get(e) for e in LEAN_EXT] != EXT_IDS:
            ctx.broken.append(f"extension identifiers changed: {ids}")
    except Exception as e:
        table = None
        if not any("translator ext_flags" in str(b) for b in ctx.broken):
            ctx.broken.append(f"translator ext_flags: {type(e).__name__}: {e}")
    mp = multiprocessing.get_context("fork")
    unlisted = []
    _report = ctx.report
    def report(case, sym, payload):
        unlisted.append({"case": case, "symptom": sym, "detail": payload})
        return _report(case, sym, payload)
    ctx.report = report
    stats = {}
    samples = []
    with mp.Pool(NPROC) as pool:
        # ---------------- (T)
        n_flags, bad = flags_correspondence(ctx)
        for bits, what, det in bad[:5]:
            ctx.broken.append(f"correspondence flags {''.join(map(str, bits)) if isinstance(bits, tuple) else bits}: {what}: {json.dumps(det, default=str)[:300]}")
        stats["flag_tables"] = {"subsets": n_flags, "disagreements": len(bad)}
        # ---------------- (a) + oracle on the same documents
        total, cases, results = run_fm(ctx, pool)
        branches, kinds, nontrivial = {}, {}, set()
        n_corr_bad = 0
        absorbed = {}
        for doc, allow, verdict, branch, kind, problems in results:
            branches[branch] = branches.get(branch, 0) + 1
            kinds[kind] = kinds.get(kind, 0) + 1
            if branch in ("token", "abandon", "err eof", "err yaml"):
                nontrivial.add((doc, allow))
            for sym, det in problems:
                case = {"doc": doc, "allow_blank_lines": allow}
                if sym == "harness-error":
                    raise vlib.MachineryError(det["error"] + det["trace"])
                if sym.startswith("corr-"):
                    n_corr_bad += 1
                    if n_corr_bad <= 8:
                        ctx.broken.append(f"correspondence front matter ({sym}) on {doc!r}: {json.dumps(det, default=str)[:300]}")
                    continue
                f = signature_finding(ctx, sym, det)
                if f:
                    absorbed[f["id"]] = absorbed.get(f["id"], 0) + 1
                    ctx.known_finding(f)
                else:
                    ctx.report(case, sym, dict(det, yaml_verdict=verdict, oracle="front matter: property statement vs real parser (front-matter alone enabled)"))
        stats["front_matter"] = {"space": total, "evaluations": len(cases), "distinct_nontrivial": len(nontrivial), "branches": branches,
                                 "oracle_kinds": kinds, "disagreements": n_corr_bad, "exhaustive": not ctx.quick(),
                                 "rule": "PRE x START x BODY x CLOSE x REST x EOL x allow_blank_lines (product of the lists in c20.py) + fixed corpus; "
                                         "non-trivial = the first line is a front-matter start (token / abandon / error branch)"}
        samples.append({"front_matter_doc": cases[len(FM_CORPUS) * 2][0] if len(cases) > len(FM_CORPUS) * 2 else cases[0][0]})
        # ---------------- (b) valid headers x pool of rests
        rests = [None, ""] + [d for d in inert_space() if not POS.search(d)]
        rests += [d for d in docs.repo_sources() if not POS.search(d) and len(d) < 1500]
        rests = list(dict.fromkeys(rests))
        n_rest_space = len(rests) * len(HEADERS) * 2
        if ctx.quick():
            rests = [None, ""] + docs.sample(ctx.rng, rests[2:], 500)
            work = [(ctx.rng.randrange(len(HEADERS)), r, ctx.rng.randrange(2)) for r in rests]
        else:
            work = [(hi, r, o) for r in rests for hi in range(len(HEADERS)) for o in (0, 1)]
        res = pool.map(_shift_worker, work, chunksize=64)
        n_shift, n_skipped, n_unparse, shift_nt = 0, 0, 0, set()
        for doc, k, probs in res:
            if probs is None:
                n_skipped += 1
                continue
            if probs == "rest-unparseable":
                n_unparse += 1
                continue
            n_shift += 1
            shift_nt.add(doc)
            for sym, det in probs:
                if sym == "harness-error":
                    raise vlib.MachineryError(det["error"] + det["trace"])
                f = signature_finding(ctx, sym, det)
                if f:
                    absorbed[f["id"]] = absorbed.get(f["id"], 0) + 1
                    ctx.known_finding(f)
                else:
                    ctx.report({"doc": doc}, sym, dict(det, oracle="tokens(front matter on, valid block of k lines + rest) == [front-matter] ++ shift_k(tokens(rest))"))
        stats["shift_oracle"] = {"space": n_rest_space, "evaluations": n_shift, "distinct_nontrivial": len(shift_nt), "skipped_pragma_token": n_skipped, "rest_unparseable_both_fail": n_unparse,
                                 "exhaustive": not ctx.quick(),
                                 "rule": "5 valid headers x {other five extensions all off, all on} x (extension-syntax pool ∪ core one-line documents ∪ repo spec sources); "
                                         "tokens, HTML and regenerated Markdown"}
        samples.append({"shift_doc": work[min(5, len(work) - 1)][1]})
        # ---------------- (c) inertness
        pool_docs = inert_space()
        extra = [d for d in docs.repo_sources() if len(d) < 1500] + [t for _, t in docs.rule_resources() if len(t) < 1500]
        n_inert_space = len(pool_docs) + len(extra)
        if ctx.quick():
            singles = [l for l in EXT_LINES] + [l + "\n" for l in ACTING_LINES] + TASK_NOT_FIRST
            pool_docs = singles + docs.sample(ctx.rng, pool_docs, 400) + docs.sample(ctx.rng, extra, 80)
        else:
            pool_docs = pool_docs + extra
        pool_docs = list(dict.fromkeys(pool_docs))
        res = pool.map(_inert_worker, pool_docs, chunksize=8)
        with_trig = [0] * 6
        without_trig = [0] * 6
        n_changing, n_fail_docs, off_exc = 0, 0, 0
        fails_all = []
        for doc, trig, fails, nfails, distinct, off_status, off_html in res:
            if trig is None:
                raise vlib.MachineryError(str(fails))
            for i in range(6):
                (with_trig if trig[i] else without_trig)[i] += 1
            if distinct > 1:
                n_changing += 1
            if off_status != "ok":
                off_exc += 1
            if nfails:
                n_fail_docs += 1
                fails_all.append((doc, fails))
        n_shrunk = 0
        for doc, base, i, kind in [(d, bs, i, kd) for d, fl in fails_all for bs, i, kd in fl]:
            if kind == "artefact":
                pred = lambda d, base=base, i=i: (lambda o: o[0] == "ok" and artefact(i, o[1], d))(outputs(d, base))
                small = shrink_doc(doc, pred) if n_shrunk < 25 else doc
                n_shrunk += 1
                o = outputs(small, base)
                ctx.report({"doc": small, "extension": EXT_IDS[i], "enabled": [EXT_IDS[j] for j in range(6) if base[j]]}, "disabled-extension-acts",
                           {"tokens": _clip(o[1]), "html": o[2][:300], "original_doc": doc[:300],
                            "oracle": "with an extension disabled no token of that extension may appear, whatever the document contains"})
                continue
            on = tuple(1 if j == i else base[j] for j in range(6))
            a, b = outputs(doc, base), outputs(doc, on)
            small = doc
            f = signature_finding(ctx, "inert-enable-changes-output", {"footprint": inert_footprint(doc, i, a, b)})
            if not f and n_shrunk < 25:
                n_shrunk += 1
                pred = lambda d, base=base, on=on, i=i: d != "" and not TRIG[i](d) and outputs(d, base) != outputs(d, on)
                small = shrink_doc(doc, pred) if pred(doc) else doc
                a, b = outputs(small, base), outputs(small, on)
            which = next((n for n, (x, y) in zip(("status", "tokens", "html", "markdown"), zip(a, b)) if x != y), "?")
            idx = ("status", "tokens", "html", "markdown").index(which) if which != "?" else 0
            det = {"extension": EXT_IDS[i], "others_on": [EXT_IDS[j] for j in range(6) if base[j]], "differs_in": which,
                   "without": _clip(a[idx]), "with": _clip(b[idx]), "original_doc": doc[:300], "footprint": inert_footprint(small, i, a, b)}
            f = signature_finding(ctx, "inert-enable-changes-output", det)
            if f:
                absorbed[f["id"]] = absorbed.get(f["id"], 0) + 1
                ctx.known_finding(f)
            else:
                ctx.report({"doc": small, "extension": EXT_IDS[i], "others_on": det["others_on"]}, "inert-enable-changes-output",
                           dict(det, oracle="enabling an extension on a document without its trigger syntax must not change tokens / HTML / Markdown (any setting of the other five)"))
        stats["inertness"] = {"space": n_inert_space, "evaluations": len(pool_docs) * 64, "documents": len(pool_docs),
                              "distinct_nontrivial": n_changing, "documents_with_trigger": dict(zip(EXT_SHORT, with_trig)),
                              "documents_without_trigger": dict(zip(EXT_SHORT, without_trig)), "failing_documents": n_fail_docs,
                              "all_off_parser_errors": off_exc, "exhaustive": not ctx.quick(),
                              "rule": "document pool (extension-syntax lines and near misses alone / in containers / ordered pairs of PAIR_LINES / next to plain lines / under a header / one deletion "
                                      "away from acting syntax / handler-character words in every inline context, core one-line documents, repo spec sources, rule resources) x all 64 subsets; outputs must be equal for subsets that agree on the extensions whose "
                                      "trigger syntax the document contains; non-trivial = at least two subsets give different output (some extension really acts)"}
        samples.append({"inert_doc": pool_docs[0], "triggers": dict(zip(EXT_SHORT, triggers(pool_docs[0])))})
        # ---------------- spec corpus: all-off == the repo's CommonMark/GFM-spec expectations, also on documents full of extension syntax
        spec = [(n, md, html) for n, md, html in docs.repo_cases() if not n.startswith("extensions/") and not triggers(md)[1] and len(md) < 1500]
        if ctx.quick():
            spec = docs.sample(ctx.rng, spec, 300)
        tk_off, _ = make_parser((0,) * 6)
        tk_dflt, _ = make_parser((0, 1, 0, 0, 0, 0))
        n_spec, n_spec_trig, spec_skipped, spec_bad = 0, 0, [], []
        from pymarkdown.transform_gfm.transform_to_gfm import TransformToGfm
        for name, md, html in spec:
            toks, sig = transform(tk_off, md)
            toks_d, sig_d = transform(tk_dflt, md)
            if toks is None or toks_d is None:
                if (toks is None) != (toks_d is None):
                    spec_bad.append(name)
                continue
            n_spec += 1
            n_spec_trig += int(any(triggers(md)))
            got, got_d = render(toks)[0], render(toks_d)[0]
            if got != got_d:
                spec_bad.append(name)
                ctx.report({"doc": md, "extension": "linter-pragmas", "others_on": []}, "inert-enable-changes-output",
                           {"without": got[:300], "with": got_d[:300], "differs_in": "html", "oracle": "spec corpus: all-off vs default configuration"})
            elif got != html:
                spec_skipped.append(name)       # identical under the default configuration: an expectation the repo itself does not meet (skipped tests)
        stats["spec_corpus"] = {"evaluations": n_spec, "with_extension_syntax": n_spec_trig, "all_off_differs_from_default": len(spec_bad),
                                "differs_from_expected_html_like_default": len(spec_skipped), "names": (spec_bad + spec_skipped)[:10],
                                "rule": "repo spec cases (not extension tests, no pragma line): HTML of the all-off parser == HTML of the default configuration == expected_gfm"}
    if os.environ.get("VERIF_DUMP"):
        json.dump(unlisted, open(os.environ["VERIF_DUMP"], "w"), indent=1, default=str)
    if ctx.broken and not ctx.violations:
        ctx.violation({"oracle": "Verif.Props.C20 / flag-table or front-matter correspondence broken; no failing document found"}, no_input=True)
    ctx.assumptions += [
        "PyYAML and the post-checks of FrontMatterExtension.__validate_yaml are outside the model: their verdict (ok / invalid / raises) is obtained by calling that function and passed to the model",
        "MainLoop abstraction: the parser proper is a function of (first line number, lines); requeue-then-provider delivery equals concatenation (checked end to end in (a2))",
        "flags_guard: a private helper counts as guarded when all its call sites in the same file are (asserts are not counted as guards)",
        "trigger syntax per extension is the conservative textual predicate in c20.TRIG; 'plain CommonMark' for the all-off parser is checked against the repo's spec expectations only (LeanMark later)",
        "positions inside serialised tokens are the `(line,col)` groups; documents whose own text contains such a group are excluded from the shift oracle"]
    ev = stats["front_matter"]["evaluations"] + stats["shift_oracle"]["evaluations"] + stats["inertness"]["evaluations"] + n_flags
    ctx.write_evidence({"correspondence": {"evaluations": ev,
                                           "distinct_nontrivial": stats["front_matter"]["distinct_nontrivial"] + stats["shift_oracle"]["distinct_nontrivial"] + stats["inertness"]["distinct_nontrivial"],
                                           "rule": "see the four sub-spaces", "exhaustive": not ctx.quick(), **stats},
                        "evaluations": ev,
                        "distinct_nontrivial": stats["front_matter"]["distinct_nontrivial"] + stats["shift_oracle"]["distinct_nontrivial"] + stats["inertness"]["distinct_nontrivial"],
                        "rule": "flag tables: 64 subsets; front matter: header-shape product; shift oracle: headers x pool; inertness: pool x 64 subsets (details under correspondence)",
                        "footprints_absorbed": absorbed, "exhaustive": not ctx.quick(),
                        "samples": samples})
    ctx.coverage["wall"] = round(time.time() - t0, 1)


def replay(ctx, path):
    rp = json.load(open(path))
    if rp.get("kind") == "no-failing-input-found":
        print("replay names broken obligations only:", rp.get("broken"))
        return 1
    inp = rp["input"]
    sym = rp.get("symptom")
    doc = inp["doc"]
    if sym == "disabled-extension-acts":
        i = EXT_IDS.index(inp["extension"])
        bits = tuple(1 if e in inp.get("enabled", []) else 0 for e in EXT_IDS)
        o = outputs(doc, bits)
        print("enabled:", inp.get("enabled"), "->", o)
        if o[0] == "ok" and artefact(i, o[1], doc):
            print(f"VIOLATION property=C20 replay={path}")
            return 1
        return 0
    if sym == "inert-enable-changes-output":
        i = EXT_IDS.index(inp["extension"])
        base = tuple(1 if e in inp.get("others_on", []) else 0 for e in EXT_IDS)
        on = tuple(1 if j == i else base[j] for j in range(6))
        a, b = outputs(doc, base), outputs(doc, on)
        print("without:", a); print("with   :", b)
        if a != b and not TRIG[i](doc):
            print(f"VIOLATION property=C20 replay={path}")
            return 1
        return 0
    allow = bool(inp.get("allow_blank_lines", False))
    drv = vlib.Driver("frontmatter")
    s = drv.run([f"scan|{int(allow)}|{enc_doc(doc)}"])[0]
    v = 1
    if s.startswith("closed"):
        coll, _ = dec_lines(s.split("|"), 1)
        v = yaml_verdict(coll)
    r = drv.run([f"run|1|{int(allow)}|{v}|{enc_doc(doc)}"])[0]
    if "hi" in rp:
        _, _, probs = _shift_worker((rp["hi"], rp["rest"], rp["others_on"]))
        print(probs)
        if probs and any(p[0] == sym for p in probs):
            print(f"VIOLATION property=C20 replay={path}")
            return 1
        return 0
    branch, kind, problems = fm_check_one(doc, allow, v, r)
    print("model branch:", branch, "| oracle:", kind)
    for p in problems:
        print(p)
    if any(p[0] == sym for p in problems):
        print(f"VIOLATION property=C20 replay={path}")
        return 1
    return 0
