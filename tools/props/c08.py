"""C08 — fix mode preserves meaning: only style changes, content and structure stay.

proof:  Verif.Props.C08 — fix_writes_every_line_once, linePass_id (the line pass writes every line exactly once; with no
        rewriting rule the output is the input), the repaired defect F-ENG kept as a model (pinned_fix_line_loss).
tie:    fix-mode correspondence (probe fixers through the real `fix` vs Verif.Model.FixSched: bytes written back, operations).
oracle: fingerprint(LeanMark(d)) == fingerprint(LeanMark(fix d)) with the real `fix`, where LeanMark is the independent
        reference renderer (Lean) and the fingerprint quotients out exactly the documented normalisations: whitespace, marker and
        fence characters (invisible in HTML), list start numbers, heading levels, hard-break spelling, emphasis spelling
        (MD037), code-block style; default rule set and each fix-capable default rule alone.
"""
import html as htmlmod, json, multiprocessing as mp, os, re
import vlib, implib, docs, enginelib as E, fixlib as F, leanmarklib as LM


def fingerprint(h):
    """Sequence of block tags (normalised) interleaved with whitespace-normalised text."""
    h = re.sub(r'<ol start="\d+">', "<ol>", h)
    h = re.sub(r"<(/?)h[1-6]>", r"<\1h>", h)
    h = re.sub(r'<code class="language-[^"]*">', "<code>", h)
    h = h.replace("<br />", " ")
    # tight vs loose lists differ by blank lines only: <li><p>a</p></li> ~ <li>a</li>; keep paragraph ends elsewhere
    h = re.sub(r"</p>\s*(?=</li>)", "", h)
    h = h.replace("<p>", "").replace("</p>", "<¶>")
    h = re.sub(r"</?(em|strong)>", "", h)
    parts = re.split(r"(<[^>]+>)", h)
    out = []
    for p in parts:
        if not p:
            continue
        if p.startswith("<"):
            t = re.sub(r"\s+", " ", p)
            t = re.sub(r'=" +', '="', t); t = re.sub(r' +"', '"', t); t = re.sub(r" +>", ">", t)
            out.append(t)
        else:
            t = htmlmod.unescape(p)
            t = t.replace("*", "").replace("_", "")
            t = re.sub(r"\s+", " ", t).strip()
            if t:
                if out and not out[-1].startswith("<"):
                    out[-1] = (out[-1] + " " + t).strip()
                else:
                    out.append(t)
    # paragraph-internal line structure is whitespace: join adjacent text; drop empty <p></p> artefacts
    return out


def fix_doc(ws, x, args):
    d = os.path.join(ws, "w")
    os.makedirs(d, exist_ok=True)
    p = os.path.join(d, "x.md")
    implib.write(p, x)
    c, o, e = vlib.run_main(args + ["fix", "x.md"], cwd=d)
    if c not in (0, 3):
        return None
    try:
        return open(p, encoding="utf-8", newline="").read()
    except UnicodeDecodeError:
        return None


def _task(t):
    cname, args, chunk = t
    out = []
    with implib.workspace() as ws:
        for x in chunk:
            try:
                out.append((x, fix_doc(ws, x, args)))
            except BaseException:
                out.append((x, None))
    return cname, out


def sweep(ctx, pool, configs):
    tasks = [(c, a, pool[k:k + 60]) for c, a in configs for k in range(0, len(pool), 60)]
    with mp.get_context("fork").Pool(16) as pl:
        results = pl.map(_task, tasks, chunksize=1)
    pairs = []
    for cname, out in results:
        for x, y in out:
            if y is not None and y != x:
                pairs.append((cname, x, y))
    evals = sum(len(o) for _, o in results)
    texts = list(dict.fromkeys([x for _, x, _ in pairs] + [y for _, _, y in pairs]))
    scope = dict(zip(texts, LM.in_scope(texts))) if texts else {}
    ok_texts = [t for t in texts if scope[t]]
    rendered = dict(zip(ok_texts, LM.html(ok_texts))) if ok_texts else {}
    fails, compared, out_of_scope = [], 0, 0
    for cname, x, y in pairs:
        if not (scope.get(x) and scope.get(y)):
            out_of_scope += 1
            continue
        compared += 1
        fx, fy = fingerprint(rendered[x]), fingerprint(rendered[y])
        if fx != fy:
            k = next((i for i, (a, b) in enumerate(zip(fx, fy)) if a != b), min(len(fx), len(fy)))
            sig = "meaning-changed:" + (fx[k] if k < len(fx) and fx[k].startswith("<") else "text") + "->" + (fy[k] if k < len(fy) and fy[k].startswith("<") else "text")
            fails.append((cname, x, y, sig, fx[max(0, k - 1):k + 2], fy[max(0, k - 1):k + 2]))
    return evals, compared, out_of_scope, fails


def run(ctx):
    ctx.lean_stage([], ["Verif.Props.C08", "Verif.Props.TokenRules", "Verif.Props.RegenLeaf", "Verif.Props.RegenLeaf2", "Verif.Props.TokenRules2", "Verif.Props.TokenRules2.Md023", "Verif.Props.TokenRules2.Md030", "Verif.Props.TokenRules2.Md037", "Verif.Props.TokenRules2.Md044", "Verif.Props.TokenRules2.Md046", "Verif.Props.TokenRules2.Interfere", "Verif.Props.TokenRules2.InterfereRows"])
    import blocks
    blocks.tokenrules2(ctx)    # mdX_fix_only_style for MD023 MD030 MD037 MD044 MD046 (what may change, by how much); proved counter-examples where the fix destroys text
    blocks.regenleaf(ctx)      # regen_field_local: changing one style field of one leaf token changes only that token's own contribution to the regenerated text
    blocks.tokenrules(ctx)     # mdXXX_fix_only_style: token-level statement of "only style changes" for nine token fixers
    stats_c, samples = F.fix_correspondence(ctx, 40 if ctx.quick() else 600, F.FIX_CORPUS)
    fm = E.fix_meta()
    dflt = E.default_ids()
    fixable = [k for k in dflt if fm[k][0]]
    res = [t for _, t in docs.rule_resources()]
    srcs = docs.repo_sources()
    if ctx.quick():
        pool = docs.sample(ctx.rng, res, 150) + docs.sample(ctx.rng, srcs, 250) + docs.sample(ctx.rng, docs.families(), 200)
        singles = docs.sample(ctx.rng, fixable, 3)
    else:
        pool = res + srcs + docs.families()
        singles = fixable
    pool = list(dict.fromkeys(pool))
    configs = [("default", [])] + [("only-" + r, E.only_args([r])) for r in singles]
    ev1, cmp1, oos1, fails = sweep(ctx, pool, configs[:1])
    small = docs.sample(ctx.rng, pool, 80) if ctx.quick() else pool
    ev2, cmp2, oos2, f2 = sweep(ctx, small, configs[1:])
    fails += f2
    base = vlib.InputBaseline("C08")
    for cname, x, y, sig, a, b in fails:
        vlib.collect_failure("C08", cname, x, sig)
        if base.absorbs(cname, x, sig):
            continue
        ctx.report({"doc": x, "config": cname}, "meaning-changed", {"signature": sig, "fixed": y, "before": a, "after": b,
                   "oracle": "fingerprint of the reference rendering (LeanMark) before and after the real `fix`"})
    if base.absorbed:
        f = next((f for f in ctx.findings if f["id"] == "F-FIX-MEANING"), None)
        if f:
            ctx.known_finding(f, f"{sum(base.absorbed.values())} listed inputs in {len(base.absorbed)} signature families (findings/C08.inputs.json): " + "; ".join(f"{k} x{v}" for k, v in sorted(base.absorbed.items(), key=lambda kv: -kv[1])[:6]))
    if ctx.broken and not ctx.violations:
        ctx.violation({"oracle": "Verif.Props.C08 / fix-mode correspondence broken; no unlisted meaning-changing fix found"}, no_input=True)
    ctx.assumptions += ["the fingerprint quotients out whitespace, list start numbers, heading levels, hard-break spelling, emphasis markers and code-fence language class",
                        "documents outside LeanMark's alphabet (InScope) and documents on which fix fails are skipped and counted",
                        "token-level fixers and the Markdown regenerator are not modelled: explored, not proved"]
    ctx.write_evidence({"correspondence": stats_c,
                        "meaning_sweep": {"evaluations": ev1 + ev2, "distinct_nontrivial": cmp1 + cmp2, "out_of_scope": oos1 + oos2, "documents": len(pool),
                                          "configs": [c for c, _ in configs], "listed_inputs_absorbed": base.absorbed,
                                          "rule": "pool documents x {default, each fix-capable default rule alone}; non-trivial = fix changed the document and both versions are in LeanMark's scope",
                                          "exhaustive": not ctx.quick()},
                        "samples": samples})


def replay(ctx, path):
    rp = json.load(open(path))
    inp = rp.get("input", {})
    if "doc" in inp and "specs" not in inp:
        args = [] if inp["config"] == "default" else E.only_args([inp["config"][5:]])
        ev, cmp_, oos, fails = sweep(ctx, [inp["doc"]], [(inp["config"], args)])
        print(fails[:1])
        if fails:
            print(f"VIOLATION property=C08 replay={path}")
            return 1
        return 0
    if "specs" in inp:
        import c09
        return c09.replay(ctx, path)
    print("replay:", rp.get("broken") or inp)
    return 1
