"""C07 — scan never fails internally; every report in range, unique, ordered; deterministic.

proof:  Verif.Props.C07 (strict weak order of __lt__, printed list sorted + permutation of the
        unsuppressed reports, counter, fault wrapping) over the faithful engine model.
tie:    engine correspondence — probe rules implemented in Lean and as plug-ins, real `scan`
        vs model on multi-file, multi-failure, pragma- and fault-carrying scenarios
        (printed order, errors, exit status, call logs).
oracle: the property statement evaluated directly on real scans of a document pool under
        {default set, all rules enabled, each rule alone}.
"""
import json, os, re
import vlib, implib, docs, enginelib as E

WORDS = ["alpha", "TRIG", "beta TRIG gamma", "TRIG TRIG", "# head", "", "- item TRIG", "> quote", "BOOM", "plain",
         "<!-- pyml disable-next-line vpb500-->", "<!-- pyml disable-num-lines 2 vpa001,zzz999-->",
         "<!--- pyml disable-next-line probe-zzz999-->", "<!-- pyml disable-next-line nosuch-->", "<!-- pyml frob x-->",
         "tab\there TRIG", "é TRIG"]
IDS = ["VPA001", "VPB500", "ZZZ999", "AAA000", "MDZ500"]


def gen_scenario(rng):
    n = rng.randint(1, 3)
    specs = []
    for pid in rng.sample(IDS, n):
        specs.append(dict(id=pid, start=rng.random() < .7, token=rng.random() < .6, line=rng.random() < .8, done=rng.random() < .6,
                          resets=rng.random() < .6, doneReport=rng.random() < .5,
                          lineTrig=rng.choice(["TRIG", "TRIG", "a", ""]), tokTrig=rng.choice(["", "text", "para", "TRIG"]),
                          boom=rng.choice(["", "", "BOOM"])))
    texts = []
    for _ in range(rng.randint(1, 3)):
        k = rng.randint(0, 7)
        body = "\n".join(rng.choice(WORDS) for _ in range(k))
        if rng.random() < .7 and k:
            body += "\n"
        texts.append(body)
    return specs, texts, rng.random() < .6


def engine_correspondence(ctx, n, tag="engine", gen=None, corpus=None, extra_check=None):
    """Run n random scenarios through the real engine and the Lean model. Returns stats."""
    drv = vlib.Driver("engine")
    gen = gen or gen_scenario
    scen = [gen(ctx.rng) for _ in range(n)]
    # fixed corpus first
    scen = (CORPUS if corpus is None else corpus) + scen
    reqs, ords = [], []
    diffs_total, evals, nontrivial, samples = 0, 0, set(), []
    dist = {"faults": 0, "pragma": 0, "multi_rule": 0, "multi_file": 0, "ties": 0}
    with implib.workspace() as ws:
        reals = []
        for specs, texts, cont in scen:
            req, ordered = E.model_request(specs, texts, cont)
            reqs.append(req); ords.append(ordered)
            reals.append(E.run_real(ws, specs, texts, cont))
        answers = drv.run(reqs)
        for (specs, texts, cont), real, ans, ordered in zip(scen, reals, answers, ords):
            evals += 1
            d = E.compare(real, ans, ordered)
            for sp in specs:
                if not sp.get("enabled", True) and real["log"].get(sp["id"]):
                    d.append(f"disabled rule {sp['id']} received {len(real['log'][sp['id']])} calls")
            if extra_check:
                d += extra_check(specs, texts, cont, real)
            printed = [r for v in real["printed"].values() for r in v]
            if printed or real["errs"]:
                nontrivial.add(json.dumps([specs, texts, cont], sort_keys=True))
            dist["faults"] += bool(real["errs"]); dist["pragma"] += any("pyml" in t for t in texts)
            dist["multi_rule"] += len(specs) > 1; dist["multi_file"] += len(texts) > 1
            dist["ties"] += any(len({(r[0], r[1]) for r in v}) < len(v) for v in real["printed"].values())
            if len(samples) < 3 and printed:
                samples.append({"rules": [s["id"] for s in specs], "files": texts, "continue": cont,
                                "printed": {k: v for k, v in real["printed"].items()}})
            if d:
                diffs_total += 1
                ctx.broken.append(f"correspondence {tag}: {d[0]}")
                ctx.report({"specs": specs, "texts": texts, "cont": cont}, "engine-model-mismatch",
                           {"oracle": "real rule engine vs Lean Verif.Model.Engine (probe rules)", "diffs": d[:5]})
    return {"evaluations": evals, "distinct_nontrivial": len(nontrivial), "disagreements": diffs_total,
            "distribution": dist, "rule": "random probe-rule scenarios (1-3 probe rules with random callback subsets/ids, 1-3 files "
            "from a word pool with pragma/fault/trigger lines) + fixed corpus; non-trivial = at least one report or error"}, samples


P = dict(start=True, token=True, line=True, done=True, resets=True, doneReport=True, lineTrig="TRIG", tokTrig="", boom="BOOM")
CORPUS = [
    ([dict(P, id="ZZZ999"), dict(P, id="AAA000", resets=False)], ["TRIG\nTRIG TRIG\n", "x\nBOOM\nTRIG\n", "TRIG"], True),
    ([dict(P, id="ZZZ999"), dict(P, id="AAA000", resets=False)], ["TRIG\nTRIG TRIG\n", "x\nBOOM\nTRIG\n", "TRIG"], False),
    ([dict(P, id="VPA001", tokTrig="para", line=False)], ["a\n\nb TRIG\n"], False),
    ([dict(P, id="VPA001"), dict(P, id="VPB500")], ["<!-- pyml disable-next-line vpa001-->\nTRIG\nTRIG\n<!-- pyml disable-num-lines 1 vpb500,vpa001-->\nTRIG\nTRIG\n"], False),
    ([dict(P, id="VPA001", start=False, done=False)], ["", "\n", "TRIG"], True),
]


def detab(l):
    out = ""
    for c in l:
        out += " " * (4 - len(out) % 4) if c == "\t" else c
    return out


def check_reports(text, reps):
    """The property's statement on one file's printed reports. Returns [(symptom, detail)]."""
    bad = []
    lines = text.split("\n")
    if reps != sorted(reps, key=lambda r: (r[0], r[1], r[2])):
        bad.append(("unsorted", None))
    seen = set()
    for r in reps:
        if r in seen:
            bad.append(("duplicate", r[2]))
        seen.add(r)
    for (ln, col, rid, txt) in reps:
        if not 1 <= ln <= len(lines):
            bad.append(("line-out-of-range", rid))
        elif not 1 <= col <= len(detab(lines[ln - 1])) + 1:
            bad.append(("column-out-of-range", rid))
    return bad


# ---- recorded findings: plug-in crashes are identified by call site (signature), the others by footprint
PRAGMA_OR_BLANK = re.compile(r"^(<!---? *pyml .*-->\s*|[ \t]*)$", re.I)


def footprint(ctx, text, symptom, detail):
    if symptom == "plugin-error":
        m = re.search(r"Plugin id '(\w+)'", detail)
        sig = (m.group(1) if m else "?") + " " + detail.split(" || ")[-1]
        return next((f for f in ctx.findings if f.get("signature") == sig), None)
    fid = None
    if symptom == "duplicate" and detail == "MD032":
        fid = "F-MD032-DUP"
    if symptom == "duplicate" and detail == "MD037":
        fid = "F-MD037-DUP"
    if symptom in ("line-out-of-range", "column-out-of-range") and detail == "MD041" and all(PRAGMA_OR_BLANK.match(l) for l in text.split("\n")):
        fid = "F-BLANKDOC"
    return next((f for f in ctx.findings if f["id"] == fid), None) if fid else None


def _sweep_task(task):
    cname, args, chunk = task
    out = []
    with implib.workspace() as ws:
        res, fatal = E.scan_docs(ws, chunk, args)
        if fatal:
            return ("fatal", cname, fatal)
        res2, _ = E.scan_docs(ws, chunk, args, sub="pool2") if cname == "default" else (res, None)
    return ("ok", cname, args, chunk, res, res2)


def oracle_sweep(ctx, pool, configs):
    import multiprocessing as mp
    evals, nontrivial, fails = 0, set(), []
    dist = {}
    size = 400
    tasks = [(c, a, pool[k:k + size]) for c, a in configs for k in range(0, len(pool), size)]
    with mp.get_context("fork").Pool(min(16, max(1, len(tasks)))) as pl:
        results = pl.map(_sweep_task, tasks, chunksize=1)
    for r in results:
        if r[0] == "fatal":
            raise vlib.MachineryError(f"scan under {r[1]} aborted: {r[2]}")
        _, cname, args, chunk, res, res2 = r
        for t, (reps, err), (reps2, err2) in zip(chunk, res, res2):
            evals += 1
            if reps:
                nontrivial.add((cname, t))
            for rr in reps:
                dist[rr[2]] = dist.get(rr[2], 0) + 1
            if err:
                if "BadTokenization" in err or "unhandled error" in err or "tokeniz" in err.lower():
                    continue  # not parseable: C01's subject
                fails.append((cname, args, t, "plugin-error", err))
                continue
            for sym, det in check_reports(t, reps):
                fails.append((cname, args, t, sym, det))
            if (reps, err) != (reps2, err2):
                fails.append((cname, args, t, "nondeterministic", None))
    return evals, nontrivial, fails, dist


def run(ctx):
    ctx.lean_stage([], ["Verif.Props.C07", "Verif.Props.ScanRules", "Verif.Props.ScanRules1b", "Verif.Props.ScanRules2", "Verif.Props.ScanRules2b", "Verif.Props.ListRules"])
    __import__("blocks").listrules(ctx)      # md007_total_partial (+ md007_total_excluded_known_crash), md006_total, md00X_reports_in_range
    __import__("blocks").scanrules2(ctx)     # mdX_reports_in_range / mdX_total for MD011 MD013 MD014 MD033 MD034 (adjust034_bounds), excluded points = real crashes
    __import__("blocks").scanrules(ctx)      # mdX_reports_in_range for ten scan-only token rules (every report sits on a token of the stream; MD026 delta bounds)
    stats, samples = engine_correspondence(ctx, 60 if ctx.quick() else 600)
    ids, _ = E.builtin_meta()
    res = [t for _, t in docs.rule_resources()]
    srcs = docs.repo_sources()
    if ctx.quick():
        d2 = docs.hash_slice(docs.dn(2, docs.CORE_PREFIX, docs.CORE_BODY), 3000)
        pool = docs.sample(ctx.rng, res, 300) + docs.sample(ctx.rng, srcs, 800) + docs.sample(ctx.rng, list(docs.d1()), 300) + docs.sample(ctx.rng, d2, 200) + docs.sample(ctx.rng, docs.families() + docs.link_edges(), 300) + docs.sample(ctx.rng, docs.container_pairs() + docs.corpus_marker_variants(), 500)
        singles = docs.sample(ctx.rng, ids, 12)
    else:
        pool = res + srcs + docs.families() + docs.link_edges() + docs.container_pairs() + docs.corpus_marker_variants() + list(docs.d1()) + docs.hash_slice(docs.dn(2, docs.CORE_PREFIX, docs.CORE_BODY), 3000)
        singles = ids
    pool = list(dict.fromkeys(pool))
    configs = [("default", []), ("all-enabled", ["-e", ",".join(ids)])]
    configs += [("only-" + i, ["-d", ",".join(x for x in ids if x != i), "-e", i]) for i in singles]
    evals, nontrivial, fails, dist = oracle_sweep(ctx, pool, configs)
    absorbed = {}
    if os.environ.get("VERIF_DUMP"):
        json.dump([(c, t, s_, d) for (c, a, t, s_, d) in fails], open(os.environ["VERIF_DUMP"], "w"), indent=0)
    base = vlib.InputBaseline("C07")
    for (cname, args, t, sym, det) in fails:
        f = footprint(ctx, t, sym, det or "")
        # a failure is absorbed only if its family is described (call-site signature / footprint) AND this exact input is listed
        sig = sym + ":" + ((f.get("signature") or f["id"]) if f else "unknown")
        vlib.collect_failure("C07", cname, t, sig)
        if f and base.absorbs(cname, t, sig):
            absorbed[f["id"]] = absorbed.get(f["id"], 0) + 1
            ctx.known_finding(f)
            continue
        ctx.report({"doc": t, "config": cname}, sym, {"argv_extra": args, "detail": det, "family": f["id"] if f else None,
                   "oracle": "C07 statement on the real scan output (no plugin error; line/column in range; unique; ordered; two runs equal); "
                             "a failure at a known call site on an input that is not listed in findings/C07.inputs.json is a violation"})
    if ctx.broken and not ctx.violations:
        ctx.violation({"oracle": "Verif.Props.C07 / engine correspondence broken; document sweep found no property failure"}, no_input=True)
    ctx.assumptions += ["documents that do not tokenize are C01's subject and skipped here",
                        "columns are measured in the tab-expanded line (token columns are tab-expanded, see C05)",
                        "rule bodies (46 rules) are not modelled: range/uniqueness/crash-freedom is explored, not proved"]
    ctx.write_evidence({
        "correspondence": stats,
        "oracle_sweep": {"evaluations": evals, "distinct_nontrivial": len(nontrivial), "documents": len(pool), "configs": [c for c, _ in configs],
                         "rule": "document pool (repo rule resources, repo test sources, D1, sampled D2 core) x rule configurations; non-trivial = at least one report",
                         "reports_by_rule": dict(sorted(dist.items())), "footprints_absorbed": absorbed, "exhaustive": not ctx.quick()},
        "samples": samples})


def replay(ctx, path):
    rp = json.load(open(path))
    inp = rp.get("input", {})
    if "doc" in inp:
        ids, _ = E.builtin_meta()
        with implib.workspace() as ws:
            res, fatal = E.scan_docs(ws, [inp["doc"]], rp.get("argv_extra", []))
        reps, err = res[0]
        bad = [("plugin-error", err)] if err else check_reports(inp["doc"], reps)
        print("reports:", reps, "error:", err, "->", bad)
        if bad:
            print(f"VIOLATION property=C07 replay={path}")
            return 1
        return 0
    if "specs" in inp:
        with implib.workspace() as ws:
            real = E.run_real(ws, inp["specs"], inp["texts"], inp["cont"])
        req, ordered = E.model_request(inp["specs"], inp["texts"], inp["cont"])
        d = E.compare(real, vlib.Driver("engine").run([req])[0], ordered)
        print(d)
        if d:
            print(f"VIOLATION property=C07 replay={path}")
            return 1
        return 0
    print("replay names broken obligations only:", rp.get("broken"))
    return 1
