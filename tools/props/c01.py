"""C01 — Parsing is total: every document tokenizes, and in bounded time.

proof:  Verif.Props.C01 —
        mainloop_terminates (every run of `__parse_blocks_pass` that respects the requeue protocol `Legal` has at most
        (n+1)(n+2)/2 + n iterations), mainloop_no_assertion, mainloop_line_numbers, mainloop_consumes_all;
        recognisers_total (no IndexError / AssertionError in the modelled line recognisers, any input) and
        thematic_spec / atx_spec / fence_open_spec / setext_spec / blank_spec (the recogniser accepts exactly the CommonMark
        sentence); closeloop_terminates_partial + closeloop_needs_variant (the list-closing loop has no variant: concrete
        state of '  - a\\n- 1)'); spec_total (the reference is a total function).
tie:    (a) every recogniser model vs the REAL function on PREFIX x BODY lines and all strings of length <= 6 over its alphabet;
        (b) trace validation: every iteration of the real main loop, recorded with sys.monitoring (no source change), must be a
            Legal model transition that leaves the model in the observed state;
        (c) every iteration of the real list-closing loop vs the model's iteration (where the unmodelled
            close_required_lists is a no-op); the recorded hang state == the state in the Lean theorem; Lean rejects the
            fuel-less definition of the loop.
oracle: `transform(doc)` returns without BadTokenizationError within a deterministic work budget (LINE events counted by
        sys.monitoring <= 5 s^2 + 4800 s + 6000, s = chars + 8 lines: fitted on the clean tree with a 4x margin; a CPU alarm
        backs it up), for every document of the enumerated spaces; scaling series for the growth clause.
        Failing inputs of the pinned tree are identified by call-site signature and listed one by one in
        findings/C01.inputs.json; anything not listed, or failing at another call site, is a VIOLATION.
"""
import collections, hashlib, json, math, multiprocessing as mp, os, subprocess, time
import vlib, implib, docs
import recoglib as R
import mainlooplib as M

PROP = "C01"
CONFIG = "parse"          # `config` key of the input baseline: tokenization
CONFIG_RENDER = "render"  # auxiliary: the token stream is accepted by the project's own HTML transformer

# work budget (LINE events) as a function of the document size; constants fitted on the unchanged tree:
# max observed events/size ≈ 1150 (small documents), max events/size² ≈ 1.2 (512-line documents); 4x margin.
A2, A1, A0 = 5, 4800, 6000
SLOPE_MAX = 2.5           # log-log growth of the scaling series between k = 64 and k = 256 (quadratic = 2)


def size_of(text):
    return len(text) + 8 * (text.count("\n") + 1)


def budget(text):
    s = size_of(text)
    return A2 * s * s + A1 * s + A0


# exemplars of the defects known before the sweep + adversarial shapes for the requeue protocol
EXEMPLARS = ["  - a\n- 1)", "-\t", "1.\t- x", "a\x05<b", "[a]:\n[b]:", "[a]: /u\n\"t\nb", "[a]:\n/u\n'x\ny\n", "- [a]:\n\n  /u",
             "> [a]:\n> /u\nb", "[a]:\n[b]:\n[c]:\n[d]:", "[a]: /u 't'\n[b]: /v", "[a]:\n", "[a]: <\n", "> [a]:\n[b]:\n> [c]:",
             "- [a]:\n  /u\n  'x\n- y", "[a]:\n\n[b]:\n\n", "1. [a]:\n   /u\n2. [b]", "[a]: /u\n'x\n\n'y", "> - [a]:\n>   /u\n> 'z",
             "[a\nb]: /u\nc", "[a]: /u\n===\n", "[a]:\n# h\n", "[a]:\n```\n[b]:\n```", "\n", "", "\n\n\n", "a\n\n\nb"]


def wrap(doc, kind):
    first, cont = {"bq": ("> ", "> "), "ul": ("- ", "  "), "ol": ("1. ", "   ")}[kind]
    ls = doc.split("\n")
    tail = ""
    if len(ls) > 1 and ls[-1] == "":
        ls, tail = ls[:-1], "\n"
    return "\n".join((first if i == 0 else cont) + l for i, l in enumerate(ls)) + tail


def spaces():
    """The finite space of C01, stratum by stratum (seed-independent)."""
    d2 = list(docs.dn(2, docs.PREFIX, docs.BODY))
    core = list(docs.dn(2, docs.CORE_PREFIX, docs.CORE_BODY))
    corpus = list(dict.fromkeys(docs.repo_sources() + [t for _, t in docs.rule_resources()] + EXEMPLARS))
    st = collections.OrderedDict()
    st["d1"] = list(docs.d1())
    st["d2"] = list(dict.fromkeys(docs.hash_slice(d2, 120000, "C01-d2") + core))
    st["d2-nonl"] = docs.hash_slice(list(docs.dn(2, docs.PREFIX, docs.BODY, final_newline=False)), 10000, "C01-d2n")
    st["d3"] = list(docs.dn(3, docs.PREFIX3, docs.BODY3))
    st["corpus"] = corpus
    wbase = st["d1"] + corpus + docs.hash_slice(core, 8000, "C01-wrapc") + docs.hash_slice(d2, 4000, "C01-wrap")
    st["wrap"] = list(dict.fromkeys(wrap(d, k) for k in ("bq", "ul", "ol") for d in wbase))
    st["edges"] = list(dict.fromkeys(docs.link_edges() + docs.leaf_edges() + docs.families() + docs.inline_emph(6) + docs.inline_links() + docs.container_pairs() + docs.corpus_marker_variants() + docs.multi_pairs() + docs.inline_edges()))
    return st


QUICK = {"d1": 400, "d2": 14000, "d2-nonl": 1500, "d3": 9000, "corpus": 1500, "wrap": 7000, "edges": 6000}

# ------------------------------------------------------------------------------------------------ sweep worker
_REC = {}
CONFIRM = 12


def _recorder():
    if "r" not in _REC:
        rec = M.Recorder(implib.parser(), cpu_limit=3.0)
        rec.set_counting(True)
        rec.run("warm up\n- a\n> b *c*\n", trace=False)
        _REC["r"] = rec
    return _REC["r"]


def examine(rec, doc, render=False):
    """-> dict(sig, events, req) for one document: tokenization outcome (+ optional render outcome)."""
    lim = budget(doc)
    rec.limit = lim
    outcome, steps, ev = rec.run(doc, trace=True)
    if outcome == "over-budget":
        # more LINE events than the budget: hang or merely too slow?  decide under the CPU alarm, without counting
        # (at most CONFIRM times per worker process: on a tree where everything hangs the verdict is clear anyway)
        if _REC.get("confirmed", 0) < CONFIRM:
            _REC["confirmed"] = _REC.get("confirmed", 0) + 1
            rec.set_counting(False)
            o2, _, _ = rec.run(doc, trace=False)
            rec.set_counting(True)
            outcome = "hang" if o2 == "hang" else "over-budget"
        else:
            outcome = "hang"
    res = {"sig": None if outcome == "ok" else outcome, "events": ev, "limit": lim, "req": M.encode(doc, steps),
           "requeues": sum(1 for s in steps if s["req"] is not None and s["req"][0]), "steps": len(steps), "render": None}
    if render and outcome == "ok":
        res["render"] = rec.render(doc)
    return res


def _sweep_task(t):
    stratum, chunk, render = t
    rec = _recorder()
    out = {"n": 0, "fails": [], "trace_bad": [], "steps": 0, "requeue_docs": 0, "requeues": 0, "maxratio": (0.0, ""),
           "events": 0, "render_fails": [], "rendered": 0, "inexact": 0, "inexact_docs": []}
    rows = []
    for doc in chunk:
        r = examine(rec, doc, render)
        rows.append((doc, r))
        out["n"] += 1
        out["steps"] += r["steps"]
        out["requeues"] += r["requeues"]
        out["requeue_docs"] += 1 if r["requeues"] else 0
        if r["sig"]:
            out["fails"].append((doc, r["sig"]))
        elif r["events"] is not None:
            out["events"] += r["events"]
            ratio = r["events"] / r["limit"]
            if ratio > out["maxratio"][0]:
                out["maxratio"] = (ratio, doc)
        if r["render"] is not None:
            out["rendered"] += 1
            if r["render"] != "ok":
                out["render_fails"].append((doc, r["render"]))
    answers = vlib.Driver("mainloop").run([r["req"] for _, r in rows])
    for (doc, r), a in zip(rows, answers):
        f = a.split()
        good = f[0] == "ok" and (r["sig"] is not None or f[2] == "0")
        if not good:
            out["trace_bad"].append((doc, a, r["sig"]))
        elif f[3] != "0":
            out["inexact"] += int(f[3])
            if len(out["inexact_docs"]) < 3:
                out["inexact_docs"].append(doc)
    return stratum, out


def sweep(pools, render_strata=("d1", "corpus")):
    size = 250
    tasks = [(s, ds[k:k + size], s in render_strata) for s, ds in pools.items() for k in range(0, len(ds), size)]
    with mp.get_context("fork").Pool(16) as pl:
        results = pl.map(_sweep_task, tasks, chunksize=1)
    tot = {}
    for s, o in results:
        t = tot.setdefault(s, {"n": 0, "fails": [], "trace_bad": [], "steps": 0, "requeue_docs": 0, "requeues": 0,
                               "maxratio": (0.0, ""), "events": 0, "render_fails": [], "rendered": 0, "inexact": 0, "inexact_docs": []})
        for k in ("n", "steps", "requeue_docs", "requeues", "events", "rendered", "inexact"):
            t[k] += o[k]
        for k in ("fails", "trace_bad", "render_fails", "inexact_docs"):
            t[k] += o[k]
        if o["maxratio"][0] > t["maxratio"][0]:
            t["maxratio"] = o["maxratio"]
    return tot


# ------------------------------------------------------------------------------------------------ scaling series
def _scale_task(base):
    """k = 1, 2, 4, … repetitions of `base`, stopping at the first k that fails."""
    rec = _recorder()
    out = []
    for k in KS:
        doc = base * k
        rec.limit = budget(doc)
        rec.cpu_limit = 3.0 + rec.limit / 2.0e6
        try:
            outcome, _, ev = rec.run(doc, trace=False)
        finally:
            rec.cpu_limit = 3.0
        out.append((base, k, outcome, ev, rec.limit))
        if outcome != "ok":
            break
    return out


KS = (1, 2, 4, 8, 16, 32, 64, 128, 256)
SCALE_FIXED = ["[a](b [c](d\n[e](f\n", "*a _b\n`c* d_\n", "[a]:\n[b]:\n", "> - a\n> - b\n", "- a\n  - b\n", "a\n===\n", "```\na\n", "<div>\n*a*\n",
               "[a]: /u\n'x\n", "1. a\n   1. b\n", "> a\n> > b\n", "&amp; `c`\n<http://a.b> ![i](/u)\n"]


def scaling(bases):
    with mp.get_context("fork").Pool(16) as pl:
        res = pl.map(_scale_task, bases, chunksize=1)
    by = collections.defaultdict(dict)
    for rows in res:
        for b, k, o, ev, lim in rows:
            by[b][k] = (o, ev, lim)
    return by


# ------------------------------------------------------------------------------------------------ recognisers
def _real_answers(reqs):
    """The implementation's answers; a recogniser that does not return (a loop whose index stops advancing) is found
    with a CPU alarm: first one alarm for the whole chunk, then — only if it fired — one per call."""
    import signal
    signal.signal(signal.SIGVTALRM, M._alarm)
    signal.setitimer(signal.ITIMER_VIRTUAL, 20.0)
    try:
        return [R.real(q) for q in reqs]
    except M.Hang:
        pass
    finally:
        signal.setitimer(signal.ITIMER_VIRTUAL, 0)
    out, hung = [], 0
    for q in reqs:
        if hung >= 3:
            out.append("skipped-after-hangs")
            continue
        signal.setitimer(signal.ITIMER_VIRTUAL, 2.0)
        try:
            out.append(R.real(q))
        except M.Hang:
            out.append("hang")
            hung += 1
        finally:
            signal.setitimer(signal.ITIMER_VIRTUAL, 0)
    return out


def _recog_task(t):
    fam, strs = t
    reqs = R.family_requests(fam, strs)
    real = _real_answers(reqs)
    model = vlib.Driver("recog").run([R.encode(q) for q in reqs])
    bad = [(q, r, m) for q, r, m in zip(reqs, real, model) if r != m and r != "skipped-after-hangs"]
    bad.sort(key=lambda x: x[1] != "hang")
    trivial = {"none", "false", "0", "0|-1", "0|none", "0|-1|none"}
    nontriv = len({(q[0], r) for q, r in zip(reqs, real) if r not in trivial})
    accepted = sum(1 for r in real if r not in trivial)
    return fam, len(reqs), accepted, nontriv, bad[:20], len(bad)


def recognisers(ctx):
    lines = docs.lines_of(docs.PREFIX, docs.BODY)
    tasks = []
    for fam, (alpha, _) in R.FAMILIES.items():
        if ctx.quick():
            strs = list(R.strings(alpha, 4))
            longer = [s for s in R.strings(alpha, 6) if len(s) > 4]
            strs += ctx.rng.sample(longer, min(len(longer), 3000))
        else:
            strs = list(R.strings(alpha, 6))
        strs += R.EXTRA + lines
        size = 4000
        tasks += [(fam, strs[k:k + size]) for k in range(0, len(strs), size)]
    with mp.get_context("fork").Pool(16) as pl:
        res = pl.map(_recog_task, tasks, chunksize=1)
    stats = collections.OrderedDict()
    for fam, n, acc, nt, bad, nbad in res:
        s = stats.setdefault(fam, {"requests": 0, "accepting_answers": 0, "distinct_answers": 0, "mismatches": 0, "bad": []})
        s["requests"] += n; s["accepting_answers"] += acc; s["distinct_answers"] += nt; s["mismatches"] += nbad
        s["bad"] += bad
    return stats


# ------------------------------------------------------------------------------------------------ list-closing loop
def _close_task(chunk):
    if "c" not in _REC:
        _REC["c"] = M.CloseLoopRecorder(implib.parser())
    rec = _REC["c"]
    rows, hangs = [], 0
    for d in chunk:
        o, recs = rec.run(d)
        rows += [(d, q, a) for q, a in recs]
        hangs += o == "hang"
        if hangs > 8:
            break          # a tree where the loop hangs everywhere: the sweep reports it, no need to wait here
    ans = vlib.Driver("closeloop").run([q for _, q, _ in rows])
    n = skipped = 0
    bad, branches = [], collections.Counter()
    for (d, q, a), m in zip(rows, ans):
        ra, ma, qf = a.split("|"), m.split("|"), q.split("|")
        many, before = qf[6] == "1", qf[8]
        if many and ra[3] != before:
            skipped += 1          # close_required_lists (a parameter of the model) may have changed the stack
            continue
        n += 1
        branches[(ra[0], ra[1], "shrunk" if ra[3] != before else "same")] += 1
        if not (ma[:2] == ra[:2] and (ra[0] == "0" or ma[2] == ra[2]) and ma[3:] == ra[3:]):
            bad.append((d, q, a, m))
    return n, skipped, bad[:10], len(bad), dict(branches)


def closeloop(ctx, pool):
    out = {"iterations": 0, "skipped_close_required": 0, "mismatches": 0, "bad": [], "branches": collections.Counter()}
    chunks = [pool[k:k + 400] for k in range(0, len(pool), 400)]
    with mp.get_context("fork").Pool(16) as pl:
        for n, sk, bad, nbad, br in pl.map(_close_task, chunks, chunksize=1):
            out["iterations"] += n; out["skipped_close_required"] += sk; out["mismatches"] += nbad; out["bad"] += bad
            out["branches"].update({"|".join(k): v for k, v in br.items()})
    # the hanging shape: the real loop repeats with an unchanged state, and that state is the one in the Lean theorem
    rec = M.CloseLoopRecorder(implib.parser(), limit=6)
    o, recs = rec.run("  - a\n- 1)")
    lean_state = vlib.Driver("closeloop").run(["hang"])[0]
    rep = [q for q, a in recs if a.split("|")[0] == "1" and a.split("|")[3] == q.split("|")[8]]
    out["hang"] = {"outcome": o, "iterations_recorded": len(recs), "repeating_unchanged": len(rep),
                   "state_equals_lean_witness": bool(rep) and all(q == lean_state for q in rep), "lean_state": lean_state}
    out["branches"] = dict(out["branches"])
    return out


def natural_definition_rejected():
    """Lean must reject the fuel-less definition of the list-closing loop (no decreasing measure)."""
    p = subprocess.run(["lake", "env", "lean", os.path.join("Verif", "Reject", "CloseLoopNatural.lean")], cwd=vlib.LEAN,
                       capture_output=True, text=True)
    txt = p.stdout + p.stderr
    return p.returncode != 0 and "fail to show termination" in txt and "closeLoopNatural" in txt, txt[-400:]


# ------------------------------------------------------------------------------------------------ the check


def finding_for(ctx, sig, config):
    for f in ctx.findings:
        if f.get("signature") == sig and f.get("config", CONFIG) == config:
            return f
    return None


def run(ctx):
    t0 = time.time()
    ctx.lean_stage(["emph_chars", "entities"], ["Verif.Props.C01", "Verif.Props.BqCount", "Verif.Props.LinkRecog", "Verif.Props.InlineRecog", "Verif.Props.Emphasis", "Verif.Props.InlineLoop", "Verif.Props.InlineLoop2", "Verif.Props.ListStarts", "Verif.Props.ListStarts2", "Verif.Props.LeafBlocks2", "Verif.Props.LeafBlocks2b"])
    import blocks
    blocks.linkrecog(ctx)      # link_recognisers_total, lrd_total: no IndexError / assert, indices in range, progress
    blocks.inlinerecog(ctx)    # inline_recognisers_total_partial, tag scanners, fuel sufficiency
    blocks.emphasis(ctx)       # resolve_total_partial, fuel_sufficient_partial, fuel_monotone
    blocks.leafblocks2(ctx)    # html_block_total (+ excluded), html_normal_range: the HTML-block classifiers are total
    blocks.liststarts(ctx)     # list_start_total / pre_list_total / close_required_total / can_close_terminates: list-item start recognition for an arbitrary stack
    blocks.inlineloop(ctx)     # inline_loop_terminates / inline_loop_total: the inline dispatcher ends within #start-characters turns, no IndexError / assert under the contract
    ctx.block("bqcountlib", "bqcount", __import__("blocks").SRC["bqcount"])          # block-quote marker counting: totality / termination / spec (Verif.Props.BqCount)
    rej_ok, rej_txt = natural_definition_rejected()
    if not rej_ok:
        ctx.broken.append({"closeLoopNatural_not_rejected": rej_txt})

    # (a) recognisers
    rstats = recognisers(ctx)
    for fam, s in rstats.items():
        for q, r, m in s["bad"][:3]:
            ctx.report({"request": list(q)}, "recogniser-mismatch",
                       {"family": fam, "real": r, "model": m, "oracle": "real recogniser == Verif.Model.Recognisers on the same arguments"})
        s.pop("bad")

    # (b) + oracle: the sweep
    full = spaces()
    if ctx.quick():
        pools = {s: docs.sample(ctx.rng, ds, QUICK[s]) for s, ds in full.items()}
        pools["corpus"] = list(dict.fromkeys(pools["corpus"] + EXEMPLARS))
    else:
        pools = full
    tot = sweep(pools)
    base = vlib.InputBaseline(PROP)
    absorbed_by_sig = collections.Counter()
    unlisted = 0
    for s, t in tot.items():
        for config, fails, symptom in ((CONFIG, t["fails"], "tokenization-failure"), (CONFIG_RENDER, t["render_fails"], "render-failure")):
            for doc, sig in fails:
                vlib.collect_failure(PROP, config, doc, sig)
                if base.absorbs(config, doc, sig):
                    absorbed_by_sig[(config, sig)] += 1
                    continue
                unlisted += 1
                ctx.report({"doc": doc, "config": config}, symptom,
                           {"signature": sig, "stratum": s, "budget": budget(doc),
                            "oracle": "transform(doc) returns a token stream without BadTokenizationError within the work budget "
                                      "(listed pinned-tree failures: findings/C01.inputs.json, exact input + call-site signature)"})
        for doc, ans, sig in t["trace_bad"]:
            ctx.report({"doc": doc, "config": "trace"}, "illegal-transition",
                       {"model_answer": ans, "tokenization": sig or "ok",
                        "oracle": "every iteration of the real __parse_blocks_pass loop is a Legal transition of Verif.Model.MainLoop "
                                  "and leaves line_number / len(requeue) / ignore flag / did_start_close / pending lines / next line as the model says"})
    # one KNOWN-FINDING line per call-site signature
    for (config, sig), n in sorted(absorbed_by_sig.items(), key=lambda kv: -kv[1]):
        f = finding_for(ctx, sig, config)
        if f is None:
            ctx.violation({"oracle": f"signature {sig!r} ({config}) is absorbed by findings/C01.inputs.json but has no known_findings.json entry"}, no_input=True)
        else:
            ctx.known_finding(f, f"{n} listed inputs fail with {sig} — {f.get('what', '')[:160]}")
            ctx.known[f["id"]] = n

    # growth clause
    if ctx.quick():
        bases = ctx.rng.sample(SCALE_FIXED, 3) + [d for d in docs.sample(ctx.rng, docs.hash_slice(full["d2"], 64, "C01-scale"), 5)]
    else:
        bases = SCALE_FIXED + docs.hash_slice(full["d2"], 64, "C01-scale")
    by = scaling(bases)
    scale_evals, slopes, scale_fail, worst = 0, [], 0, (0.0, "", 0)
    known_bad = set()
    for b, ks in by.items():
        if ks[1][0] != "ok":
            # a base document that fails alone is a document of the d2 stratum: triaged there, not again k times
            known_bad.add(b)
            scale_evals += 1
            continue
        for k, (o, ev, lim) in sorted(ks.items()):
            scale_evals += 1
            doc = b * k
            if o != "ok":
                vlib.collect_failure(PROP, CONFIG, doc, o)
                if base.absorbs(CONFIG, doc, o):
                    continue
                scale_fail += 1
                ctx.report({"doc": doc, "config": CONFIG}, "tokenization-failure",
                           {"signature": o, "stratum": "scaling", "k": k, "base": b, "budget": lim,
                            "oracle": "k repetitions of a two-line document that tokenizes alone tokenize within the quadratic work budget"})
            elif ev / lim > worst[0]:
                worst = (ev / lim, b, k)
        if all(ks.get(k, ("x",))[0] == "ok" for k in (64, 256)):
            sl = math.log(ks[256][1] / ks[64][1]) / math.log(4)
            slopes.append((sl, b))
    max_slope = max(slopes) if slopes else (0.0, "")
    if max_slope[0] > SLOPE_MAX:
        ctx.report({"doc": max_slope[1] * 256, "config": CONFIG}, "super-quadratic-growth",
                   {"slope": max_slope[0], "oracle": f"events(256 repetitions) / events(64 repetitions) <= 4^{SLOPE_MAX}"})

    # (c) list-closing loop
    cpool = pools["d1"] + docs.sample(ctx.rng, pools["d2"], 3000 if ctx.quick() else 30000) \
        + docs.sample(ctx.rng, pools["d3"], 2000 if ctx.quick() else 20000) + docs.sample(ctx.rng, pools["corpus"], 1000 if ctx.quick() else 10 ** 6)
    cl = closeloop(ctx, cpool)
    for d, q, a, m in cl.pop("bad")[:3]:
        ctx.report({"doc": d, "config": "closeloop"}, "closeloop-mismatch",
                   {"request": q, "real": a, "model": m, "oracle": "one real iteration of __close_next_level_of_lists == Verif.Model.CloseLoop.closeNextLevel"})
    h = cl["hang"]
    if not (h["repeating_unchanged"] >= 3 and h["state_equals_lean_witness"]):
        # the hang was repaired or changed shape: the witness theorem no longer describes the code
        if h["repeating_unchanged"] == 0 and h["outcome"] == "ok":
            ctx.assumptions.append("'  - a\\n- 1)' no longer hangs: closeloop_needs_variant describes a past state of the code")
        else:
            ctx.broken.append({"hang_witness_differs": h})

    # evidence
    n_docs = sum(t["n"] for t in tot.values())
    n_fail = sum(len(t["fails"]) for t in tot.values())
    n_steps = sum(t["steps"] for t in tot.values())
    n_requeue_docs = sum(t["requeue_docs"] for t in tot.values())
    n_trace_bad = sum(len(t["trace_bad"]) for t in tot.values())
    maxratio = max((t["maxratio"] for t in tot.values()), key=lambda x: x[0])
    if ctx.broken and not ctx.violations:
        ctx.violation({"oracle": "Verif.Props.C01 no longer checks (build / audit / rejected-definition / hang witness) and the sweep found "
                                 "no unlisted failing document", "broken": ctx.broken}, no_input=True)
    rec_evals = sum(s["requests"] for s in rstats.values())
    samples = [{"doc": d, "signature": s} for t in tot.values() for d, s in t["fails"][:2]][:8]
    samples += [{"recogniser_request": list(q)} for q in R.family_requests("thematic", ["  * * *", "--", "_\t_\t_"])[:3]]
    samples += [{"trace_request": M.encode(d, _recorder().run(d)[1])} for d in ("[a]: /u\n\"t\nb", "- [a]:\n\n  /u")]
    ctx.assumptions += [
        "Legal (the requeue protocol) is a hypothesis of the main-loop theorems; for the real link-reference-definition code it is validated on every recorded iteration, not proved",
        "the ~150 other loops and several hundred asserts inside the container/leaf/inline handlers are reached by the enumeration only",
        "CPU time is a runtime fact: the work measure is the number of LINE events (sys.monitoring) inside transform(); budget 5 s^2 + 4800 s + 6000 with s = chars + 8 lines, constants fitted on the unchanged tree (4x margin)",
        "recogniser models cover the tab-free paths of fence close / setext / list starts on a stack without lists; close_required_lists is a parameter of the list-closing loop model",
        "front-matter extension off (requeue = [] on loop entry); in-memory source provider",
        "failing inputs of the pinned tree are listed one by one in findings/C01.inputs.json (exact input + call-site signature); quick samples the space thorough enumerates",
    ]
    ctx.write_evidence({
        "correspondence": {
            "evaluations": rec_evals + n_docs + cl["iterations"],
            "distinct_nontrivial": sum(s["distinct_answers"] for s in rstats.values()) + n_requeue_docs + sum(v for k, v in cl["branches"].items() if not k.startswith("0|0|same")),
            "rule": "recogniser requests (non-trivial = distinct (op, accepting answer)); main-loop traces replayed through MainLoop.replay "
                    "(non-trivial = the trace contains a requeue); list-closing iterations (non-trivial = repeat / li-instead-of-list / stack changed)",
            "distribution": {"recognisers": rstats, "traces": {"documents": n_docs, "iterations": n_steps, "documents_with_requeue": n_requeue_docs,
                                                               "requeues": sum(t["requeues"] for t in tot.values()), "illegal_or_mismatch": n_trace_bad,
                                                               "restarts_with_another_spelling_of_the_line": sum(t["inexact"] for t in tot.values()),
                                                               "restart_examples": [d for t in tot.values() for d in t["inexact_docs"]][:4]},
                             "closeloop": cl},
            "exhaustive": not ctx.quick()},
        "evaluations": n_docs + scale_evals, "distinct_nontrivial": n_docs - n_fail,
        "rule": "documents of d1, d2 (hash slice of PREFIX x BODY pairs + all core pairs), d2 without final newline, d3, corpus (repo test sources, rule "
                "documents, exemplars), each wrapped in > / - / 1. ; non-trivial = tokenizes (the others are listed findings or violations)",
        "traces_validated_against_impl": n_docs,
        "oracle_sweep": {s: {"documents": t["n"], "failing": len(t["fails"]), "rendered": t["rendered"], "render_failing": len(t["render_fails"]),
                             "max_events_over_budget": round(t["maxratio"][0], 4)} for s, t in tot.items()},
        "failing_by_signature": {f"{c}:{s}": n for (c, s), n in absorbed_by_sig.most_common()},
        "unlisted_failures": unlisted,
        "work_budget": {"formula": f"{A2}*s^2 + {A1}*s + {A0}, s = chars + 8*lines", "max_ratio": round(maxratio[0], 4), "max_ratio_doc": maxratio[1],
                        "scaling": {"bases": len(by), "ks": list(KS), "evaluations": scale_evals, "max_ratio": round(worst[0], 4), "max_ratio_base": worst[1],
                                    "max_ratio_k": worst[2], "max_loglog_slope_64_256": round(max_slope[0], 3), "slope_doc": max_slope[1],
                                    "bases_failing_alone(triaged in d2)": len(known_bad), "unlisted": scale_fail}},
        "natural_closeloop_definition_rejected_by_lean": rej_ok,
        "samples": samples,
    })
    ctx.coverage["wall"] = round(time.time() - t0, 1)


def replay(ctx, path):
    rp = json.load(open(path))
    inp = rp.get("input", {})
    if "request" in inp:
        q = tuple(inp["request"])
        r, m = R.real(q), vlib.Driver("recog").run([R.encode(q)])[0]
        print("real", r, "model", m)
        if r != m:
            print(f"VIOLATION property=C01 replay={path}")
            return 1
        return 0
    if "doc" in inp:
        doc, config = inp["doc"], inp.get("config", CONFIG)
        if config == "closeloop":
            n, sk, bad, nbad, br = _close_task([doc])
            print(n, "iterations", nbad, "mismatches", bad[:2])
            if nbad:
                print(f"VIOLATION property=C01 replay={path}")
            return 1 if nbad else 0
        r = examine(_recorder(), doc, render=(config == CONFIG_RENDER))
        ans = vlib.Driver("mainloop").run([r["req"]])[0]
        print("tokenization:", r["sig"] or "ok", "events", r["events"], "budget", r["limit"], "render:", r["render"], "trace:", ans)
        base = vlib.InputBaseline(PROP)
        bad = False
        if config == "trace":
            f = ans.split()
            bad = not (f[0] == "ok" and (r["sig"] is not None or f[2] == "0"))
        elif config == CONFIG_RENDER:
            bad = r["render"] not in (None, "ok") and not base.absorbs(config, doc, r["render"])
        else:
            bad = r["sig"] is not None and not base.absorbs(config, doc, r["sig"])
        if bad:
            print(f"VIOLATION property=C01 replay={path}")
            return 1
        return 0
    print("replay:", rp.get("broken"))
    return 1
