"""C15 — failures are contained: errors are reported, never success, nothing is damaged.

proof:  Verif.Props.C15 — fault_never_writes_target, fault_is_system_error, no_temp_left_partial with temp_leak_witness,
        early_fault_no_leak; rename_protocol_atomic vs copy_protocol_not_atomic / copy_protocol_completes (what a killed
        write-back leaves in the target).
tie:    fault-injecting probe plug-ins (exception at the k-th invocation of each callback) and harness-level parser faults
        in real multi-file runs; the observed file operations of the failing pass vs Verif.Model.FixSched.passOps (via the
        fix-mode correspondence); `strace` kill injection at each syscall of the real write-back, observed syscalls classified
        by Verif.Model.CrashFS.
oracle: exit status is the system-error result (never clean / fixed); the failing file is named; with --continue-on-error the
        other files are processed exactly as without the failing file; in fix mode every file is afterwards original or completely
        fixed; no temporary file is left.
"""
import itertools, json, os, re, shutil, subprocess, sys, tempfile
import vlib, implib, docs, enginelib as E, fixlib as F

CLEANISH = "# T\n\nText. \n\n\nMore\n"          # line-fixable (MD009, MD012)
TOKFIX = "# T\n\n- a\n+ b\n"                   # token-fixable (MD004)
VICTIM = "# V\n\nvictim TRIG \n\n\nx\n"         # also fixable; carries the probe trigger
# victim of a parser failure in the MIDDLE of the document: what the lines before the failing one leave behind (pragma lines that name
# the rules the other files trigger, a link reference definition, an open list) must not reach the files processed afterwards
VICTIM_MID = ("<!-- pyml disable-num-lines 50 md009,md012,md004,md047,md041-->\n# V\n\n[t]: /u\n\n- victim TRIG \n\n"
              "<!-- pyml disable-next-line md004-->\nPARSERBOOM\nx\n")


def expected_alone(ws, text, mode):
    d = os.path.join(ws, "alone")
    shutil.rmtree(d, ignore_errors=True)
    os.makedirs(d)
    implib.write(os.path.join(d, "f.md"), text)
    code, out, err = vlib.run_main([mode, "f.md"], cwd=d)
    return [l.replace("f.md", "{}") for l in out.splitlines()], implib.read_bytes(os.path.join(d, "f.md"))


def fault_runs(ctx, thorough):
    """(callback, k) x failing file position in a 3-file run x scan/fix x continue/stop, plus parser and decode faults."""
    events = [("start", 1), ("token", 1), ("token", 3), ("line", 1), ("line", 2), ("line", 4), ("done", 1)]
    kinds = [("plugin", e, k) for e, k in events] + [("parser", None, None), ("parser-mid", None, None), ("decode", None, None)]
    combos = [c for c in itertools.product(kinds, (0, 1, 2), ("scan", "fix"), (True, False), ("default", "minimal"))
              if not (c[0][1] == "start" and c[2] == "fix")]   # start calls carry no file name: in fix mode (several per pass) they cannot be attributed
    if not thorough:
        # every parser-failure run that continues with other files is always included (state left behind by a failed parse)
        always = [c for c in combos if c[0][0] in ("parser", "parser-mid") and c[3]]
        combos = always + docs.sample(ctx.rng, [c for c in combos if c not in always], 44)
    fails, evals, samples, dist = [], 0, [], {}
    ctl = implib.probe_ctl()
    with implib.workspace() as ws:
        alone = {}
        for mode in ("scan", "fix"):
            for name, text in (("a", CLEANISH), ("b", TOKFIX), ("v", VICTIM)):
                alone[(mode, name)] = expected_alone(ws, text, mode)
        plug = implib.probe_plugin(os.path.join(ws, "plug"), pid="zzz997", callbacks=("start", "token", "line", "done"), fix=True, level=0)
        for (kind, ev, k), pos, mode, cont, scheme in combos:
            d = os.path.join(ws, "run")
            shutil.rmtree(d, ignore_errors=True)
            os.makedirs(d)
            order = ["a", "b"]
            order.insert(pos, "v")
            names = [f"{i}{n}.md" for i, n in enumerate(order)]          # sorted order = given order
            texts = {"a": CLEANISH, "b": TOKFIX, "v": VICTIM}
            for fn, n in zip(names, order):
                if n == "v" and kind == "decode":
                    implib.write(os.path.join(d, fn), b"\xff\xfe\x00bad")
                elif n == "v" and kind == "parser":
                    implib.write(os.path.join(d, fn), texts[n] + "PARSERBOOM\n")
                elif n == "v" and kind == "parser-mid":
                    implib.write(os.path.join(d, fn), VICTIM_MID)
                else:
                    implib.write(os.path.join(d, fn), texts[n])
            vname = names[pos]
            argv = ["--return-code-scheme", scheme] + (["--add-plugin", plug] if kind == "plugin" else [])
            if cont:
                argv.append("--continue-on-error")
            argv += [mode] + names
            implib.probe_reset()
            before = {fn: implib.read_bytes(os.path.join(d, fn)) for fn in names}
            armed = None
            if kind == "plugin":
                # dry run to learn which absolute invocation is the k-th `ev` call for the victim, then restore the files
                vlib.run_main(argv, cwd=d)
                armed = absolute_count(list(ctl["log"]), "zzz997", ev, k, vname)
                for fn in names:
                    implib.write(os.path.join(d, fn), before[fn])
                implib.probe_reset()
                if armed is None:
                    continue
                ctl["raise"][("zzz997", ev)] = armed
            if kind == "parser":
                with implib.parser_fault():
                    (code, out, err), _ops = F.record_ops(lambda: vlib.run_main(argv, cwd=d), d, set(names))
            elif kind == "parser-mid":
                with implib.parser_fault_midway():
                    (code, out, err), _ops = F.record_ops(lambda: vlib.run_main(argv, cwd=d), d, set(names))
            else:
                (code, out, err), _ops = F.record_ops(lambda: vlib.run_main(argv, cwd=d), d, set(names))
            leaked = [os.path.basename(x) for x in F.record_ops.temps_left]
            ctl["raise"].clear()
            fired = kind != "plugin" or "ZZZ997" in err
            after = {fn: implib.read_bytes(os.path.join(d, fn)) for fn in names}
            evals += 1
            dist[kind] = dist.get(kind, 0) + 1
            case = {"fault": [kind, ev, k], "victim_position": pos, "mode": mode, "continue": cont, "scheme": scheme}
            if not fired:
                case["note"] = "fault did not fire (callback not reached)"
                continue
            # 1 exit status
            if code != 1:
                fails.append((case, "fault-not-system-error", {"exit": code, "stdout": out[-200:]}))
            # 2 names the file
            if vname not in err:
                fails.append((case, "failing-file-not-named", {"stderr": err[-300:]}))
            # 3 other files
            for fn, n in zip(names, order):
                if n == "v":
                    if mode == "fix" and after[fn] != before[fn] and after[fn] != alone[("fix", "v")][1] and kind == "plugin":
                        fails.append((case, "victim-half-written", {"file": fn, "bytes": after[fn][:80].decode("utf-8", "replace")}))
                    continue
                idx = names.index(fn)
                processed_expected = cont or idx < pos
                lines = [l.replace(fn, "{}") for l in out.splitlines() if fn in l]
                exp_lines, exp_bytes = alone[(mode, n)]
                if processed_expected:
                    if lines != exp_lines or after[fn] != exp_bytes:
                        fails.append((case, "other-file-not-as-alone", {"file": fn, "got": lines[:4], "expected": exp_lines[:4],
                                                                      "bytes_equal": after[fn] == exp_bytes}))
                else:
                    if after[fn] != before[fn]:
                        fails.append((case, "file-after-stop-modified", {"file": fn}))
            # 4 temp files
            if leaked:
                fails.append((case, "temp-file-left", {"files": leaked}))
            if len(samples) < 2 and kind == "plugin" and mode == "fix":
                samples.append({"case": case, "exit": code, "stderr": err.strip()[-160:]})
    return evals, fails, samples, dist


def absolute_count(log, pid, ev, k, victim):
    """Absolute call count (per (pid, ev)) of the k-th `ev` call made while `victim` is being processed, from a dry-run log.
    Start calls carry no file: they are attributed to the file of the next call that does."""
    entries = [(e, payload) for (p, e, payload) in log if p == pid]
    files = []
    nxt = None
    for e, payload in reversed(entries):
        if payload is not None:
            nxt = payload[-1]
        files.append(nxt)
    files.reverse()
    count, seen = 0, 0
    for (e, payload), f in zip(entries, files):
        if e != ev:
            continue
        count += 1
        if f is not None and os.path.basename(f) == victim:
            seen += 1
            if seen == k:
                return count
    return None


SINK = ("# Title\n\nSee http://bare.example.com and text  with *emph* here.\n\n## Sub\n\n- a\n- b\n\n1. x\n2. y\n\n> quote\n\n"
        "```py\ncode http://in.code\n```\n\n    indented\n\n<b>html</b> [l](/u) ![i](/u)\n\nlast line\n")
MIDFILE_VICTIMS = ["# V\n\n```text\nvictim in code\nmore\n```\n\nafter\n", "- victim\n  - nested\n    text\n\npara\n", "> victim quote\n> > deeper\n\npara\n",
                   "# V\n\n## A\n\n#### skip victim\n", "victim *emph **strong** x* `code`\n\n[r]: /u\n\n[r]\n", "<div>\nvictim html\n</div>\n\n    indented\n"]


def midfile_faults(ctx, thorough):
    """A rule raises at the k-th token / line of a victim with open constructs (code block, list, quote…); the NEXT file is a
    document every rule reacts to.  With --continue-on-error its output must equal its output alone (no state of any
    rule may survive the aborted file)."""
    fails, evals = [], 0
    ctl = implib.probe_ctl()
    with implib.workspace() as ws:
        plug = implib.probe_plugin(os.path.join(ws, "plug2"), pid="aaa997", callbacks=("token", "line"), fix=False, level=1)
        ids, _ = E.builtin_meta()
        for cfgname, cfg in (("default", []), ("all", ["-e", ",".join(ids)])):
            d0 = os.path.join(ws, "sink"); shutil.rmtree(d0, ignore_errors=True); os.makedirs(d0)
            implib.write(os.path.join(d0, "2sink.md"), SINK)
            c, o, e = vlib.run_main(cfg + ["scan", "2sink.md"], cwd=d0)
            alone = [l for l in o.splitlines() if l.startswith("2sink.md")]
            combos = [(v, ev, k) for v in MIDFILE_VICTIMS for ev in ("token", "line") for k in range(1, 26 if ev == "token" else 8)]
            if not thorough:
                combos = docs.sample(ctx.rng, combos, 40)
            for v, ev, k in combos:
                d = os.path.join(ws, "mf"); shutil.rmtree(d, ignore_errors=True); os.makedirs(d)
                implib.write(os.path.join(d, "1victim.md"), v)
                implib.write(os.path.join(d, "2sink.md"), SINK)
                implib.probe_reset()
                ctl["raise"][("aaa997", ev)] = k
                code, out, err = vlib.run_main(["--add-plugin", plug, "--continue-on-error"] + cfg + ["scan", "1victim.md", "2sink.md"], cwd=d)
                ctl["raise"].clear()
                if not any(l.startswith("1victim.md:0:0:") and "AAA997" in l for l in err.splitlines()):
                    continue          # fewer than k calls in the victim: the fault did not fire there
                evals += 1
                got = [l for l in out.splitlines() if l.startswith("2sink.md")]
                if got != alone:
                    miss = [l for l in alone if l not in got][:3]
                    extra = [l for l in got if l not in alone][:3]
                    fails.append(({"victim": v, "fault": [ev, k], "config": cfgname}, "file-after-fault-not-as-alone", {"missing": miss, "unexpected": extra}))
    return evals, fails


def stdin_faults(ctx):
    """scan-stdin (and the API's scan_string, which shares the path) with a plug-in / parser failure, with and without
    --continue-on-error: system-error exit, and the temporary capture file is removed whatever happens."""
    fails, evals = [], 0
    ctl = implib.probe_ctl()
    with implib.workspace() as ws:
        plug = implib.probe_plugin(os.path.join(ws, "plug3"), pid="zzz996", callbacks=("line",), fix=False, level=1)
        d = os.path.join(ws, "si"); os.makedirs(d)
        for kind in ("plugin", "parser"):
            for cont in (True, False):
                for scheme in ("default", "minimal"):
                    argv = ["--return-code-scheme", scheme] + (["--add-plugin", plug] if kind == "plugin" else []) + (["--continue-on-error"] if cont else []) + ["scan-stdin"]
                    text = "# T\n\nPLUGINBOOM here\n" if kind == "plugin" else "# T\n\nPARSERBOOM\n"
                    implib.probe_reset()
                    def go():
                        if kind == "parser":
                            with implib.parser_fault():
                                return vlib.run_main(argv, stdin_text=text, cwd=d)
                        return vlib.run_main(argv, stdin_text=text, cwd=d)
                    (code, out, err), _ops = F.record_ops(go, d, set())
                    leaked = [os.path.basename(x) for x in F.record_ops.temps_left]
                    evals += 1
                    case = {"fault": [kind, "stdin", None], "mode": "scan-stdin", "continue": cont, "scheme": scheme}
                    if code != 1:
                        fails.append((case, "fault-not-system-error", {"exit": code}))
                    if leaked:
                        fails.append((case, "temp-file-left", {"files": leaked}))
    return evals, fails


def strace_kill(ctx, thorough):
    """Kill the real process at each syscall of the write-back of a fixed file; compare what is left with the model."""
    if shutil.which("strace") is None:
        return {"skipped": "strace not available"}, []
    fails, runs, observed = [], 0, []
    old = ("# T\n\n" + "Text. \n" * 2000).encode()       # large enough for several copy chunks? copy uses one sendfile per 8 MiB
    with implib.workspace() as ws:
        d = os.path.join(ws, "k"); os.makedirs(d)
        # reference: the completely fixed file
        implib.write(os.path.join(d, "f.md"), old)
        subprocess.run(["/venv/bin/python", "-m", "pymarkdown", "fix", "f.md"], cwd=d, capture_output=True, env=dict(os.environ, PYTHONPATH=vlib.REPO))
        new = implib.read_bytes(os.path.join(d, "f.md"))
        # which syscalls touch the target during write-back
        implib.write(os.path.join(d, "f.md"), old)
        p = subprocess.run(["strace", "-f", "-e", "trace=openat,sendfile,copy_file_range,write,rename,renameat,renameat2,ftruncate,truncate", "-o", os.path.join(d, "trace.txt"),
                            "/venv/bin/python", "-m", "pymarkdown", "fix", "f.md"], cwd=d, capture_output=True, env=dict(os.environ, PYTHONPATH=vlib.REPO))
        trace = open(os.path.join(d, "trace.txt"), errors="replace").read().splitlines()
        sys_seq = []
        target_fd_open = False
        for l in trace:
            if "openat(" in l and '"f.md"' in l and ("O_WRONLY" in l or "O_RDWR" in l):
                sys_seq.append("openTruncTarget" if "O_TRUNC" in l else "openWriteTarget")
            elif ("sendfile(" in l or "copy_file_range(" in l):
                sys_seq.append("writeTarget")
            elif "rename" in l and '"f.md"' in l:
                sys_seq.append("renameOntoTarget")
        observed = sys_seq
        uses_trunc = "openTruncTarget" in sys_seq
        kill_points = []
        for sc in ("sendfile", "copy_file_range"):
            if any(sc + "(" in l for l in trace):
                n = sum(1 for l in trace if sc + "(" in l and "= -1" not in l)
                kill_points += [(sc, i) for i in range(1, min(n, 3 if not thorough else 6) + 1)]
        for sc, when in kill_points:
            implib.write(os.path.join(d, "f.md"), old)
            subprocess.run(["strace", "-f", "-o", "/dev/null", "-e", f"trace={sc}", "-e", f"inject={sc}:signal=KILL:when={when}",
                            "/venv/bin/python", "-m", "pymarkdown", "fix", "f.md"], cwd=d, capture_output=True, env=dict(os.environ, PYTHONPATH=vlib.REPO))
            left = implib.read_bytes(os.path.join(d, "f.md"))
            runs += 1
            state = "old" if left == old else "new" if left == new else f"partial({len(left)} of {len(new)} bytes)"
            # model: copy protocol (open-truncate) is not atomic: a kill right after the open leaves neither old nor new
            if state not in ("old", "new"):
                fails.append(({"kill_at": [sc, when], "protocol": "truncate+copy" if uses_trunc else "other"}, "target-damaged-by-kill", {"left": state}))
        for x in os.listdir(tempfile.gettempdir()):
            pass
    return {"runs": runs, "observed_syscalls_on_target": observed, "model_protocol": "copyProtocol (open-truncate, copy, close)" if "openTruncTarget" in observed else "renameProtocol" if "renameOntoTarget" in observed else "unknown"}, fails


def run(ctx):
    ctx.lean_stage(["exit_table", "rule_fields"], ["Verif.Props.C15", "Verif.Props.C13"])   # continue-equivalence rests on the total-reset table of C13
    stats_c, samples = F.fix_correspondence(ctx, 25 if ctx.quick() else 300, F.FIX_CORPUS)
    evals, fails, samples2, dist = fault_runs(ctx, not ctx.quick())
    ev_mid, fails_mid = midfile_faults(ctx, not ctx.quick())
    ev_si, fails_si = stdin_faults(ctx)
    fails = fails + fails_mid + fails_si
    kstats, kfails = strace_kill(ctx, not ctx.quick())
    absorbed = {}
    for case, sym, det in fails + kfails:
        f = footprint(ctx, case, sym, det)
        if f:
            absorbed[f["id"]] = absorbed.get(f["id"], 0) + 1
            ctx.known_finding(f)
            continue
        ctx.report(case, sym, {"detail": det, "oracle": "C15 statement on a real run with an injected fault"})
    if ctx.broken and not ctx.violations:
        ctx.violation({"oracle": "Verif.Props.C15 / fix-mode correspondence broken; fault enumeration found no unlisted failure"}, no_input=True)
    ctx.level = "proof"
    ctx.assumptions += ["what the kernel does between syscalls is not modelled; kill points are the syscalls of the real write-back",
                        "parser failures are injected at transform_from_provider by the harness"]
    ctx.write_evidence({"correspondence": stats_c,
                        "fault_enumeration": {"evaluations": evals, "distinct_nontrivial": evals, "faults_by_kind": dist, "footprints_absorbed": absorbed,
                                              "rule": "(callback, k-th call | parser | undecodable) x victim position in a 3-file run x scan/fix x continue/stop; every run has a fault that fired",
                                              "exhaustive": not ctx.quick()},
                        "midfile_faults": {"evaluations": ev_mid, "rule": "6 victims with open constructs x fault at k-th token/line x {default, all rules}; follower = a document every rule reacts to", "exhaustive": not ctx.quick()},
                        "stdin_faults": {"evaluations": ev_si, "rule": "{plugin, parser} failure x continue/stop x both schemes through scan-stdin", "exhaustive": True},
                        "kill_injection": kstats, "samples": samples2 + samples[:1]})


def footprint(ctx, case, sym, det):
    fid = None
    fault = case.get("fault", [None])[0] if isinstance(case, dict) else None
    if sym == "temp-file-left" and case.get("mode") == "fix":
        fid = "F-TMP"
    if fault == "decode" and sym in ("failing-file-not-named", "other-file-not-as-alone"):
        fid = "F-DECODE"
    if sym == "target-damaged-by-kill" and case.get("protocol") == "truncate+copy":
        fid = "F-COPY"
    if fault in ("parser", "parser-mid") and sym == "failing-file-not-named" and not case.get("continue"):
        fid = "F-TOKERR-UNNAMED"
    return next((f for f in ctx.findings if f["id"] == fid), None) if fid else None


def replay(ctx, path):
    rp = json.load(open(path))
    print("replay: re-run `./check C15 --tier thorough`; case:", rp.get("input"), rp.get("symptom"))
    evals, fails, _, _ = fault_runs(ctx, True)
    inp = rp.get("input")
    hit = [f for f in fails if f[0] == inp and f[1] == rp.get("symptom")]
    if hit:
        print(f"VIOLATION property=C15 replay={path}")
        return 1
    return 0
