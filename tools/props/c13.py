"""C13 — results for a file do not depend on which files were processed before it.

proof:  Verif.Props.C13 — file_history_independent / run_history_independent / run_prefix_history_independent on the
        faithful engine model for rules whose starting_new_file is a total reset; exceptions_pinned, reset_rhs_const,
        no_start_no_state over Verif.Gen.RuleFields (regenerated from the rule sources every run).
        statics_reset / statics_exceptions_pinned / statics_config_pinned / statics_coverage over Verif.Gen.ParserStatics
        (class-/module-level statics and instance attributes of the long-lived parser / shell objects, regenerated from
        the sources every run) and parser_state_history_free (what the classification buys).
tie:    translators each run; dynamic cross-check of the tables' abstraction (state snapshot of every rule instance
        after starting_new_file: fresh instance vs after a document; snapshot of ALL long-lived parser / shell state right
        after the per-document initialisation in a fresh process vs after documents — tools/staticslib.py);
        engine correspondence with leaky / resetting probes.
oracle: differential on the real application: ordered pairs and triples of documents in one invocation vs each alone,
        scan and fix, and repeated use of one PyMarkdownApi object.
"""
import collections, copy, itertools, json, multiprocessing as mp, os, shutil
import vlib, implib, docs, enginelib as E
import c07

STATEFUL_DOCS = [
    "[r]: /u\n\n[r] and [s]\n", "[s]: /v 't'\n\n[s]\n", "# A\n\n## B\n\n#### D\n", "# A\n\n# A\n\n## A\n", "Setext\n===\n\ntext\n\nOther\n---\n",
    "1. a\n1. b\n3. c\n", "- a\n  - b\n* c\n+ d\n", "> q\n> > r\n\n> s\n", "```py\ncode\n```\n\n~~~\nmore\n~~~\n", "    indented\n\n```\nfenced\n```\n",
    "<!-- pyml disable-next-line md013-->\n" + "long " * 30 + "\n", "<!-- pyml disable-num-lines 5 md012,md009-->\na \n\n\n\nb\n",
    "a\n\n\n\nb  \nc \n", "text\twith\ttabs\n", "*emph* _emph_ **strong** __strong__\n", "- [ ] task\n- [x] done\n", "| a | b |\n|---|---|\n| 1 | 2 |\n",
    "Final line without newline", "# T\n\n<b>html</b>\n\n<div>\nblock\n</div>\n", "http://bare.url and <http://auto.link>\n", "![img](/u) ![](/v)\n[empty]()\n",
    "#No space\n\n##  Two spaces\n\n# Closed #\n", "***\n---\n___\n", "Text\n# Heading right after\nMore text\n", "1. one\n\n   para\n2. two\n", "", "\n",
    "---\ntitle: x\n---\n\n# h\n",
    # a document whose tokenization fails AFTER pragma lines were collected (the run continues with --continue-on-error)
    "<!-- pyml disable-num-lines 50 md012,md009,md013,md041,md047,md022,md001-->\n\ntext\n\n- \t1. \n",
    "<!-- pyml disable-next-line md041-->\ntext\n\n[r]: /u\n\n-\t\n",
    # a pragma that does not compile (PluginManager.number_of_pragma_failures, log_pragma_failure)
    "<!-- pyml disable-next-line not-a-rule-->\ntext\n\n<!-- pyml bogus-command md013-->\nmore\n", "A very long line " * 8 + "\n", "`code ` and ` code`\n\n[link ]( /u )\n",
]

# pool documents whose tokenization fails after state has been collected (quick tier: always paired with every other document)
ABORTED_DOCS = [d for d in STATEFUL_DOCS if d.startswith("<!-- pyml disable-num-lines 50") or d.endswith("[r]: /u\n\n-\t\n")]


def _scan(argv, cwd):
    return vlib.run_main(argv, cwd=cwd)


def per_file_output(out, err, names):
    per = {n: [] for n in names}
    for l in out.splitlines() + err.splitlines():
        for n in names:
            if l.startswith(n + ":") or l == "Fixed: " + n:
                per[n].append(l)
                break
    return per


def _seq_task(task):
    mode, seq, extra = task          # seq: list of (name, text)
    with implib.workspace() as ws:
        d = os.path.join(ws, "s"); os.makedirs(d)
        # pymarkdown processes the files of one invocation in SORTED path order, so the position in the sequence is made the
        # leading path component (`0/p033.md 1/p028.md`): (a, b) and (b, a) really are two different histories.
        multi = len(seq) > 1
        paths = {n: (f"{i}/{n}" if multi else n) for i, (n, _) in enumerate(seq)}
        for n, t in seq:
            implib.write(os.path.join(d, paths[n]), t)
        names = [n for n, _ in seq]
        code, out, err = _scan(["--continue-on-error"] + extra + [mode] + [paths[n] for n in names], d)
        after = {n: implib.read_bytes(os.path.join(d, paths[n])) for n in names}
    per = per_file_output(out, err, [paths[n] for n in names])
    # the same lines with the position prefix removed, keyed by the pool name (comparable with the file alone)
    return {n: [l.replace(paths[n], n, 1) for l in per[paths[n]]] for n in names}, after


def differential(ctx, pool, seqs, mode, extra):
    """pool: {name: text}; seqs: list of name tuples.  Compares each file's output (and fixed bytes) in the sequence
    with the same file processed alone."""
    alone_tasks = [(mode, [(n, pool[n])], extra) for n in pool]
    seq_tasks = [(mode, [(n, pool[n]) for n in s], extra) for s in seqs]
    with mp.get_context("fork").Pool(16) as pl:
        res = pl.map(_seq_task, alone_tasks + seq_tasks, chunksize=4)
    alone = {n: r for n, r in zip(pool, res[:len(alone_tasks)])}
    fails, evals, nontrivial = [], 0, set()
    for s, (per, after) in zip(seqs, res[len(alone_tasks):]):
        for n in s:
            evals += 1
            a_per, a_after = alone[n]
            if a_per[n] or a_after[n] != pool[n].encode("utf-8"):
                nontrivial.add((s, n))
            if per[n] != a_per[n]:
                fails.append((mode, s, n, "output-depends-on-history", {"alone": a_per[n][:6], "in_sequence": per[n][:6]}))
            elif after[n] != a_after[n]:
                fails.append((mode, s, n, "fixed-bytes-depend-on-history", {"alone": a_after[n].decode("utf-8", "replace")[:200],
                                                                             "in_sequence": after[n].decode("utf-8", "replace")[:200]}))
    return evals, nontrivial, fails


def baseline_exceptions():
    """(owner, field) pairs of Baseline.resetExceptions in lean/Verif/Model/RuleTable.lean (single source);
    owner is the rule id or the helper class name."""
    import re
    src = open(os.path.join(vlib.LEAN, "Verif", "Model", "RuleTable.lean"), encoding="utf-8").read()
    body = src[src.index("def resetExceptions"):src.index("def localWrites")]
    out = set()
    for a, b in re.findall(r'\("([^"]+)",\s*"([^"]+)"\)', body):
        out.add((a.split(":")[-1].split("/")[-1], b))
        out.add((a, b))
    return out


def snapshot_check(ctx, docs_):
    """Dynamic cross-check of the RuleFields abstraction: for every rule instance, the state right after
    starting_new_file() must be the same on a fresh instance and after any document has been scanned."""
    from application_properties import ApplicationProperties
    from pymarkdown.general.main_presentation import MainPresentation
    from pymarkdown.plugin_manager.plugin_manager import PluginManager
    from pymarkdown.general.source_providers import InMemorySourceProvider
    import pymarkdown

    def snap(inst):
        out = {}
        for k, v in vars(inst).items():
            if "plugin_specific_facade" in k or k.startswith("_RulePlugin__"):
                continue
            out[k] = canon(v)
        return out

    def canon(v, depth=0):
        if depth > 4:
            return "…"
        if isinstance(v, (int, str, bool, float, type(None))):
            return v
        if isinstance(v, (list, tuple)):
            return [canon(x, depth + 1) for x in v]
        if isinstance(v, (set, frozenset)):
            return sorted(repr(canon(x, depth + 1)) for x in v)
        if isinstance(v, dict):
            return {repr(k): canon(x, depth + 1) for k, x in sorted(v.items(), key=lambda kv: repr(kv[0]))}
        if hasattr(v, "__dict__") and type(v).__module__.startswith("pymarkdown.plugins"):
            return {"<" + type(v).__name__ + ">": {k: canon(x, depth + 1) for k, x in vars(v).items()}}
        return "<" + type(v).__name__ + ">"

    def manager():
        pm = PluginManager(MainPresentation())
        pdir = os.path.join(os.path.dirname(pymarkdown.__file__), "plugins")
        ids, _ = E.builtin_meta()
        pm.initialize(pdir, [], ",".join(ids), "", ApplicationProperties(), False, False)
        pm.apply_configuration(ApplicationProperties())
        return pm

    def leaf_diffs(owner, a, b):
        """(owner, field) pairs whose values differ; descends into helper objects (owner = helper class)."""
        out = []
        for k in sorted(set(a) | set(b)):
            x, y = a.get(k), b.get(k)
            if x == y:
                continue
            if isinstance(x, dict) and isinstance(y, dict) and len(x) == 1 and list(x) == list(y) and list(x)[0].startswith("<"):
                cls = list(x)[0][1:-1]
                out += leaf_diffs(cls, x["<" + cls + ">"], y["<" + cls + ">"])
            else:
                out.append((owner, unmangle(k)))
        return out

    def unmangle(k):
        import re as _re
        return _re.sub(r"^_[A-Za-z0-9]+(__)", r"\1", k)

    allowed = baseline_exceptions()
    fresh = manager()
    fresh.starting_new_file("x")
    base = {fp.plugin_id: snap(fp.plugin_instance) for fp in fresh.enabled_plugins}
    diffs, evals = [], 0
    pm = manager()
    tk = implib.parser()
    for t in docs_:
        ctxs = pm.starting_new_file("a.md")
        try:
            toks = tk.transform_from_provider(InMemorySourceProvider(t), do_add_end_of_stream_token=True)
            if toks and toks[-1].is_pragma:
                toks = toks[:-1]
            for k in toks:
                pm.next_token(ctxs, k)
            for i, l in enumerate(t.split("\n")):
                pm.next_line(ctxs, i + 1, l, i == len(t.split("\n")) - 1, t.endswith("\n"))
            pm.completed_file(ctxs, len(t.split("\n")) + 1)
        except Exception:
            pass   # crashing rules are C07 findings; the state they leave is exactly what must be reset
        pm.starting_new_file("b.md")
        for fp in pm.enabled_plugins:
            evals += 1
            now = snap(fp.plugin_instance)
            if now != base[fp.plugin_id]:
                ks = [k for k in leaf_diffs(fp.plugin_id, now, base[fp.plugin_id]) if k not in allowed]
                if ks:
                    diffs.append((fp.plugin_id, t, ks))
    return evals, diffs


def statics_check(ctx, texts, orders=None):
    """Dynamic cross-check of Verif.Gen.ParserStatics: in ONE fresh process, all long-lived parser / shell state right after
    the per-document initialisation must equal the state at the very first document, whatever was processed before
    (scan and fix, forward and backward through the pool, a new application stack per pass = API-object reuse).
    A surviving difference must be a baseline exception of Verif/Model/ParserStaticsTable.lean."""
    import staticslib as SL
    rows = SL.table(vlib.LEAN)
    if not rows:
        ctx.broken.append("statics table Verif/Gen/ParserStatics.lean is empty or unreadable")
        return {"evaluations": 0}, []
    exc, _cfg = SL.baseline(vlib.LEAN)
    allowed = {(a, b) for a, b, _ in exc}
    byid = {(r["owner"], r["name"]): r for r in rows}
    idx = list(range(len(texts)))
    passes = orders or [("scan", idx), ("fix", idx), ("api", idx), ("scan", idx[::-1]), ("fix", idx[::-1]), ("api", idx[::-1])]
    res = SL.run_worker(vlib.REPO, texts, passes, SL.skip_sets(rows))
    problems, absorbed = [], collections.Counter()
    seen = set()
    for d in res["diffs"]:
        owner0, name = d["key"].split(".", 1) if d["key"].count(".") == 1 else d["key"].rsplit(".", 1)
        row = next((byid[(o, name)] for o in d["owners"] + [owner0] if (o, name) in byid), None)
        tag = d["tag"]
        if row is not None and (row["owner"], row["name"]) in allowed:
            absorbed[row["owner"] + "." + row["name"]] += 1
            continue
        sym = "untracked-long-lived-state" if row is None else "state-survives-reset"
        sig = (d["key"], sym)
        if sig in seen:
            continue
        seen.add(sig)
        problems.append((d, sym, row))
    for e in res["errors"][:3]:
        ctx.broken.append(f"statics worker: per-document function raised {e['error'][:120]} on {e['tag']['doc']!r}")
    observed = set(res["key_list"])
    stats = {"evaluations": res["evaluations"], "keys_per_snapshot": res["keys"], "passes": len(passes), "documents": len(texts),
             "table_rows": len(rows), "table_rows_observed": sum(1 for r in rows if f"{r['owner']}.{r['name']}" in observed),
             "absorbed_by_baseline_exceptions": dict(absorbed), "differences_outside_baseline": len(problems)}
    return stats, problems


def run(ctx):
    ctx.lean_stage(["rule_fields", "parser_statics"], ["Verif.Props.C13", "Verif.Props.ScanRules", "Verif.Props.ScanRules1b", "Verif.Props.ScanRules2", "Verif.Props.ScanRules2b", "Verif.Props.ListRules"])
    __import__("blocks").listrules(ctx)      # md007_state_reset_partial (every leftover state, incl. an abandoned file), ctm_clear_eq_fresh_iff, md006_state_reset
    __import__("blocks").scanrules2(ctx)     # mdX_state_reset for MD011 MD013 MD014 MD028 MD032 MD033 MD034, md018_stale_delayed_line
    __import__("blocks").scanrules(ctx)      # mdX_state_reset: file B after file A = B alone, for all A, B (ten scan-only token rules; MD022's unreset field proved harmless)
    stats_e, samples = c07.engine_correspondence(ctx, 25 if ctx.quick() else 300, tag="history")
    res = docs.rule_resources()
    # pool: repo rule documents (one per rule directory at least) + parser-state documents
    byrule = collections.OrderedDict()
    for p, t in res:
        byrule.setdefault(p.split(os.sep)[0], []).append(t)
    picks = []
    for r, ts in byrule.items():
        picks += docs.hash_slice(ts, 2)          # seed-independent: the pool is the same in both tiers
    texts = list(dict.fromkeys(STATEFUL_DOCS + picks))
    pool = {f"p{i:03d}.md": t for i, t in enumerate(texts)}
    names = list(pool)
    pairs = list(itertools.permutations(names, 2))
    import random as _r
    fixed = _r.Random(20260929)                  # the triple set is part of the space definition, not of the seed
    triples = list(dict.fromkeys(tuple(fixed.sample(names, 3)) for _ in range(800)))
    if ctx.quick():
        # seeded sample of the pairs + every pair that STARTS with a document whose processing is aborted midway (those are the
        # histories that leave the most state behind)
        poison = [n for n in names if pool[n] in ABORTED_DOCS]
        pairs = list(dict.fromkeys(docs.sample(ctx.rng, pairs, 700) + [(a, b) for a in poison for b in names if b != a]))
        triples = docs.sample(ctx.rng, triples, 60)
    ids, _ = E.builtin_meta()
    total_evals, total_nt, fails = 0, set(), []
    for mode, extra in (("scan", []), ("scan", ["-e", ",".join(ids)]), ("fix", [])):
        seqs = pairs + triples if mode == "scan" else (docs.sample(ctx.rng, pairs, 300) + triples[:40] if ctx.quick() else pairs + triples[:300])
        ev, nt, fl = differential(ctx, pool, seqs, mode, extra)
        total_evals += ev; total_nt |= {(mode, tuple(extra)) + x for x in nt}; fails += fl
    sn_evals, sn_diffs = snapshot_check(ctx, texts)
    for (rid, t, ks) in sn_diffs:
        ctx.broken.append(f"state snapshot: {rid} keeps {ks} across starting_new_file")
        ctx.report({"rule": rid, "doc": t}, "state-survives-reset", {"fields": ks, "oracle": "vars(rule) after starting_new_file: fresh vs after a document"})
    st_stats, st_problems = statics_check(ctx, texts)
    for d, sym, row in st_problems:
        tag = d["tag"]
        ctx.broken.append(f"statics snapshot: {d['key']} differs after a document ({sym})")
        ctx.report({"mode": tag["mode"], "sequence": [tag["prev"] or "x\n", tag["doc"] or "x\n"], "file": tag["doc"] or "x\n", "state": d["key"]}, sym,
                   {"snapshot_at": d["at"], "fresh_process_value": d["reference"], "value_after_history": d["now"],
                    "table_row": row, "oracle": "long-lived parser/shell state right after the per-document initialisation: "
                                                "first document of a fresh process vs after other documents; a difference must be "
                                                "a baseline exception of Verif/Model/ParserStaticsTable.lean"})
    # API object reuse
    from pymarkdown.api import PyMarkdownApi
    api_fail = []
    api = PyMarkdownApi()
    seq = docs.sample(ctx.rng, [t for t in texts if t.strip()], 25)
    for t in seq:
        try:
            a = [(f.line_number, f.column_number, f.rule_id, f.extra_error_information) for f in api.scan_string(t).scan_failures]
            b = [(f.line_number, f.column_number, f.rule_id, f.extra_error_information) for f in PyMarkdownApi().scan_string(t).scan_failures]
        except Exception as e:   # rule crash documents (C07 findings)
            continue
        total_evals += 1
        if a != b:
            api_fail.append(t)
            fails.append(("api", ("reused PyMarkdownApi",), t, "output-depends-on-history", {"reused": a[:5], "fresh": b[:5]}))
    for (mode, s, n, sym, det) in fails:
        case = {"mode": mode, "sequence": [pool.get(x, x) for x in s], "file": pool.get(n, n)}
        ctx.report(case, sym, {"detail": det, "oracle": "output for a file inside a multi-file invocation must equal its output alone"})
    if ctx.broken and not ctx.violations:
        ctx.violation({"oracle": "Verif.Props.C13 (engine theorems or regenerated reset table vs baseline) no longer checks; the pair/triple "
                                 "differential and the state snapshots found no dependence on history"}, no_input=True)
    ctx.assumptions += ["the reset table is a syntactic abstraction of the rule sources; cross-checked by state snapshots on every run",
                        "the parser/shell statics table is a syntactic abstraction (name-resolved call graph, one-step aliases, no setattr); "
                        "cross-checked on every run by whole-state snapshots in a fresh process; parser_state_history_free assumes that the "
                        "per-document code leaves `constant` rows alone and never reads the 6 baseline exceptions into a per-file result",
                        "the 20 baseline (rule, field) exceptions are claimed only on the explored pairs/triples"]
    ctx.write_evidence({"correspondence": {"evaluations": total_evals, "distinct_nontrivial": len(total_nt), "pool": len(pool),
                                           "pairs": len(pairs), "triples": len(triples), "snapshot_evaluations": sn_evals, "statics_snapshot": st_stats,
                                           "rule": "ordered pairs/triples of pool documents in one invocation vs alone (scan default, scan all rules, fix); "
                                                   "non-trivial = the file has output or is changed by fix", "exhaustive": not ctx.quick()},
                        "engine_correspondence": stats_e,
                        "samples": [{"sequence": [pool[x][:60] for x in pairs[0]]}] + samples[:1]})


def replay(ctx, path):
    rp = json.load(open(path))
    inp = rp.get("input", {})
    if "state" in inp and "sequence" in inp:
        with vlib.build_lock():
            err = vlib.translate(["parser_statics"])["parser_statics"]     # the table of the tree being replayed against
        if err:
            print("translator parser_statics:", err)
            print(f"VIOLATION property=C13 replay={path}")
            return 1
        stats, problems = statics_check(ctx, inp["sequence"], orders=[(inp["mode"] if inp["mode"] in ("scan", "fix") else "scan", [0, 1])])
        hit = [d["key"] for d, sym, row in problems]
        print(hit)
        if inp["state"] in hit:
            print(f"VIOLATION property=C13 replay={path}")
            return 1
        return 0
    if "sequence" not in inp:
        print("replay:", rp.get("broken") or inp)
        return 1
    texts = inp["sequence"]
    pool = {f"p{i:03d}.md": t for i, t in enumerate(texts)}
    mode = inp["mode"] if inp["mode"] in ("scan", "fix") else "scan"
    ev, nt, fl = differential(ctx, pool, [tuple(pool)], mode, [])
    print(fl)
    if fl:
        print(f"VIOLATION property=C13 replay={path}")
        return 1
    return 0
