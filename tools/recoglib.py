"""Function-level correspondence of the recogniser models (lean/Verif/Model/Recognisers.lean, driver `recog`)
with the REAL pymarkdown functions, called in-process (private ones through name mangling; collaborators that a
function only hands its verdict to are replaced by sentinel stubs for the duration of the call — no source change).

A *request* is a tuple (op, arg, ...) with str / int / bool args; `encode` gives the driver line, `real` the
implementation's answer in the driver's answer syntax."""
import itertools, types
import vlib

H = vlib.hexs


def hx(s):
    return "=" + H(s)


def enc_arg(a):
    if isinstance(a, bool):
        return "1" if a else "0"
    if isinstance(a, int):
        return str(a)
    return H(a)


def encode(req):
    return "|".join([req[0]] + [enc_arg(a) for a in req[1:]])


class _Reached(Exception):
    pass


class _Tok:
    """A stack token that answers False to every `is_*` question except the ones given."""

    def __init__(self, **kw):
        self.__dict__.update(kw)

    def __getattr__(self, name):
        if name.startswith("is_") or name.startswith("was_"):
            return False
        raise AttributeError(name)


_IMPL = {}


def impl():
    """Lazy import of the implementation (after vlib put VERIF_REPO on sys.path)."""
    if _IMPL:
        return _IMPL
    from pymarkdown.general.parser_helper import ParserHelper as PH
    from pymarkdown.general.tab_helper import TabHelper as TH
    from pymarkdown.general.position_marker import PositionMarker
    from pymarkdown.leaf_blocks.thematic_leaf_block_processor import ThematicLeafBlockProcessor as TB
    from pymarkdown.leaf_blocks.atx_leaf_block_processor import AtxLeafBlockProcessor as ATX
    from pymarkdown.leaf_blocks.fenced_leaf_block_processor import FencedLeafBlockProcessor as FEN
    from pymarkdown.leaf_blocks.setext_leaf_block_processor import SetextLeafBlockProcessor as SET
    from pymarkdown.list_blocks.list_block_starts_helper import ListBlockStartsHelper as LST
    from pymarkdown.block_quotes.block_quote_count_helper import BlockQuoteCountHelper as BQ
    from pymarkdown.block_quotes.block_quote_data import BlockQuoteData
    from pymarkdown.container_blocks.container_block_processor import ContainerBlockProcessor as CBP
    from pymarkdown.general.tokenized_markdown import TokenizedMarkdown as TM
    _IMPL.update(PH=PH, TH=TH, PM=PositionMarker, TB=TB, ATX=ATX, FEN=FEN, SET=SET, LST=LST, BQ=BQ, BQD=BlockQuoteData,
                 CBP=CBP, TM=TM)
    return _IMPL


def _priv(cls, name):
    return getattr(cls, "_%s__%s" % (cls.__name__, name))


def _state(in_para=False):
    doc = _Tok(is_document=True)
    stack = [doc, _Tok(is_paragraph=True)] if in_para else [doc]
    return types.SimpleNamespace(token_stack=stack, token_document=[], original_line_to_parse=None)


def _opt2(r, f):
    return "none" if r[0] is None else f(r)


def real(req):
    """The implementation's answer for one request, in the driver's syntax."""
    I = impl()
    PH, TH = I["PH"], I["TH"]
    op, a = req[0], req[1:]
    try:
        if op == "xs":
            return _opt2(PH.extract_spaces(a[0], a[1]), lambda r: "%d|%s" % (r[0], hx(r[1])))
        if op == "xaw":
            return _opt2(PH.extract_ascii_whitespace(a[0], a[1]), lambda r: "%d|%s" % (r[0], hx(r[1])))
        if op == "sfe":
            r = PH.extract_spaces_from_end(a[0])
            return "%d|%s" % (r[0], hx(r[1]))
        if op == "sfei":
            r = PH.extract_spaces_from_end(a[0], a[1])
            return "%d|%s" % (r[0], hx(r[1]))
        if op == "cwc":
            return _opt2(PH.collect_while_character(a[0], a[1], a[2]), lambda r: "%d|%d" % r)
        if op == "cwo":
            return _opt2(PH.collect_while_one_of_characters(a[0], a[1], a[2]), lambda r: "%d|%s" % (r[0], hx(r[1])))
        if op == "cbw":
            return _opt2(PH.collect_backwards_while_one_of_characters(a[0], a[1], a[2]), lambda r: "%d|%d" % r)
        if op == "callen":
            return str(TH.calculate_length(a[0], a[1]))
        if op == "detab":
            return hx(TH.detabify_string(a[0], a[1]))
        if op == "tb":
            c, j = I["TB"].is_thematic_break(a[0], a[1], a[2], a[3], a[4])
            return "none" if c is None else "%d|%d" % (ord(c), j)
        if op == "atx":
            ok, nw, hc, w = I["ATX"].is_atx_heading(a[0], a[1], a[2], a[3])
            return "true|%d|%d|%s" % (nw, hc, hx(w)) if ok else "false"
        if op == "atxadj":
            we, wb, rem, rtc = _priv(I["ATX"], "prepare_for_create_atx_heading_adjust")(a[0], 0)
            return "%s|%s|%s|%d" % (hx(we), hx(wb), hx(rem), rtc)
        if op == "fence":
            ok, nw, af, cc, ni = I["FEN"].is_fenced_code_block(None, a[0], a[1], a[2], a[0], 0, a[3])
            return "true|%d|%d|%d" % (nw, af, cc) if ok else "false"
        if op == "fopen":
            return _fence_open(I, *a)
        if op == "fclose":
            return _fence_close(I, *a)
        if op == "setext":
            return _setext(I, *a)
        if op == "blank":
            return _blank(I, a[0])
        if op == "ulm":
            return "1" if _priv(I["LST"], "is_start_ulist")(a[0], a[1], a[2]) else "0"
        if op == "olm":
            b, i, nd, n1 = _priv(I["LST"], "is_start_olist")(a[0], a[1])
            return "%d|none" % b if i is None else "%d|%d|%d|%d" % (b, i, nd, n1)
        if op == "ul":
            b, after, _, _ = I["LST"].is_ulist_start(_state(a[4]), a[0], a[1], a[2], a[3], None)
            return "%d|%d" % (b, after)
        if op == "ol":
            b, after, i, nd = I["LST"].is_olist_start(_state(a[4]), a[0], a[1], a[2], a[3], None)
            return "%d|%d|none" % (b, after) if i is None else "%d|%d|%d|%d" % (b, after, i, nd)
        if op == "bqs":
            return "1" if I["BQ"].is_block_quote_start(a[0], a[1], a[2]) else "0"
        if op == "bq":
            d, si, _, last, _ = I["BQ"].count_block_quote_starts(None, a[0], a[1], I["BQD"](0, 0), False, False)
            return "%d|%d|%d" % (d.current_count, si, last)
    except IndexError:
        return "err index"
    except AssertionError:
        return "err assertion"
    except Exception as e:  # anything else is a disagreement by construction
        return "err %s" % type(e).__name__
    return "bad-op"


def _patched(cls, private, stub):
    name = "_%s__%s" % (cls.__name__, private)
    old = cls.__dict__[name]
    setattr(cls, name, staticmethod(stub))
    return name, old


def _raise_reached(*a, **k):
    raise _Reached()


def _fence_open(I, line, start, ws):
    """is_fenced_code_block + the info-string test of __process_fenced_start: reached `__add_fenced_tokens` or not."""
    FEN = I["FEN"]
    ok, nw, af, cc, ni = FEN.is_fenced_code_block(None, line, start, ws, line, 0)
    if not ok:
        return "0"
    name, old = _patched(FEN, "add_fenced_tokens", _raise_reached)
    try:
        _priv(FEN, "process_fenced_start")(_state(), I["PM"](1, start, line), nw, cc, ws, line, ni, I["BQD"](0, 0), af, None)
        return "0"
    except _Reached:
        return "1"
    finally:
        setattr(FEN, name, old)


def _fence_close(I, line, start, ws, fchar, fcount):
    """is_fenced_code_block + __check_for_fenced_end against an open fence; the stack token is a stand-in that records
    whether the end token was generated.  Tab-free `original_line` so that the tab-free path is taken."""
    FEN = I["FEN"]
    ok, nw, af, cc, ni = FEN.is_fenced_code_block(None, line, start, ws, line, 0)
    if not ok:
        return "0"
    fenced = _Tok(is_fenced_code_block=True, code_fence_character=fchar, fence_character_count=fcount,
                  generate_close_markdown_token_from_stack_token=lambda *a, **k: "END")
    st = types.SimpleNamespace(token_stack=[_Tok(is_document=True), fenced], token_document=[])
    new_tokens = []
    _priv(FEN, "check_for_fenced_end")(st, I["PM"](1, start, line), cc, ws, new_tokens, af, "", 0)
    return "1" if new_tokens else "0"


def _setext(I, line, start, ws):
    """parse_setext_headings with a paragraph open at top level: reached `__create_setext_token` or not."""
    SET = I["SET"]
    name, old = _patched(SET, "create_setext_token", _raise_reached)
    try:
        SET.parse_setext_headings(_state(True), I["PM"](2, start, line), ws, I["BQD"](0, 0), "")
        return "0"
    except _Reached:
        return "1"
    finally:
        setattr(SET, name, old)


_TK = []


def _blank(I, line):
    """The blank-line test of __main_pass_did_not_start_close: which of its two callees gets the line."""
    TM, CBP = I["TM"], I["CBP"]
    if not _TK:
        _TK.append(TM())
    tk = _TK[0]
    tk._TokenizedMarkdown__parse_properties = object()
    tk._TokenizedMarkdown__tokenized_document = []
    got = []
    tk._TokenizedMarkdown__handle_blank_line = lambda *a, **k: (got.append("1"), ([], None))[1]
    old = CBP.__dict__["parse_line_for_container_blocks"]
    CBP.parse_line_for_container_blocks = staticmethod(lambda *a, **k: (got.append("0"), ([], None, None, None, None, None))[1])
    try:
        tk._TokenizedMarkdown__main_pass_did_not_start_close(None, None, line, False)
    finally:
        CBP.parse_line_for_container_blocks = old
    return got[0]


# ---------------------------------------------------------------- request spaces
def strings(alphabet, max_len):
    for n in range(max_len + 1):
        for t in itertools.product(alphabet, repeat=n):
            yield "".join(t)


def lead(s):
    """(index of the first non-blank, leading whitespace) as the callers compute it with extract_spaces."""
    i = 0
    while i < len(s) and s[i] in " \t":
        i += 1
    return i, s[:i]


# op family -> (alphabet, request builder for one string)
def _r_ws(s):
    out = [("sfe", s)]
    for k in range(len(s) + 2):
        out += [("xs", s, k), ("xaw", s, k), ("sfei", s, k), ("cwo", s, k, " \t"), ("cbw", s, k - 1, " \t"), ("cwc", s, k, " ")]
    return out


def _r_cwc(s):
    return [("cwc", s, k, c) for k in range(len(s) + 2) for c in "#a"] + [("cwo", s, k, "0123456789") for k in range(len(s) + 2)] \
        + [("cbw", s, k - 1, "#") for k in range(len(s) + 3)]


def _r_tb(s):
    i, w = lead(s)
    out = [("tb", s, i, w, False, True), ("tb", s, i, w, False, False), ("tb", s, i, w, True, True)]
    out += [("tb", s, k, "", False, True) for k in range(len(s) + 2) if k != i]
    return out


def _r_atx(s):
    i, w = lead(s)
    return [("atx", s, i, w, False), ("atx", s, i, w, True), ("atxadj", s)] + [("atx", s, k, "", False) for k in range(len(s) + 2) if k != i]


def _r_fence(s):
    i, w = lead(s)
    out = [("fence", s, i, w, False), ("fence", s, i, w, True), ("fopen", s, i, w)]
    out += [("fclose", s, i, w, c, n) for c in "`~" for n in (3, 4)]
    out += [("fence", s, k, "", False) for k in range(len(s) + 2) if k != i]
    return out


def _r_setext(s):
    i, w = lead(s)
    return [("setext", s, i, w)] + [("setext", s, k, "", ) for k in range(len(s) + 2) if k != i]


def _r_blank(s):
    return [("blank", s)]


def _r_ul(s):
    i, w = lead(s)
    return [("ulm", s, i, w), ("ul", s, i, w, False, False), ("ul", s, i, w, False, True), ("ul", s, i, w, True, False)] \
        + [("ulm", s, k, "") for k in range(len(s) + 2) if k != i]


def _r_ol(s):
    i, w = lead(s)
    return [("olm", s, i), ("ol", s, i, w, False, False), ("ol", s, i, w, False, True), ("ol", s, i, w, True, False)] \
        + [("olm", s, k) for k in range(len(s) + 2) if k != i]


def _r_bq(s):
    i, w = lead(s)
    out = [("bqs", s, i, w)] + [("bqs", s, k, "") for k in range(len(s) + 2) if k != i]
    out += [("bq", s, k) for k in range(len(s)) if s[k] == ">"]      # the caller's guard: `>` at the index
    return out


def _r_detab(s):
    return [("detab", s, d) for d in range(5)] + [("callen", s, d) for d in range(6)]


FAMILIES = {
    "whitespace": (" \ta1\x0c\n", _r_ws),
    "collect": ("#a1 \t", _r_cwc),
    "thematic": ("*-_ \ta1", _r_tb),
    "atx": ("# \ta1\\", _r_atx),
    "fence": ("`~ \ta1", _r_fence),
    "setext": ("-= \ta1", _r_setext),
    "blank": (" \t\x0b\x0c\ra1\xa0", _r_blank),
    "ulist": ("-+* \ta1", _r_ul),
    "olist": ("12.) \ta0", _r_ol),
    "bquote": ("> \ta1", _r_bq),
    "detab": ("\t a>", _r_detab),
}

# beyond the length bound: the numeric limits of the recognisers
EXTRA = ["####### h", "###### h", "#######", "######", "123456789. x", "1234567890. x", "123456789)", "1234567890)",
         "    ---", "   ---", "\t---", " \t---", "  \t#", "- - - -", "-- -", "--  -  ", "*\t*\t*", "``` a`b", "~~~ a`b", "````", "~~~~  ",
         "===   ", "=== =", ">>>", "> > >", ">\t>", " > >a", "   >", "    >", "a\tb\tc", "\t\ta", " \t \tb", "ab\t", "abc\td", "abcd\te",
         "# a #", "# a ##  ", "# a#", "#\ta\t#\t", "## ", "# #", "#  # #", "1. ", "1.", "1.a", "01. a", "0. a", "-", "- ", "-a", "+\ta", "* * *"]


def family_requests(fam, strs):
    build = FAMILIES[fam][1]
    out = []
    for s in strs:
        out += build(s)
    return out
