"""Function-level correspondence of the INLINE recogniser models (lean/Verif/Model/InlineRecog.lean, driver `inlinerecog`)
with the REAL pymarkdown functions, called in-process (private ones through name mangling, no source change).

A *request* is a tuple (op, arg, ...) with str / int / bool args; `encode` gives the driver line, `real` the
implementation's answer in the driver's answer syntax (exception kinds included: err index | assertion | value | hang).

Space (closed): for every family, ALL strings of length <= 6 over the family's alphabet (thorough), optionally behind each of the
family's fixed prefixes, x the start indices (every index 0..len+1 for strings of length <= 4, for longer strings every index
that satisfies the caller's guard, i.e. the trigger character is at the index), plus the fixed EXTRA lists (numeric limits).
quick = all strings of length <= 4 plus a ctx.rng sample of lengths 5..7 of the SAME alphabets."""
import collections, itertools, multiprocessing as mp, re, signal, time, types
import vlib

H = vlib.hexs


def hx(s):
    return "=" + H(s)


def oh(s):
    return "none" if s is None else hx(s)


def enc_arg(a):
    if isinstance(a, bool):
        return "1" if a else "0"
    if isinstance(a, int):
        return str(a)
    return H(a)


def encode(req):
    return "|".join([req[0]] + [enc_arg(a) for a in req[1:]])


_IMPL = {}


def impl():
    if _IMPL:
        return _IMPL
    from pymarkdown.general.parser_helper import ParserHelper as PH
    from pymarkdown.html.html_raw_helper import HtmlRawHelper as RAW
    from pymarkdown.html.html_helper import HtmlHelper as HH
    from pymarkdown.inline.inline_autolink_helper import InlineAutoLinkHelper as AUTO
    from pymarkdown.inline.inline_character_reference_helper import InlineCharacterReferenceHelper as CREF
    from pymarkdown.inline.inline_backslash_helper import InlineBackslashHelper as BSL
    from pymarkdown.inline.inline_backtick_helper import InlineBacktickHelper as TICK
    from pymarkdown.inline.inline_request import InlineRequest
    import implib
    implib.parser()          # initialises the entity map (InlineCharacterReferenceHelper.initialize)
    _IMPL.update(PH=PH, RAW=RAW, HH=HH, AUTO=AUTO, CREF=CREF, BSL=BSL, TICK=TICK, REQ=InlineRequest)
    return _IMPL


def _priv(cls, name):
    return getattr(cls, "_%s__%s" % (cls.__name__, name))


_PROPS = types.SimpleNamespace(is_disallow_raw_html_enabled=False, disallow_raw_html=None)


def _request(I, src, nxt):
    return I["REQ"](src, nxt, line_number=1, column_number=1, remaining_line="", parse_properties=_PROPS)


def _opt2(r, f):
    return "none" if r[0] is None else f(r)


def real(req):
    """The implementation's answer for one request, in the driver's syntax."""
    I = impl()
    PH, RAW, HH, AUTO = I["PH"], I["RAW"], I["HH"], I["AUTO"]
    op, a = req[0], req[1:]
    try:
        if op == "cuc":
            return _opt2(PH.collect_until_character(a[0], a[1], a[2]), lambda r: "%d|%s" % (r[0], hx(r[1])))
        if op == "cuo":
            return _opt2(PH.collect_until_one_of_characters(a[0], a[1], a[2]), lambda r: "%d|%s" % (r[0], hx(r[1])))
        if op == "iao":
            return str(PH.index_any_of(a[0], a[1], a[2]))
        if op == "deltas":
            return "%d|%d" % PH.calculate_deltas(a[0])
        if op == "tagname":
            return hx(_priv(RAW, "parse_raw_tag_name")(a[0], a[1]))
        if op == "tagattr":
            return _opt2(_priv(RAW, "parse_tag_attributes")(a[0], a[1]), lambda r: "%d|%s" % (r[0], hx(r[1])))
        if op == "opentag":
            v, e = _priv(RAW, "parse_raw_open_tag")(a[0])
            return "%s|%d" % (oh(v), e)
        if op == "closetag":
            return oh(_priv(RAW, "parse_raw_close_tag")(a[0]))
        if op == "special":
            v, e = _priv(RAW, "process_raw_special")(a[0], a[1], a[2], a[3])
            return "%s|%d" % (oh(v), e)
        if op == "decl":
            return oh(_priv(RAW, "parse_raw_declaration")(a[0]))
        if op == "rawhtml":
            tok, e = RAW.parse_raw_html(a[0], a[1], 1, 1, _request(I, "", 0))
            return "none|-1" if tok is None else "%s|%d" % (hx(tok.raw_tag), e)
        if op == "uri":
            return "1" if _priv(AUTO, "parse_valid_uri_autolink")(a[0], 1, 1) else "0"
        if op == "email":
            return "1" if _priv(AUTO, "parse_valid_email_autolink")(a[0], 1, 1) else "0"
        if op == "angle":
            r = AUTO.handle_angle_brackets(None, _request(I, a[0], a[1]))
            kind, text = 0, ""
            if r.new_tokens:
                t = r.new_tokens[0]
                if t.is_inline_uri_autolink:
                    kind, text = 1, t.autolink_text
                elif t.is_inline_email_autolink:
                    kind, text = 2, t.autolink_text
                elif t.is_inline_raw_html:
                    kind, text = 3, t.raw_tag
                else:
                    kind, text = 9, str(t)
            return "%d|%s|%s|%d|%d|%d" % (kind, hx(text), hx(r.new_string), r.new_index, r.delta_line_number, r.delta_column_number)
        if op == "charref":
            r = I["CREF"].handle_character_reference(None, _request(I, a[0], a[1]))
            return "%s|%d|%s|%s" % (hx(r.new_string), r.new_index, oh(r.original_string), oh(r.new_string_unresolved))
        if op == "bslash":
            r = I["BSL"].handle_inline_backslash(None, _request(I, a[0], a[1]), a[2])
            return "%s|%s|%d" % (hx(r.new_string), hx(r.new_string_unresolved), r.new_index)
        if op == "bslashes":
            return hx(I["BSL"].handle_backslashes(None, a[0]))
        if op == "noops":
            return hx(_priv(I["TICK"], "adjust_for_injected_noops")(a[0]))
        if op == "tick":
            r = I["TICK"].handle_inline_backtick(None, _request(I, a[0], a[1]))
            tail = "%s|%d|%d|%d" % (hx(r.new_string), r.new_index, r.delta_line_number, r.delta_column_number)
            if r.new_tokens:
                t = r.new_tokens[0]
                return "span|%s|%s|%s|%s|%s" % (hx(t.span_text), hx(t.extracted_start_backticks), hx(t.leading_whitespace),
                                                hx(t.trailing_whitespace), tail)
            return "lit|" + tail
        if op == "vtag":
            return "1" if HH.is_valid_tag_name(a[0]) else "0"
        if op == "attrname":
            return str(HH.extract_html_attribute_name(a[0], a[1]))
        if op == "attrval":
            return str(HH.extract_optional_attribute_value(a[0], a[1]))
        if op == "endtag":
            b, i = HH.is_complete_html_end_tag(a[0], a[1], a[2])
            return "%d|%d" % (b, i)
        if op == "starttag":
            b, i = HH.is_complete_html_start_tag(a[0], a[1], a[2])
            return "%d|%s" % (b, "none" if i is None else i)
    except IndexError:
        return "err index"
    except AssertionError:
        return "err assertion"
    except ValueError:
        return "err value"
    except _Hang:
        raise
    except Exception as e:  # anything else is a disagreement by construction
        return "err %s" % type(e).__name__
    return "bad-op"


class _Hang(BaseException):
    pass


def _alarm(*_a):
    raise _Hang()


def may_hang(req):
    """Static, conservative pre-filter: the only modelled loop without a variant (`__adjust_for_injected_noops`) needs both
    U+0007 and U+0003 in its text.  Such calls get their own short CPU timer (the loop allocates on every turn)."""
    return req[0] in ("tick", "noops") and "\a" in req[1] and "\x03" in req[1]


def real_answers(reqs):
    signal.signal(signal.SIGVTALRM, _alarm)
    out = []
    for q in reqs:
        if may_hang(q):
            signal.setitimer(signal.ITIMER_VIRTUAL, 0.01)
            try:
                out.append(real(q))
            except _Hang:
                out.append("err hang")
            finally:
                signal.setitimer(signal.ITIMER_VIRTUAL, 0)
        else:
            out.append(real(q))
    return out


# ---------------------------------------------------------------- request spaces
def strings(alphabet, max_len, min_len=0):
    for n in range(min_len, max_len + 1):
        for t in itertools.product(alphabet, repeat=n):
            yield "".join(t)


def _idx(s, trigger):
    """every index 0..len+1 for short strings, the caller's guard (trigger character at the index) for longer ones"""
    if len(s) <= 4:
        return range(len(s) + 2)
    return [k for k, c in enumerate(s) if c in trigger]


def _between(s):
    """(only_between_angles, remaining_line) the way handle_angle_brackets cuts them, or None"""
    k = s.find(">")
    return None if k <= 0 else (s[:k], s)


def _r_scan(s):
    out = []
    for k in range(len(s) + 2):
        out += [("cuc", s, k, "a"), ("cuo", s, k, "a>"), ("iao", s, "\\&", k), ("iao", s, "a", k)]
    return out + [("deltas", s)]


def _r_opentag(s):
    out = [("opentag", s)]
    b = _between(s)
    if b:
        out.append(("rawhtml",) + b)
    out += [("tagname", s, k) for k in _idx(s, "aZ")]
    out += [("tagattr", s, k) for k in _idx(s, "aZ_:")]
    return out


def _r_closetag(s):
    out = [("closetag", s), ("decl", s), ("tagname", s, 1)]
    b = _between(s)
    if b:
        out.append(("rawhtml",) + b)
    return out


def _r_special(s):
    out = [("special", s, "!--", "-->", True), ("special", s, "?", "?>", False), ("special", s, "![CDATA[", "]]>", False),
           ("special", s, "!--", "-->", False)]
    b = _between(s)
    if b:
        out.append(("rawhtml",) + b)
    return out


def _r_decl(s):
    out = [("decl", s)]
    b = _between(s)
    if b:
        out.append(("rawhtml",) + b)
    return out


def _r_angle(s):
    return [("angle", s, k) for k in _idx(s, "<")]


def _r_uri(s):
    return [("uri", s)] if s else []          # the caller never passes the empty string (closing index != next + 1)


def _r_uri0(s):
    return [("uri", s)]


def _r_email(s):
    return [("email", s)]


def _r_charref(s):
    return [("charref", s, k) for k in _idx(s, "&")]


def _r_bslash(s):
    out = []
    for k in _idx(s, "\\"):
        out += [("bslash", s, k, True), ("bslash", s, k, False)]
    return out + [("bslashes", s)]


def _r_tick(s):
    return [("tick", s, k) for k in _idx(s, "`")]


def _r_noops(s):
    return [("noops", s)]


def _r_attrname(s):
    return [("attrname", s, k) for k in range(len(s) + 2)] + [("vtag", s)]


def _r_attrval(s):
    return [("attrval", s, k) for k in range(len(s) + 1)]      # the caller passes an index of the line


TAGS = ["a", "", "pre", "a-1", "A", "\u212a", "\xe9", "a b"]


def _r_endtag(s):
    return [("endtag", t, s, k) for t in TAGS[:6] for k in range(len(s) + 1)]


def _r_starttag(s):
    return [("starttag", t, s, k) for t in ("a", "pre", "") for k in (range(len(s) + 1) if len(s) <= 4 else (0, 1))]


_P = "\x05\a\x05\x03\x05\a"      # the prefix / suffix __adjust_for_injected_noops looks for, as alphabet "letters"
_S = "\x05\a"

# family -> (alphabet, request builder, prefixes, max length in thorough)
FAMILIES = collections.OrderedDict([
    ("scan", ("a>\\&\n", _r_scan, [""], 6)),
    ("opentag", ("a1- \n:=\"'/>`", _r_opentag, [""], 6)),
    ("opentag-attr", ("a \n='\"/>_.<", _r_opentag, ["a b", "a b=", "a b='", "a b=\"x\""], 5)),
    ("closetag", ("/a1- \t\n>", _r_closetag, [""], 6)),
    ("comment", ("->a!", _r_special, ["!--", "!-"], 6)),
    ("procinst", ("?>a", _r_special, ["?", ""], 6)),
    ("cdata", ("]>a[", _r_special, ["![CDATA[", "![CDATA"], 6)),
    ("declaration", ("Aa \t\n>!1", _r_decl, ["!", ""], 6)),
    ("angle", ("<>a:@./ \n\x7f!-", _r_angle, [""], 6)),
    ("angle-html", ("a =\"/>-!?\n", _r_angle, ["<", "<a", "x<!-"], 5)),
    ("uri", ("aZ1+.-:< \x7f\x1f\xe9/", _r_uri0, [""], 6)),
    ("email", ("aA1-.@!\n ", _r_email, [""], 6)),
    ("charref", ("&#xX019Famp; ", _r_charref, [""], 6)),
    ("charref-num", ("019;a", _r_charref, ["&#", "&#x", "&#X"], 8)),
    ("charref-hex", ("01Ff;g", _r_charref, ["&#x"], 7)),
    ("backslash", ("\\a!\n &\x08\xe9~#;1", _r_bslash, [""], 6)),
    ("backtick", ("`a \n\a\x03<&\t\x05", _r_tick, [""], 6)),
    ("noops", ([_P, _S, "a", "\a", "\x05", "\x03"], _r_noops, [""], 5)),
    ("attrname", ("aA1:.= />\xe9", _r_attrname, [""], 6)),
    ("attrval", (" \t=\"'a<>`/", _r_attrval, [""], 6)),
    ("endtag", (" \t>a", _r_endtag, [""], 6)),
    ("starttag", (" a=\"'/>\t", _r_starttag, ["", " a"], 6)),
])

# beyond the length bound: the numeric limits of the recognisers
_L61, _L62 = "a" * 61, "a" * 62
EXTRA = {
    "uri": ["a" * 32 + ":x", "a" * 33 + ":x", "a" * 31 + ":", "a:", "ab:", "ab", "a" * 2 + ":\x7f", "http://a b", "http://a<b", "MAILTO:x"],
    "email": ["a@" + "b" * n for n in (1, 62, 63, 64, 65)] + ["a@" + "b" * 63 + "." + "c" * n for n in (63, 64)] +
             ["a@b" + "-" * 61 + "c", "a@b" + "-" * 62 + "c", "a@b" + "-" * 62, "a@-b", "a@b-", "a@b.", "a@.b", "a@b..c", "a@b.c\n", "a@b.c\n\n",
              "a@b\n.c", "\na@b", "a.!#$%&'*+/=?^_`{|}~-@b", "a@b@c", "@b", "a@", "a b@c", "foo@bar.example.com", "a@b_c"],
    "charref": ["&#1234567;", "&#12345678;", "&#1114111;", "&#1114112;", "&#9999999;", "&#x10FFFF;", "&#x110000;", "&#xFFFFFF;", "&#xFFFFFFF;",
                "&#xD800;", "&#xdfff;", "&#55296;", "&#0;", "&#x0;", "&#00;", "&#x000000;", "&amp;", "&AMP;", "&amp", "&ampx;", "&nbsp;", "&NotEqualTilde;",
                "&ngE;", "&x;", "&;", "&#;", "&#x;", "&#X1;", "&#1", "&#x1", "&copy;x", "&#35;", "&#x23;", "&#xg;", "&#1a;"],
    "backslash": ["\\&amp;", "a\\&#35;b\\\\c", "&#xD800;\\!", "&#xFFFFFF;", "\\", "&", "a&amp;b&copy;\\*"],
    "backtick": ["`` a ` b ``", "` `` `", "`  `", "` a `", "`  a  `", "` \n `", "`\n\n`", "` a\nb `", "```a``b```", "`a``b`c`", "`x\a\x03\a`", "`\a\x03\a`",
                 "`\a\x03\ay\a`", "`x\a\x03\ay\az\a\x03\a`", "`<a>&\"`", "`a\n\ab`", "`\x05\n`", "` \t `", "`\t`"],
    "opentag": ["a b='c' d=\"e\" f=g h/>", "a b='c'd='e'>", "a b=>", "a b= >", "a b=c/>", "a b= c>", "a\nb\n=\n'c\n'\n/>", "a b='c", "a b=\"c", "a:b>", "a_>",
                "a b:c.d-e_f=1>", "a b=c`>", "a b=c<>", "a b=c=d>", "a-1 x>", "a1>", "1a>", "a/ >", "a//>", "a b c d>", "a \x0b\x0c\rb>"],
    "closetag": ["/a>", "/a >", "/a\t>", "/a\n>", "/a b>", "/a-1>", "/1>", "//a>", "/a/>", "/>"],
    "comment": ["!---->", "!-->", "!--->", "!-- a -->", "!-- a -- b -->", "!-- a --->", "!---a-->", "!-- -> -->", "!--a-->b-->", "!--", "!---", "!----"],
    "procinst": ["?a?>", "??>", "?>", "? ? > ?>", "?php echo '>'; ?>"],
    "cdata": ["![CDATA[a]]>", "![CDATA[]]>", "![CDATA[>]]>", "![CDATA[]]]>", "![CDATA[a]>]]>", "![cdata[a]]>", "![CDATA[a]]"],
    "declaration": ["!DOCTYPE html>", "!A>", "!A >", "!A  b>", "!a b>", "!A\tb>", "!A\nb>", "!AB1 c>", "! A>", "!A"],
    "angle": ["<http://a.b/c?d=e>", "<a@b.c>", "<a b='>'>x", "<a b='>", "<!-- > -->", "<!---->", "<?>?>", "<![CDATA[>]]>", "<>", "<", "<a", "a<b>c", "<a\n>", "</a\n>",
              "<a@b.c\n>", "<http://a\n>", "<a:\x7f>", "<!A\n>", "<a b=\"\a\n\">", "<a b=\"\n\x05\a\">", "<\a:\n>", "<a b=>", "< a>", "<a >", "<a/>", "<a / >"],
    "attrname": ["abc=", "a.b-c:d_e>", "Abc=", "1a ", "a", "a\t", "a=", "a/"],
    "attrval": ["=\"a\"", "='a'", "=a", " = a ", "=\"a", "='a", "=", "= ", "=\"\"", "=''>", "=a\"b", " a", "", "=a=b"],
    "starttag": [" b=c>", " b = 'c' d=\"e\" />", " /", " b /", " b='c' /", "/", "/>", ">", " >", " > ", " b>x", " B>", " 1>", " b=>", " b c>", "  b\t>", " b=c d>", " b='c'd>"],
    "endtag": [">", " >", "> ", " ", "", "a>"],
}


def family_strings(fam, max_len=None):
    alpha, _, prefixes, ml = FAMILIES[fam]
    n = ml if max_len is None else min(max_len, ml)
    for p in prefixes:
        for w in strings(alpha, n):
            yield p + w


def family_requests(fam, strs):
    build = FAMILIES[fam][1]
    out = []
    for s in strs:
        out += build(s)
    return out


TRIVIAL = re.compile(r"^(none(\|-1)?|0|-1|0\|.*|lit\|.*|0\|=\|=3c\|.*)$")


def _task_strings(t):
    """the strings of a task: an explicit list, or ("enum", prefix, n, lead) = every string of length n over the family alphabet
    that starts with the letters `lead`, behind `prefix`"""
    fam, spec = t
    if spec[0] == "list":
        return spec[1]
    _, prefix, n, lead = spec
    alpha = FAMILIES[fam][0]
    head = prefix + "".join(lead)
    return [head + "".join(w) for w in itertools.product(alpha, repeat=n - len(lead))]


def _task(t):
    fam = t[0]
    strs = _task_strings(t)
    reqs = family_requests(fam, strs)
    t0 = time.process_time()
    real_a = real_answers(reqs)
    t1 = time.process_time()
    model = vlib.Driver("inlinerecog").run([encode(q) for q in reqs])
    bad = [(q, r, m) for q, r, m in zip(reqs, real_a, model) if r != m]
    kinds = collections.Counter()
    for q, r in zip(reqs, real_a):
        kinds[(q[0], "error" if r.startswith("err ") else ("trivial" if TRIVIAL.match(r) else "accepting"))] += 1
    distinct = len({(q[0], r) for q, r in zip(reqs, real_a)})
    return fam, len(strs), len(reqs), dict(kinds), distinct, bad[:20], len(bad), t1 - t0


def _ser_re(items):
    """`re._parser.parse(pattern)` in the syntax of `Verif.Model.InlineRecog.Re.ser`"""
    import re._parser as P
    out = []
    for op, av in items:
        n = str(op)
        if n == "AT":
            out.append("at:" + str(av))
        elif n == "LITERAL":
            out.append("set[%d-%d]" % (av, av))
        elif n == "IN":
            rs = []
            for o, a in av:
                if str(o) == "RANGE":
                    rs.append("%d-%d" % a)
                elif str(o) == "LITERAL":
                    rs.append("%d-%d" % (a, a))
                else:
                    raise ValueError("regex: unsupported class item %s" % o)
            out.append("set[" + ",".join(rs) + "]")
        elif n == "MAX_REPEAT":
            lo, hi, sub = av
            out.append("rep{%d,%s}(%s)" % (lo, "inf" if hi == P.MAXREPEAT else hi, _ser_re(sub)))
        elif n == "SUBPATTERN" and av[0] is None:
            out.append(_ser_re(av[3]))
        else:
            raise ValueError("regex: unsupported node %s" % n)
    return " ".join(out)


def regex_tie():
    """(ok, real, model): the e-mail regex of the SOURCE, parsed by `re._parser`, against the regex AST the Lean theorems speak about"""
    import re._parser as P
    pat = _priv(impl()["AUTO"], "valid_email_regex")
    try:
        real_s = _ser_re(P.parse(pat))
    except Exception as e:
        real_s = "unparsable: %s" % e
    model = vlib.Driver("inlinerecog").run(["emailre"])[0]
    return real_s == model, real_s, model


def _chunks(fam, strs):
    size = 200 if fam in ("noops", "backtick") else 1500 if fam in ("angle", "angle-html", "opentag", "opentag-attr", "starttag") else 4000
    return [(fam, ("list", strs[k:k + size])) for k in range(0, len(strs), size)]


def tasks_for(ctx, quick):
    """the task list of the tier.  thorough: the whole closed space, enumerated inside the workers; quick: everything of length <= 4
    plus a ctx.rng sample of lengths 5..7 of the same alphabets; both: the fixed EXTRA lists."""
    tasks = []
    for fam, (alpha, _, prefixes, ml) in FAMILIES.items():
        if quick:
            strs = list(family_strings(fam, 4))
            for n in (5, 6, 7):
                if n <= max(ml, 7):
                    strs += [p + "".join(ctx.rng.choice(alpha) for _ in range(n)) for p in prefixes for _ in range(500)]
            tasks += _chunks(fam, strs)
        else:
            depth = 3 if fam in ("noops", "backtick") else 2
            for p in prefixes:
                for n in range(ml + 1):
                    k = min(n, depth)
                    if len(alpha) ** (n - k) > 40000:
                        k = min(n, depth + 1)
                    for lead in itertools.product(alpha, repeat=k):
                        tasks.append((fam, ("enum", p, n, lead)))
        base = fam.split("-")[0]
        if fam == base and EXTRA.get(fam):
            tasks += _chunks(fam, EXTRA[fam])
    return tasks


def run(ctx, quick):
    """Correspondence of every modelled inline recogniser with the real function.  Returns coverage counts; on a disagreement
    appends to ctx.broken and returns the disagreeing requests under "bad" so that the caller can search for a property failure."""
    t0 = time.time()
    tasks = tasks_for(ctx, quick)
    ctx.rng.shuffle(tasks) if False else None
    t1 = time.time()
    with mp.get_context("fork").Pool(16) as pl:
        res = pl.map(_task, tasks, chunksize=1 if quick else 8)
    t2 = time.time()
    stats = collections.OrderedDict()
    for fam, ns, nr, kinds, distinct, bad, nbad, cpu in res:
        s = stats.setdefault(fam, {"strings": 0, "requests": 0, "accepting": 0, "errors": 0, "distinct_answers": 0, "mismatches": 0, "bad": [],
                                   "per_op": collections.Counter()})
        s["strings"] += ns; s["requests"] += nr; s["mismatches"] += nbad; s["distinct_answers"] += distinct
        s["bad"] += [{"request": list(q), "real": r, "model": m} for q, r, m in bad]
        for (op, k), n in kinds.items():
            s["per_op"][op] += n
            if k == "accepting":
                s["accepting"] += n
            elif k == "error":
                s["errors"] += n
    ok, real_re, model_re = regex_tie()
    if not ok:
        ctx.broken.append("correspondence inlinerecog/email-regex: the pattern in the source is not the modelled one: %r vs %r" % (real_re, model_re))
    total = sum(s["requests"] for s in stats.values())
    mism = sum(s["mismatches"] for s in stats.values())
    for fam, s in stats.items():
        s["per_op"] = dict(s["per_op"])
        s["bad"] = s["bad"][:20]
        if s["mismatches"]:
            ctx.broken.append("correspondence inlinerecog/%s: %d of %d requests disagree, e.g. %r" % (fam, s["mismatches"], s["requests"], s["bad"][0]))
    return {"families": stats, "email_regex_tie": ok, "requests": total, "mismatches": mism, "seconds": round(time.time() - t0, 1), "seconds_generate": round(t1 - t0, 1), "seconds_pool": round(t2 - t1, 1),
            "bad": [b for s in stats.values() for b in s["bad"]]}


if __name__ == "__main__":
    import json, sys
    tier = sys.argv[1] if len(sys.argv) > 1 else "quick"
    ctx = vlib.Ctx("C01", tier, int(sys.argv[2]) if len(sys.argv) > 2 else 1)
    r = run(ctx, tier == "quick")
    for fam, s in r["families"].items():
        print("%-14s strings %8d requests %9d accepting %8d errors %7d mismatches %d" % (fam, s["strings"], s["requests"], s["accepting"], s["errors"], s["mismatches"]))
        for b in s["bad"][:5]:
            print("     ", json.dumps(b))
    print("total requests", r["requests"], "mismatches", r["mismatches"], "seconds", r["seconds"], r["seconds_generate"], r["seconds_pool"])
    print("broken:", ctx.broken[:3])
