"""Correspondence of the list-start model (lean/Verif/Model/ListStarts.lean, driver `liststarts`) with the REAL functions of
pymarkdown/list_blocks/{list_block_starts_helper, list_block_pre_list_helper, list_block_can_close_helper}.py, called in-process.

Stacks are built from the REAL stack-token and markdown-token classes (DocumentStackToken, ParagraphStackToken, BlockQuoteStackToken,
Unordered/OrderedListStackToken with Unordered/OrderedListStartMarkdownToken and NewListItemMarkdownToken, FencedCodeBlockStackToken,
HtmlBlockStackToken, IndentedCodeBlockStackToken) inside a REAL `ParserState` whose `close_open_blocks_fn` is the REAL
`TokenizedMarkdown.__close_open_blocks`.  Nothing of the functions under test is re-implemented on the Python side.

Closed space
  S1 starts      all strings <= 6 over "-+*190.) \\ta" x every start index 0..len x STACKS x call conventions
                 (skip_whitespace_check, adj_ws None / "" / extracted) — `is_ulist_start` and `is_olist_start`
                 (every index -1..len+1 for length <= 3, 0..len for length 4 and 5; all call conventions for length <= 4, the primary one
                 (skip=False, adj_ws=None) for length 5 and for a seed-independent 1/24 hash slice of length 6, where only the start
                 indices whose character can begin a marker, or len, are taken)
  S2 pre_list    every S1 point (length <= 5) where the real function reports a start, x container_depth {0,1} x adj_ws {"", extracted}
                 x block-quote data variants; every (line, index) of length <= 3 whatever the verdict (the guard)
  S3 indents     `__calculate_indents` on a numeric grid
  S4 can_close   all stacks D + <= 4 entries over a pool of 9 entries x current_start_index 0..9 (`calculate_can_remove_list`)
                 x allow x column 0..7 (`close_required_lists`)
  S5 harvest     every call of the five public functions made by the real parser on the document pools of tools/docs.py
                 (d1, core d2 slice, families, nest_drop slice, corpus slice): arguments and stack serialised from the live objects,
                 the model run on the serialisation, results and the stack afterwards compared
  direct oracle  on list-free stacks the verdict and the content column are compared with the CommonMark side (ListStartsSpec, driver op
                 `s`); every difference must lie in a class excluded by a theorem (`*_excluded`), else it is a failing input.
Exceptions are part of the agreement (`err index`, `err assertion`, `err attribute`)."""
import itertools, multiprocessing as mp, os, sys, types

sys.path.insert(0, os.path.dirname(os.path.abspath(__file__)))
import vlib

H = vlib.hexs
ALPHA = "-+*190.) \ta"
MARKER_START = set("-+*190")

# ---------------------------------------------------------------- stack specifications (driver syntax)


def ent(kind, indent=0, lc="", wsb=0, wsa=0, last=-1, mti=None, col=1, line=1, lead=""):
    if mti is None:
        mti = indent
    return "%s;%d;%s;%d;%d;%d;%d;%d;%d;%s" % (kind, indent, H(lc), wsb, wsa, last, mti, col, line, H(lead))


D = ent("D", col=0, line=0)


def U(indent, ch="-", wsb=None, wsa=1, **kw):
    if wsb is None:
        wsb = max(0, indent - 1 - wsa)
    return ent("U", indent, ch, wsb, wsa, col=wsb + 1, **kw)


def O(indent, lc="1.", wsb=None, wsa=1, **kw):
    if wsb is None:
        wsb = max(0, indent - len(lc) - wsa)
    return ent("O", indent, lc, wsb, wsa, col=wsb + 1, **kw)


def Q(lead="", line=1, col=1):
    return ent("Q", lead=lead, line=line, col=col)


P, F, Hh, X = ent("P"), ent("F"), ent("H"), ent("X")
P2 = ent("P", line=2)

# (name, stack, [(skip, adj mode)])   adj mode: "n" None, "e" "", "w" = extracted whitespace
CONV_ALL = [(False, "n"), (True, "n"), (False, "e"), (False, "w")]
CONV_MIN = [(False, "n")]
STACKS = [
    ("none", [D], CONV_ALL),
    ("para", [D, P], CONV_ALL),
    ("ul2", [D, U(2)], CONV_ALL),
    ("ul4", [D, U(4, wsa=3)], CONV_MIN),
    ("ul4b", [D, U(4, wsb=2)], CONV_MIN),
    ("ol3", [D, O(3)], CONV_ALL),
    ("ol4p", [D, O(4, "12)")], CONV_MIN),
    ("ul2_ul4", [D, U(2), U(4, wsb=2)], CONV_ALL),
    ("ol3_ul5", [D, O(3), U(5, wsb=3)], CONV_MIN),
    ("ul2_ul4_ul6", [D, U(2), U(4, wsb=2), U(6, wsb=4)], CONV_MIN),
    ("ul2_para", [D, U(2), P], CONV_ALL),
    ("ulplus_para", [D, U(2, "+"), P], CONV_MIN),
    ("ol3_para", [D, O(3), P], CONV_ALL),
    ("olp_para", [D, O(3, "1)"), P], CONV_MIN),
    ("ul2_ul4_para", [D, U(2), U(4, wsb=2), P], CONV_MIN),
    ("quote", [D, Q()], CONV_MIN),
    ("quote_para", [D, Q(), P], CONV_MIN),
    ("quote_ul4", [D, Q(), U(4, wsb=2)], CONV_MIN),
    ("quote_lead_para", [D, Q("> "), P2], CONV_MIN),
    ("quote2_para", [D, Q("> \n> "), Q("> > \n> > "), P2], CONV_MIN),
    ("quote2_ul", [D, Q("> "), Q("> > "), U(6, wsb=4)], CONV_MIN),
    ("ul2_quote", [D, U(2), Q()], CONV_MIN),
    ("ul2_quote_para", [D, U(2), Q(), P], CONV_MIN),
    ("fenced", [D, F], CONV_MIN),
    ("ul2_fenced", [D, U(2), F], CONV_MIN),
    ("ul2_html", [D, U(2), Hh], CONV_MIN),
    ("ul2_mt5_fenced", [D, U(2, mti=5), F], CONV_MIN),
    ("ul2_last4", [D, U(2, last=4)], CONV_MIN),
    ("ul4_last2", [D, U(4, wsb=2, last=2)], CONV_MIN),
    ("icode", [D, X], CONV_MIN),
    # outside the callers' guarantee (the guard of `list_start_total`): no document at the bottom / empty list_character
    ("bad_para_only", [P], CONV_MIN),
    ("bad_fenced_only", [F], CONV_MIN),
    ("bad_empty", [], CONV_MIN),
    ("bad_nochar_para", [D, ent("U", 2, "", 0, 1), P], CONV_MIN),
]
LIST_FREE = {"none", "para", "quote", "quote_para", "icode", "quote_lead_para", "quote2_para"}
PARA_TOP = ("para", "quote_para", "quote_lead_para", "quote2_para")

# ---------------------------------------------------------------- real objects
_IMPL = {}


def impl():
    if _IMPL:
        return _IMPL
    from pymarkdown.list_blocks.list_block_starts_helper import ListBlockStartsHelper as LS
    from pymarkdown.list_blocks.list_block_pre_list_helper import ListBlockPreListHelper as PL
    from pymarkdown.list_blocks.list_block_can_close_helper import ListBlockCanCloseHelper as CC
    from pymarkdown.block_quotes.block_quote_data import BlockQuoteData
    from pymarkdown.general.position_marker import PositionMarker
    from pymarkdown.general.parser_state import ParserState
    from pymarkdown.general.tokenized_markdown import TokenizedMarkdown
    from pymarkdown.tokens import stack_token as ST
    from pymarkdown.tokens.paragraph_markdown_token import ParagraphMarkdownToken
    from pymarkdown.tokens.block_quote_markdown_token import BlockQuoteMarkdownToken
    from pymarkdown.tokens.unordered_list_start_markdown_token import UnorderedListStartMarkdownToken
    from pymarkdown.tokens.ordered_list_start_markdown_token import OrderedListStartMarkdownToken
    from pymarkdown.tokens.new_list_item_markdown_token import NewListItemMarkdownToken
    from pymarkdown.tokens.fenced_code_block_markdown_token import FencedCodeBlockMarkdownToken
    from pymarkdown.tokens.html_block_markdown_token import HtmlBlockMarkdownToken
    from pymarkdown.tokens.indented_code_block_markdown_token import IndentedCodeBlockMarkdownToken
    _IMPL.update(LS=LS, PL=PL, CC=CC, BQD=BlockQuoteData, PM=PositionMarker, PS=ParserState, ST=ST,
                 close=getattr(TokenizedMarkdown, "_TokenizedMarkdown__close_open_blocks"),
                 Para=ParagraphMarkdownToken, Bq=BlockQuoteMarkdownToken, Ul=UnorderedListStartMarkdownToken,
                 Ol=OrderedListStartMarkdownToken, Li=NewListItemMarkdownToken, Fen=FencedCodeBlockMarkdownToken,
                 Html=HtmlBlockMarkdownToken, Icode=IndentedCodeBlockMarkdownToken)
    return _IMPL


def _priv(cls, name):
    return getattr(cls, "_%s__%s" % (cls.__name__, name))


def build_entry(spec):
    """one driver-syntax entry -> a REAL stack token (with its REAL markdown token)"""
    I = impl()
    ST, PM = I["ST"], I["PM"]
    f = spec.split(";")
    kind = f[0]
    indent, lc, wsb, wsa, last, mti, col, line = int(f[1]), vlib.unhex(f[2]), int(f[3]), int(f[4]), int(f[5]), int(f[6]), int(f[7]), int(f[8])
    lead = vlib.unhex(f[9])
    pm = PM(line, max(col - 1, 0), "")
    if kind == "D":
        return ST.DocumentStackToken()
    if kind == "P":
        return ST.ParagraphStackToken(I["Para"]("", pm))
    if kind == "Q":
        tok = I["Bq"]("", pm)
        if lead:
            tok.add_bleading_spaces(lead, skip_adding_newline=True)
        return ST.BlockQuoteStackToken(tok)
    if kind == "U":
        tok = I["Ul"](lc[:1] or "-", mti, -1, " " * wsb, None, pm)
        s = ST.UnorderedListStackToken(indent, lc, wsb, wsa, wsb, tok)
    elif kind == "O":
        tok = I["Ol"](lc[-1:] or ".", lc[:-1] or "1", mti, -1, " " * wsb, None, pm)
        s = ST.OrderedListStackToken(indent, lc, wsb, wsa, wsb, tok)
    elif kind == "F":
        return ST.FencedCodeBlockStackToken("`", 3, 0, I["Fen"]("`", 3, "", "", "", "", "", "", pm))
    elif kind == "H":
        return ST.HtmlBlockStackToken("6", I["Html"](pm, ""))
    elif kind == "X":
        return ST.IndentedCodeBlockStackToken(I["Icode"]("    ", line, max(col, 1)))
    else:
        raise ValueError(spec)
    if last >= 0:
        s.set_last_new_list_token(I["Li"](last, pm, "", ""))
    return s


def build_state(entries):
    I = impl()
    stack = [build_entry(e) for e in entries]
    doc = [t.matching_markdown_token for t in stack if t.matching_markdown_token is not None]
    return I["PS"](stack, doc, I["close"], None, None)


def ser_entry(t):
    """a live stack token -> driver syntax (what the model reads of it)"""
    mt = t.matching_markdown_token
    col = mt.column_number if mt is not None else 0
    line = mt.line_number if mt is not None else 0
    if t.is_document:
        return ent("D", col=0, line=0)
    if t.is_list:
        last = t.last_new_list_token.indent_level if t.last_new_list_token else -1
        return ent("O" if t.is_ordered_list else "U", t.indent_level, t.list_character, t.ws_before_marker, t.ws_after_marker,
                   last, mt.indent_level, col, line)
    if t.is_block_quote:
        return ent("Q", col=col, line=line, lead=mt.bleading_spaces or "")
    k = "P" if t.is_paragraph else "F" if t.is_fenced_code_block else "H" if t.is_html_block else "X"
    return ent(k, col=col, line=line)


def ser_stack(stack):
    return ",".join(ser_entry(t) for t in stack)


def err_of(e):
    if isinstance(e, IndexError):
        return "err index"
    if isinstance(e, AssertionError):
        return "err assertion"
    if isinstance(e, AttributeError):
        return "err attribute"
    return "err " + type(e).__name__


def fmt_start(r):
    b, after, idx, nd = r
    return "%d|%d|%s|%s" % (1 if b else 0, after, "none" if idx is None else idx, "none" if nd is None else nd)


def real_start(kind, ps, line, start, ews, skip, adj):
    I = impl()
    try:
        f = I["LS"].is_ulist_start if kind == "u" else I["LS"].is_olist_start
        return fmt_start(f(ps, line, start, ews, skip, adj))
    except Exception as e:
        return err_of(e)


def req_start(kind, stack, line, start, ews, skip, adj):
    return "%s|%s|%s|%d|%s|%d|%d|%s" % (kind, stack, H(line), start, H(ews), skip, adj is not None, H(adj or ""))


def real_pre(ps, line, me, ews, mwm1, cur, sc, adj, pline, depth):
    I = impl()
    before = [t for t in ps.token_stack if t.is_block_quote]
    try:
        r = I["PL"].pre_list(ps, line, me, ews, mwm1, I["BQD"](cur, sc), adj, I["PM"](pline, 0, line), depth)
    except Exception as e:
        return err_of(e)
    il, rem, wsa, ai, wsb, toks, bqd = r
    gone = [t for t in before if not any(t is u for u in ps.token_stack)]
    leads = ",".join(H(t.matching_markdown_token.bleading_spaces or "") for t in gone)
    return "%d|%d|%d|%d|%d|%d|%d|%d|%s|%s" % (il, rem, wsa, ai, wsb, 1 if toks else 0, bqd.current_count, bqd.stack_count,
                                              ser_stack(ps.token_stack), leads)


def req_pre(stack, line, me, ews, mwm1, cur, sc, adj, pline, depth):
    return "p|%s|%s|%d|%s|%d|%d|%d|%s|%d|%d" % (stack, H(line), me, H(ews), mwm1, cur, sc, H(adj), pline, depth)


def real_indents(ai, size, mwm1, wa, wb, adj, depth):
    I = impl()
    try:
        return "%d|%d|%d" % _priv(I["PL"], "calculate_indents")(ai, size, mwm1, wa, wb, adj, depth)
    except Exception as e:
        return err_of(e)


def real_can_remove(ps, cs):
    I = impl()
    try:
        return "1" if I["CC"].calculate_can_remove_list(ps, cs) else "0"
    except Exception as e:
        return err_of(e)


def real_close_required(ps, allow, col):
    I = impl()
    calls = [0]
    orig = ps.close_open_blocks_fn

    def counting(*a, **k):
        calls[0] += 1
        return orig(*a, **k)
    ps2 = I["PS"](ps.token_stack, ps.token_document, counting, None, None)
    if col < 0:
        new_stack = I["ST"].DocumentStackToken()
    else:
        new_stack = I["ST"].UnorderedListStackToken(col + 1, "-", col - 1 if col else 0, 1, 0,
                                                    I["Ul"]("-", col + 1, -1, "", None, I["PM"](1, max(col - 1, 0), "")))
        assert new_stack.matching_markdown_token.column_number == max(col, 1)
    try:
        I["CC"].close_required_lists(ps2, allow, [], new_stack)
    except Exception as e:
        return err_of(e)
    return "%s|%d" % (ser_stack(ps2.token_stack), calls[0])


def ews_of(line, start):
    if start < 0:
        return ""
    j = min(start, len(line))
    while j > 0 and line[j - 1] in " \t":
        j -= 1
    return line[j:start]


def strings(n, alpha=ALPHA):
    for k in range(n + 1):
        for t in itertools.product(alpha, repeat=k):
            yield "".join(t)


# ---------------------------------------------------------------- S1 + S2 + direct oracle (one chunk of lines, every stack)
def starts_of(line, n_full):
    if len(line) <= 3:
        return range(-1, len(line) + 2)          # -1: what callers pass after the early exit of count_block_quote_starts; len+1: outside
    if len(line) <= n_full:
        return range(len(line) + 1)
    return [i for i in range(len(line) + 1) if i == len(line) or line[i] in MARKER_START]


def _work_starts(args):
    """args = (lines, stack ids, n_full, mode); mode "full": every call convention + pre_list + oracle; "primary": (skip=False, adj_ws=None)"""
    lines, stack_ids, n_full, mode = args
    from collections import Counter
    reqs, reals, meta = [], [], []
    counts = Counter()
    I = impl()
    fu, fo = I["LS"].is_ulist_start, I["LS"].is_olist_start
    hexl = {line: H(line) for line in lines}
    for si in stack_ids:
        name, entries, convs = STACKS[si]
        if mode != "full":
            convs = CONV_MIN
        sspec = ",".join(entries)
        ps = build_state(entries)          # the start recognisers do not change the state
        oracle = name in LIST_FREE
        in_para = 1 if name in PARA_TOP else 0
        for line in lines:
            hl = hexl[line]
            for start in starts_of(line, n_full):
                ews = ews_of(line, start)
                hews = H(ews)
                for skip, am in convs:
                    adj = None if am == "n" else "" if am == "e" else ews
                    tail = "|%s|%s|%d|%s|%d|%d|%s" % (sspec, hl, start, hews, skip, adj is not None, H(adj or ""))
                    for kind, fn in (("u", fu), ("o", fo)):
                        try:
                            r = fmt_start(fn(ps, line, start, ews, skip, adj))
                        except Exception as e:
                            r = err_of(e)
                        reqs.append(kind + tail)
                        reals.append(r)
                        meta.append(("start", name, kind, line, start, skip, am))
                        if r[0] == "1":
                            counts["start_yes_" + kind] += 1
                            if mode == "full" and len(line) <= 5 and not skip and am == "n":
                                _, _, idx, nd = r.split("|")
                                _pre_points(entries, sspec, name, line, int(idx), int(nd), ews, reqs, reals, meta, counts, start)
                        if oracle and not skip and am == "n" and start >= 0:
                            reqs.append("s|%s|%d|%s|%d" % (hl, start, hews, in_para))
                            reals.append(None)
                            meta.append(("spec", name, kind, line, start, r))
                if mode == "full" and len(line) <= 3 and start >= 0 and not name.startswith("bad"):
                    # the guard of pre_list: any index, whatever the verdict
                    for depth in (0, 1):
                        nq = sum(1 for e in entries if e.startswith("Q"))
                        reqs.append(req_pre(sspec, line, start, ews, 0, nq, nq, "", 1, depth))
                        reals.append(real_pre(build_state(entries), line, start, ews, 0, nq, nq, "", 1, depth))
                        meta.append(("pre_any", name, "p", line, start, depth))
    ans = vlib.Driver("liststarts").run(reqs)
    bad, fails = [], []
    counts["requests"] += len(reqs)
    for r, m, a in zip(reals, meta, ans):
        if m[0] == "spec":
            _oracle(m, a, counts, fails)
            continue
        if m[0] == "colspec":
            _oracle_col(m, a, counts, fails)
            continue
        counts[m[0]] += 1
        if r.startswith("err"):
            counts[m[0] + "_" + r] += 1
        if r != a:
            bad.append({"kind": m[0], "stack": m[1], "fn": m[2], "line": m[3], "index": m[4], "extra": list(m[5:]), "real": r, "model": a})
    return counts, bad[:40], fails[:40]


def _pre_points(entries, sspec, name, line, idx, nd, ews, reqs, reals, meta, counts, start=None):
    nq = sum(1 for e in entries if e.startswith("Q"))
    bq_variants = [(nq, nq)]
    if nq:
        bq_variants += [(0, nq), (nq - 1, nq)] if nq > 1 else [(0, nq)]
    else:
        bq_variants += [(0, 1)]          # stack_count without a block quote on the stack (inconsistent, outside the guard)
    for depth in (0, 1):
        for adj in ({"", ews} if ews else {""}):
            for cur, sc in bq_variants:
                for pline in (1, 2):
                    if pline == 2 and (cur, sc) == (nq, nq):
                        continue
                    ps = build_state(entries)
                    reqs.append(req_pre(sspec, line, idx, ews, nd, cur, sc, adj, pline, depth))
                    r = real_pre(ps, line, idx, ews, nd, cur, sc, adj, pline, depth)
                    reals.append(r)
                    meta.append(("pre", name, "p", line, idx, depth, adj, cur, sc, pline))
                    if start is not None and name in LIST_FREE and not r.startswith("err") and (cur, sc, pline) == (nq, nq, 1):
                        reqs.append("s|%s|%d|%s|0" % (H(line), start, H(ews)))
                        reals.append(None)
                        meta.append(("colspec", name, "p", line, start, r, depth, adj, ews))


def _oracle(m, spec, counts, fails):
    """direct oracle on list-free stacks: real verdict vs the CommonMark side; differences must be in an excluded class"""
    _, name, kind, line, start, r = m
    if r.startswith("err"):
        return
    counts["oracle"] += 1
    real_yes = r[0] == "1"
    f = spec.split("|")
    spec_marker = len(f) > 1 and (f[1] == "1") == (kind == "o")
    spec_yes = spec_marker and f[0] == "1"
    if name in PARA_TOP and spec_yes:
        spec_yes = f[5] == "1"
    if real_yes == spec_yes:
        counts["oracle_agree"] += 1
        return
    cls = classify_start_difference(line, start, kind, name)
    counts["oracle_excluded_" + cls] += 1
    if cls == "unexplained":
        fails.append({"kind": "oracle", "stack": name, "fn": kind, "line": line, "index": start, "real": r, "spec": spec})


def _cols(ws):
    n = 0
    for c in ws:
        n = (n // 4 + 1) * 4 if c == "\t" else n + 1
    return n


def _oracle_col(m, spec, counts, fails):
    """direct oracle: the indent_level pre_list computes vs the specification's indentation + W + N (content_column_spec_partial)"""
    _, name, _, line, start, r, depth, adj, ews = m
    f = spec.split("|")
    if len(f) < 6:
        return
    counts["col_oracle"] += 1
    indent = int(r.split("|")[0])
    content, n_pad = int(f[4]), int(f[3])
    if indent == content:
        counts["col_oracle_agree"] += 1
        return
    cols = _cols(ews)
    w = int(f[2])
    rest = line[start + w:]
    blank = rest.strip(" \t") == ""
    spaces = _cols_from(cols + w, rest[:len(rest) - len(rest.lstrip(" \t"))])
    if start != cols:
        cls = "index_not_column"                 # hcol: a tab (or text) before the marker; content_column_tab_excluded
    elif blank and rest and depth == 0 and len(adj) != cols:
        cls = "x1_adj_ws_length"                 # content_column_excluded (x1)
    elif blank and 2 <= spaces <= 4 and depth != 0:
        cls = "x2_nested_empty_item"             # content_column_excluded (x2)
    else:
        cls = "unexplained"
    counts["col_oracle_excluded_" + cls] += 1
    if cls == "unexplained":
        fails.append({"kind": "col_oracle", "stack": name, "line": line, "index": start, "depth": depth, "adj_ws": adj,
                      "real": r, "spec": spec})


def _cols_from(col, ws):
    n = col
    for c in ws:
        n = (n // 4 + 1) * 4 if c == "\t" else n + 1
    return n - col


def classify_start_difference(line, start, kind, name):
    """the classes excluded by theorems of Props/ListStarts.lean"""
    d = line[start:]
    if kind == "o" and name in PARA_TOP:
        digits = d[:len(d) - len(d.lstrip("0123456789"))]
        if digits != "1" and digits.strip("0") == "1" and digits.endswith("1"):
            return "leading_zero_one"          # interrupt_excluded: `01.` has start number 1, the code compares the text with "1"
    return "unexplained"


# ---------------------------------------------------------------- S3
def _work_indents(_):
    reqs, reals = [], []
    for eol in (0, 1):
        for mwm1 in range(0, 4):
            for wa in range(0, 9):
                for wb in range(0, 6):
                    for la in range(0, 4):
                        for depth in (0, 1, 2):
                            size = 10
                            ai = size if eol else 4
                            reqs.append("i|%d|%d|%d|%d|%d|%s|%d" % (ai, size, mwm1, wa, wb, H(" " * la), depth))
                            reals.append(real_indents(ai, size, mwm1, wa, wb, " " * la, depth))
    ans = vlib.Driver("liststarts").run(reqs)
    bad = [{"kind": "indents", "req": q, "real": r, "model": a} for q, r, a in zip(reqs, reals, ans) if r != a]
    return len(reqs), bad[:20]


# ---------------------------------------------------------------- S4
POOL = [U(2), U(4, wsb=2), U(6, wsb=4, wsa=1), O(3), O(5, "1)", wsb=2), U(3, wsa=2), Q(), P, F]


def stacks_s4(maxlen=4):
    for k in range(0, maxlen + 1):
        for t in itertools.product(range(len(POOL)), repeat=k):
            yield [D] + [POOL[i] for i in t]
    yield []
    yield [P]
    yield [U(2), U(4, wsb=2), P]          # no document at the bottom


def _work_close(stacks):
    from collections import Counter
    reqs, reals, kinds = [], [], []
    for entries in stacks:
        sspec = ",".join(entries)
        for cs in range(0, 10):
            reqs.append("r|%s|%d" % (sspec, cs))
            reals.append(real_can_remove(build_state(entries), cs))
            kinds.append("can_remove")
        for allow in (0, 1):
            for col in ((-1,) if not allow else ()) + tuple(range(0, 8)):
                if not allow and col > 1:
                    continue
                reqs.append("c|%s|%d|%d" % (sspec, allow, max(col, 1) if col >= 0 else -1))
                reals.append(real_close_required(build_state(entries), bool(allow), col))
                kinds.append("close_required")
    ans = vlib.Driver("liststarts").run(reqs)
    counts = Counter()
    bad = []
    for q, r, a, k in zip(reqs, reals, ans, kinds):
        counts[k] += 1
        if r.startswith("err"):
            counts[k + "_" + r] += 1
        elif k == "can_remove":
            counts["can_remove_" + r] += 1
        else:
            counts["close_calls_" + r.rsplit("|", 1)[1]] += 1
        if r != a:
            bad.append({"kind": k, "req": q, "real": r, "model": a})
    return counts, bad[:20]


# ---------------------------------------------------------------- S5 harvest
def _harvest_docs(quick, rng):
    import docs
    pools = []
    pools += list(docs.d1())
    fam = list(docs.families())
    pools += fam
    nd = list(docs.nest_drop())
    core = list(docs.dn(2, docs.CORE_PREFIX, docs.CORE_BODY))
    extra = ["> > a\n- b", "- -   \n    a", "a\n01. b", "-\t", "1.\t- x", "  - a\n- 1)", "- a\n  - b\n    - c\n- d", "1. a\n   1) b\n2. c",
             "> - a\n> - b\n>   - c\n> 1. d", "- a\n\n      b\n  - c", "- ```\n  - a\n  ```\n", "- <div>\n  - a\n", "   -    a\n       - b",
             "10. a\n    - b\n   - c", "- a\n - b\n  - c\n   - d\n    - e", "> 1. a\n>    - b\n> 2. c", "- > a\n  > - b\n- c",
             "* a\n+ b\n- c", "1. a\n1) b", "- a\n-\n- b", "- a\n  1. b\n  2.\n  3. c"]
    if quick:
        nd = rng.sample(nd, min(len(nd), 700))
        core = rng.sample(core, 1500)
        pools = rng.sample(pools, min(len(pools), 1200))
    else:
        core = core[::3]
    return extra + pools + nd + core


def _work_harvest(docs_chunk):
    """run the real parser with the five functions wrapped; every call is serialised BEFORE it runs, compared AFTER"""
    from collections import Counter
    import implib
    I = impl()
    LS, PL, CC = I["LS"], I["PL"], I["CC"]
    log = []          # (request, real answer, doc, fn)
    cur_doc = [None]
    counts = Counter()

    def has_linkdef(ps):
        return any(t.was_link_definition_started for t in ps.token_stack)

    def wrap(cls, name, mk_req, fmt, after=None):
        old = getattr(cls, name)

        def f(ps, *a, **k):
            try:
                rq = mk_req(ps, *a, **k)
            except Exception as e:      # serialisation must never disturb the parse
                counts["harvest_serialise_" + type(e).__name__] += 1
                rq = None
            state = after[0](ps) if after else None
            try:
                r = old(ps, *a, **k)
            except Exception as e:
                if rq is not None:
                    log.append((rq, err_of(e), cur_doc[0], name))
                raise
            if rq is not None:
                try:
                    log.append((rq, fmt(r, ps, state, *a), cur_doc[0], name))
                except Exception as e:
                    counts["harvest_format_" + type(e).__name__] += 1
            return r
        setattr(cls, name, staticmethod(f))
        return old

    def rq_start(kind):
        def mk(ps, line, start, ews, skip, adj=None):
            return req_start(kind, ser_stack(ps.token_stack), line, start, ews, skip, adj)
        return mk

    def rq_pre(ps, line, me, ews, mwm1, bqd, adj, pm, depth):
        if has_linkdef(ps):
            counts["harvest_skipped_linkdef"] += 1
            return None
        return req_pre(ser_stack(ps.token_stack), line, me, ews, mwm1, bqd.current_count, bqd.stack_count, adj, pm.line_number, depth)

    def fmt_pre(r, ps, before, *a):
        il, rem, wsa, ai, wsb, toks, bqd = r
        gone = [t for t in before if not any(t is u for u in ps.token_stack)]
        leads = ",".join(H(t.matching_markdown_token.bleading_spaces or "") for t in gone)
        return "%d|%d|%d|%d|%d|%d|%d|%d|%s|%s" % (il, rem, wsa, ai, wsb, 1 if toks else 0, bqd.current_count, bqd.stack_count,
                                                  ser_stack(ps.token_stack), leads)

    def rq_can(ps, cs):
        return "r|%s|%d" % (ser_stack(ps.token_stack), cs)

    def rq_close(ps, allow, bal, new_stack):
        if has_linkdef(ps):
            counts["harvest_skipped_linkdef"] += 1
            return None
        mt = new_stack.matching_markdown_token
        return "c|%s|%d|%d" % (ser_stack(ps.token_stack), allow, mt.column_number if mt is not None else -1)

    calls = [0]

    def fmt_close(r, ps, before, *a):
        return "%s|%s" % (ser_stack(ps.token_stack), "*")

    olds = [
        (LS, "is_ulist_start", wrap(LS, "is_ulist_start", rq_start("u"), lambda r, ps, s, *a: fmt_start(r))),
        (LS, "is_olist_start", wrap(LS, "is_olist_start", rq_start("o"), lambda r, ps, s, *a: fmt_start(r))),
        (PL, "pre_list", wrap(PL, "pre_list", rq_pre, fmt_pre, after=[lambda ps: [t for t in ps.token_stack if t.is_block_quote]])),
        (CC, "calculate_can_remove_list", wrap(CC, "calculate_can_remove_list", rq_can, lambda r, ps, s, *a: "1" if r else "0")),
        (CC, "close_required_lists", wrap(CC, "close_required_lists", rq_close, fmt_close)),
    ]
    import signal

    class _Timeout(BaseException):
        pass

    def _alarm(*_):
        raise _Timeout()
    signal.signal(signal.SIGPROF, _alarm)
    try:
        for d in docs_chunk:
            cur_doc[0] = d
            n0 = len(log)
            signal.setitimer(signal.ITIMER_PROF, 1.0)
            try:
                try:
                    implib.parser().transform(d)
                finally:
                    signal.setitimer(signal.ITIMER_PROF, 0)
                counts["harvest_docs_ok"] += 1
            except _Timeout:
                counts["harvest_docs_timeout"] += 1
                del log[n0 + 400:]          # a document on which the parser does not end (known: '  - a\\n- 1)') repeats its calls
            except Exception:
                counts["harvest_docs_raise"] += 1
    finally:
        for cls, name, old in olds:
            setattr(cls, name, old)
    # distinct requests only
    seen, reqs, items = set(), [], []
    for rq, r, d, fn in log:
        counts["harvest_calls_" + fn] += 1
        if (rq, r) in seen:
            continue
        seen.add((rq, r))
        reqs.append(rq)
        items.append((rq, r, d, fn))
    ans = vlib.Driver("liststarts").run(reqs)
    bad = []
    for (rq, r, d, fn), a in zip(items, ans):
        counts["harvest_distinct_" + fn] += 1
        if r.startswith("err"):
            counts["harvest_%s_%s" % (fn, r)] += 1
        if fn == "close_required_lists" and not r.startswith("err") and not a.startswith("err"):
            a = a.rsplit("|", 1)[0] + "|*"
        if r != a:
            bad.append({"kind": "harvest", "fn": fn, "doc": d, "req": rq, "real": r, "model": a})
    return counts, bad[:20]


# ---------------------------------------------------------------- branch coverage of the real functions
FILES = ("list_block_starts_helper.py", "list_block_pre_list_helper.py", "list_block_can_close_helper.py")


def _code_lines():
    """executable lines of the three modules (from their code objects), minus logging-only lines"""
    I = impl()
    out = {}
    for cls in (I["LS"], I["PL"], I["CC"]):
        mod = sys.modules[cls.__module__]
        fn = mod.__file__
        src = open(fn, encoding="utf-8").read().split("\n")
        lines = set()

        def walk(co):
            for _, _, ln in co.co_lines():
                if ln is not None:
                    lines.add(ln)
            for c in co.co_consts:
                if isinstance(c, types.CodeType):
                    walk(c)
        walk(compile("\n".join(src), fn, "exec"))
        out[os.path.basename(fn)] = (lines, src)
    return out


def coverage(run_fn):
    """run `run_fn()` with sys.monitoring LINE events on the three modules -> {file: sorted unreached executable lines}"""
    mon = sys.monitoring
    tool = 3
    hit = {}
    vlib.claim_tool(tool, "verif-liststarts")

    def on_line(code, line):
        b = os.path.basename(code.co_filename)
        if b in FILES:
            hit.setdefault(b, set()).add(line)
            return None
        return mon.DISABLE
    mon.register_callback(tool, mon.events.LINE, on_line)
    mon.set_events(tool, mon.events.LINE)
    try:
        run_fn()
    finally:
        mon.set_events(tool, 0)
        mon.free_tool_id(tool)
    res = {}
    for b, (lines, src) in _code_lines().items():
        body = set()
        for ln in lines:
            t = src[ln - 1].strip()
            if t.startswith(("def ", "class ", "@", '"""', "import ", "from ", "POGGER", ")", "(", "#")) or not t:
                continue
            body.add(ln)
        # lines inside a multi-line POGGER.debug(...) call are logging only
        logging_only = set()
        i = 0
        while i < len(src):
            if src[i].strip().startswith("POGGER."):
                depth = src[i].count("(") - src[i].count(")")
                j = i
                while depth > 0 and j + 1 < len(src):
                    j += 1
                    depth += src[j].count("(") - src[j].count(")")
                    logging_only.add(j + 1)
                i = j
            i += 1
        body -= logging_only
        got = hit.get(b, set())
        # a multi-line `assert (` reports its LINE event on the condition line
        missed = sorted(ln for ln in body - got if not (src[ln - 1].strip() == "assert (" and (ln + 1) in got))
        res[b] = {"executable": len(body), "hit": len(body) - len(missed), "unreached": [(ln, src[ln - 1].strip()[:70]) for ln in missed]}
    return res


def coverage_pass():
    """the synthetic spaces on short strings, in-process, under monitoring"""
    def go():
        for si, (name, entries, convs) in enumerate(STACKS):
            for line in strings(3):
                for start in range(len(line) + 1):
                    ews = ews_of(line, start)
                    for skip, am in convs:
                        adj = None if am == "n" else "" if am == "e" else ews
                        for kind in "uo":
                            r = real_start(kind, build_state(entries), line, start, ews, skip, adj)
                            if r[0] == "1" and not skip and am == "n":
                                _, _, idx, nd = r.split("|")
                                reqs, reals, meta = [], [], []
                                from collections import Counter
                                _pre_points(entries, "", name, line, int(idx), int(nd), ews, reqs, reals, meta, Counter())
        for entries in itertools.islice(stacks_s4(3), 0, 900):
            for cs in (0, 2, 3, 5):
                real_can_remove(build_state(entries), cs)
            for col in (1, 3, 5):
                real_close_required(build_state(entries), True, col)
            real_close_required(build_state(entries), False, -1)
    return coverage(go)


# ---------------------------------------------------------------- run
def hash_slice(lines, k):
    """seed-independent 1/k slice"""
    import hashlib
    return [x for x in lines if int(hashlib.sha1(x.encode()).hexdigest()[:8], 16) % k == 0]


def run(ctx, quick):
    from collections import Counter
    counts = Counter()
    bad, fails = [], []
    by_len = {n: ["".join(t) for t in itertools.product(ALPHA, repeat=n)] for n in range(0, 7)}
    total_lines = sum(len(v) for v in by_len.values())
    six = hash_slice(by_len[6], 24)
    if quick:
        full = by_len[0] + by_len[1] + by_len[2] + by_len[3] + ctx.rng.sample(by_len[4], 1200) + ctx.rng.sample(by_len[5], 600)
        primary = ctx.rng.sample(by_len[5], 2500) + ctx.rng.sample(six, 2500)
    else:
        full = by_len[0] + by_len[1] + by_len[2] + by_len[3] + by_len[4]
        primary = by_len[5] + six
    lines = full + primary
    ids_a = list(range(len(STACKS)))
    jobs = []
    for i in range(0, len(full), 150 if quick else 500):
        jobs.append((full[i:i + (150 if quick else 500)], ids_a, 5, "full"))
    for i in range(0, len(primary), 400 if quick else 3000):
        jobs.append((primary[i:i + (400 if quick else 3000)], ids_a, 5, "primary"))
    stacks4 = list(stacks_s4(4))
    total_s4 = len(stacks4)
    if quick:
        stacks4 = [s for s in stacks4 if len(s) <= 3] + ctx.rng.sample([s for s in stacks4 if len(s) > 3], 1500)
    hdocs = _harvest_docs(quick, ctx.rng)
    with mp.Pool(8) as p:
        r1 = p.imap_unordered(_work_starts, jobs)
        r4 = p.imap_unordered(_work_close, [stacks4[i:i + 300] for i in range(0, len(stacks4), 300)])
        r5 = p.imap_unordered(_work_harvest, [hdocs[i:i + 250] for i in range(0, len(hdocs), 250)])
        r3 = p.apply_async(_work_indents, (0,))
        for c, b, f in r1:
            counts.update(c)
            bad += b
            fails += f
        for c, b in r4:
            counts.update(c)
            bad += b
        for c, b in r5:
            counts.update(c)
            bad += b
        n3, b3 = r3.get()
        counts["indents"] = n3
        bad += b3
    cov = {"space": {"lines_total": total_lines, "lines_all_conventions": len(full), "lines_primary_convention": len(primary), "stacks": [s[0] for s in STACKS],
                     "s4_stacks_total": total_s4, "s4_stacks_run": len(stacks4), "harvest_docs": len(hdocs)},
           "counts": dict(sorted(counts.items()))}
    if not quick or os.environ.get("VERIF_LISTSTARTS_COVERAGE"):
        cov["branch_coverage"] = coverage_pass()
    if bad:
        ctx.broken.append("correspondence liststarts: %d disagreements (first: %r)" % (len(bad), bad[0]))
    if fails:
        ctx.broken.append("oracle liststarts: %d start verdicts differ from CommonMark outside the excluded classes (first: %r)" % (len(fails), fails[0]))
    cov["disagreements"] = bad[:50]
    cov["failing_inputs"] = fails[:50]
    cov["witnesses"] = real_witnesses()
    return cov


def real_witnesses():
    """the real code at the points the theorems exclude, with the document that shows each"""
    import implib
    out = {}

    def parse(d):
        try:
            return [str(t) for t in implib.parser().transform(d)]
        except Exception as e:
            c = e
            while (c.__cause__ or c.__context__) is not None:
                c = c.__cause__ or c.__context__
            return "raises %s: %s" % (type(c).__name__, c)
    out["interrupt_excluded: 'a\\n01. b' (CommonMark: a list, start number 1)"] = parse("a\n01. b")
    out["content_column_excluded: '- -   \\n    a' (CommonMark: a belongs to the inner, empty item)"] = parse("- -   \n    a")
    out["nest_assertion: '> > a\\n- b'"] = parse("> > a\n- b")
    out["guard: is_ulist_start on the stack [paragraph]"] = real_start("u", build_state([P]), "- a", 0, "", False, None)
    out["guard: list_character == '' below a paragraph"] = real_start("u", build_state([D, ent("U", 2, "", 0, 1), P]), "- a", 0, "", False, None)
    out["guard: pre_list outside the line"] = real_pre(build_state([D]), "-", 1, "", 0, 0, 0, "", 1, 0)
    out["known crash '-\\t' is NOT in these functions: same answers as '-   '"] = [
        real_start("u", build_state([D]), "-   ", 0, "", False, ""), real_pre(build_state([D]), "-   ", 0, "", 0, 0, 0, "", 1, 0), parse("-\t"), parse("-   ")]
    return out


if __name__ == "__main__":
    import random, time, json

    class _C:
        rng = random.Random(int(os.environ.get("VERIF_SEED", "1")))
        broken = []
    t0 = time.time()
    r = run(_C, quick=(len(sys.argv) < 2 or sys.argv[1] != "thorough"))
    print(json.dumps({k: v for k, v in r.items() if k not in ("disagreements", "failing_inputs")}, indent=1))
    for d in r["disagreements"][:15]:
        print("DISAGREE", d)
    for d in r["failing_inputs"][:15]:
        print("FAIL", d)
    print("disagreements: %d  failing_inputs: %d" % (len(r["disagreements"]), len(r["failing_inputs"])))
    print("broken:", _C.broken, "time %.1fs" % (time.time() - t0))
