"""Correspondence of the block-quote counting model (lean/Verif/Model/BqCount.lean, driver `bqcount`) with the REAL
`BlockQuoteCountHelper.count_block_quote_starts` (pymarkdown/block_quotes/block_quote_count_helper.py), called in-process.

The function only reads `parser_state.token_stack` (through `is_block_quote`, `is_list`, `indent_level`, `is_fenced_code_block`,
and the `matching_markdown_token` whose `weird_kludge_seven` it may set) and `parser_state.original_line_to_parse`; the harness hands
it stand-in objects with exactly those attributes (as tools/recoglib.py does), so that every stack configuration can be reached directly.

Space (closed): all strings over {`>`, space, tab, `a`, `-`} x every start index inside the string x the stack configurations CONFIGS
(list-free: length <= 7 for the three plain ones, <= 6 for the fenced / html ones; with lists and the inconsistent ones: <= 6);
start index == len(line) (outside the line, where the Python loop does not end) on all strings of length <= 2, under a CPU timer.
Compared: `current_count`, `start_index`, `last_block_quote_index`, `avoid_block_starts`, which stack tokens got
`weird_kludge_seven`, and exceptions by kind.  Direct oracle for the plain configurations: the count equals the independent
recursive specification (`specStack`, also evaluated by the driver) and, when `stack_count` covers the line, CommonMark's count."""
import itertools, multiprocessing as mp, signal, types
import vlib

H = vlib.hexs
ALPHA = "> \ta-"

# (name, stack, stack_count, current_count_in, fenced, html)
CONFIGS = [
    ("plain0", "D", 0, 0, 0, 0),
    ("plain1", "D,Q", 1, 1, 0, 0),
    ("plain2", "D,Q,Q", 2, 2, 0, 0),
    ("plain3p", "D,Q,Q,Q,O", 3, 3, 0, 0),
    ("fenced0", "D,F", 0, 0, 1, 0),
    ("fenced1", "D,Q,F", 1, 1, 1, 0),
    ("fenced2", "D,Q,Q,F", 2, 2, 1, 0),
    ("html0", "D,H", 0, 0, 0, 1),
    ("html1", "D,Q,H", 1, 1, 0, 1),
    ("html2", "D,Q,Q,H", 2, 2, 0, 1),
    ("list_in_quote", "D,Q,L2,Q", 2, 2, 0, 0),
    ("list4_in_quote_para", "D,Q,L4,Q,O", 2, 2, 0, 0),
    ("quote_in_list", "D,L2,Q", 1, 1, 0, 0),
    ("two_lists", "D,Q,L3,L5,Q,Q", 3, 3, 0, 0),
    ("count_exceeds_stack", "D,Q", 2, 1, 0, 0),
    ("list_on_top", "D,Q,L2", 2, 1, 0, 0),
]
LONG = {"plain0", "plain1", "plain2"}
LIST_FREE = {"plain0", "plain1", "plain2", "plain3p"}


class _Tok:
    def __init__(self, **kw):
        self.__dict__.update(kw)

    def __getattr__(self, name):
        if name.startswith("is_") or name.startswith("was_"):
            return False
        raise AttributeError(name)


def make_stack(spec):
    out = []
    for t in spec.split(","):
        if t == "D":
            out.append(_Tok(is_document=True))
        elif t == "Q":
            out.append(_Tok(is_block_quote=True, matching_markdown_token=types.SimpleNamespace(weird_kludge_seven=False)))
        elif t == "F":
            out.append(_Tok(is_fenced_code_block=True))
        elif t == "H":
            out.append(_Tok(is_html_block=True))
        elif t == "O":
            out.append(_Tok(is_paragraph=True))
        else:
            out.append(_Tok(is_list=True, indent_level=int(t[1:])))
    return out


_IMPL = {}


def impl():
    if not _IMPL:
        from pymarkdown.block_quotes.block_quote_count_helper import BlockQuoteCountHelper as BQ
        from pymarkdown.block_quotes.block_quote_data import BlockQuoteData
        _IMPL["BQ"], _IMPL["BQD"] = BQ, BlockQuoteData
    return _IMPL


class _Timeout(BaseException):
    pass


def _alarm(*_):
    raise _Timeout()


def real(line, osi, cfg, timer=False):
    I = impl()
    _, spec, sc, ci, fenced, html = cfg
    stack = make_stack(spec)
    ps = types.SimpleNamespace(token_stack=stack, original_line_to_parse=line)
    if timer:
        signal.setitimer(signal.ITIMER_PROF, 0.05)
    try:
        try:
            d, si, adj, last, avoid = I["BQ"].count_block_quote_starts(ps, line, osi, I["BQD"](ci, sc), bool(fenced), bool(html))
        finally:
            if timer:
                signal.setitimer(signal.ITIMER_PROF, 0)
    except _Timeout:
        return "err diverges"
    except IndexError:
        return "err index"
    except AssertionError:
        return "err assertion"
    except Exception as e:
        return "err " + type(e).__name__
    k7 = [str(i) for i, t in enumerate(stack) if t.is_block_quote and t.matching_markdown_token.weird_kludge_seven]
    extra = "" if adj == line else "|line-changed"
    return "%d|%d|%d|%d|%s%s" % (d.current_count, si, last, 1 if avoid else 0, ",".join(k7), extra)


def request(line, osi, cfg):
    _, spec, sc, ci, fenced, html = cfg
    return "c|%s|%d|%d|%d|%d|%d|%s|%s" % (H(line), osi, sc, ci, fenced, html, H(line), spec)


def strings(n):
    for k in range(n + 1):
        for t in itertools.product(ALPHA, repeat=k):
            yield "".join(t)


def _work(chunk):
    """chunk: [(line, osi, config index, timer)] -> (counts, mismatches)"""
    signal.signal(signal.SIGPROF, _alarm)
    reqs, reals, spec_reqs, spec_idx = [], [], [], []
    for line, osi, ci, timer in chunk:
        cfg = CONFIGS[ci]
        reqs.append(request(line, osi, cfg))
        reals.append(real(line, osi, cfg, timer))
        if cfg[0] in LIST_FREE and osi < len(line) and line[osi] == ">":
            spec_idx.append(len(reqs) - 1)
            spec_reqs.append("s|%s|%d|%d" % (H(line), osi, cfg[2]))
    ans = vlib.Driver("bqcount").run(reqs + spec_reqs)
    model, specs = ans[:len(reqs)], ans[len(reqs):]
    counts = {"calls": len(reqs), "raises": 0, "diverges": 0, "kludge7": 0, "spec_checked": 0, "spec_eq_commonmark": 0}
    bad = []
    for (line, osi, ci, _), rq, r, m in zip(chunk, reqs, reals, model):
        if r.startswith("err"):
            counts["raises" if r != "err diverges" else "diverges"] += 1
        elif r.split("|")[4]:
            counts["kludge7"] += 1
        if r != m:
            bad.append({"kind": "disagree", "line": line, "start": osi, "config": CONFIGS[ci][0], "real": r, "model": m})
    for k, sp in zip(spec_idx, specs):
        line, osi, ci, _ = chunk[k]
        r = reals[k]
        if r.startswith("err"):
            continue
        counts["spec_checked"] += 1
        s_stack, s_cm = sp.split("|")
        if r.split("|")[0] != s_stack:
            bad.append({"kind": "spec", "line": line, "start": osi, "config": CONFIGS[ci][0], "real": r, "spec": sp})
        if s_stack == s_cm:
            counts["spec_eq_commonmark"] += 1
    return counts, bad


def space(quick, rng):
    items = []
    for ci, cfg in enumerate(CONFIGS):
        n = 7 if cfg[0] in LONG else 6
        for s in strings(n):
            for k in range(len(s)):
                items.append((s, k, ci, False))
        for s in strings(2):
            items.append((s, len(s), ci, True))          # outside the line: the plain loop does not end
    total = len(items)
    if quick:
        short = [x for x in items if len(x[0]) <= 4]
        rest = [x for x in items if len(x[0]) > 4]
        items = short + rng.sample(rest, 250000)
    # spread the (slow) outside-the-line cases over the chunks
    slow = [x for x in items if x[3]]
    fast = [x for x in items if not x[3]]
    step = max(1, len(fast) // max(1, len(slow)))
    out = []
    for i, x in enumerate(fast):
        if i % step == 0 and slow:
            out.append(slow.pop())
        out.append(x)
    return out + slow, total


def run(ctx, quick):
    from collections import Counter
    items, total = space(quick, ctx.rng)
    chunks = [items[i:i + 40000] for i in range(0, len(items), 40000)]
    counts = Counter()
    bad = []
    with mp.Pool(min(16, len(chunks))) as p:
        for c, b in p.imap(_work, chunks):
            counts.update(c)
            bad += b
    cov = {"space": total, "run": len(items), "configs": [c[0] for c in CONFIGS], "counts": dict(counts)}
    dis = [b for b in bad if b["kind"] == "disagree"]
    sp = [b for b in bad if b["kind"] == "spec"]
    if dis:
        ctx.broken.append("correspondence bqcount: %d disagreements (first: %r)" % (len(dis), dis[0]))
    if sp:
        ctx.broken.append("oracle bqcount: %d counts differ from the recursive specification (first: %r)" % (len(sp), sp[0]))
    cov["disagreements"] = bad[:50]
    cov["witnesses"] = real_witnesses()
    return cov


def real_witnesses():
    """the real code at the points the `_partial` theorems exclude"""
    out = {}
    signal.signal(signal.SIGPROF, _alarm)
    # `>  >` : CommonMark counts two markers (the second indented by one column); the function counts one, and the container
    # processor finds the second one when it re-enters on the rest of the line
    out["indented_second_marker_count"] = real(">  >", 0, CONFIGS[0])
    import implib
    toks = implib.parser().transform(">  > a")
    out["indented_second_marker_parse"] = [str(t) for t in toks][:3]
    out["outside_the_line"] = real(">", 1, CONFIGS[0], timer=True)
    out["count_exceeds_stack"] = real("> a", 0, CONFIGS[14])
    out["list_on_top"] = real("> a", 0, CONFIGS[15])
    return out


if __name__ == "__main__":
    import random, sys, time, json

    class _C:
        rng = random.Random(1)
        broken = []
    t0 = time.time()
    r = run(_C, quick=(len(sys.argv) < 2 or sys.argv[1] != "thorough"))
    print(json.dumps({k: v for k, v in r.items() if k != "disagreements"}, indent=1))
    for d in r["disagreements"][:15]:
        print(d)
    print("broken:", _C.broken, "time %.1fs" % (time.time() - t0))
