"""Correspondence of the faithful models of five more token rules — MD023 MD030(fix) MD037 MD044 MD046
(lean/Verif/Model/TokenRules/Basic2.lean + Md0xx.lean, driver `tokenrules2`) — with the REAL rule classes of pymarkdown.

Same method as tools/tokenruleslib.py (whose real-side helpers are reused): per (rule, configuration, token stream) a real
`PluginManager` with exactly that rule enabled is driven as `FileScanHelper` drives it —
  scan : `starting_new_file()`, `next_token` for every token, `completed_file`       → the raw report list of the context
  fix  : `starting_new_file(fix_mode=True, fix_token_map=…, replace_tokens_list=…)`, … → the registered field requests as
         (index of the token, field, value) and the replacement records as (start index, end index, replacement tokens), then the
         REAL `FileScanHelper.__process_file_fix_tokens_apply_fixes_inner` on a deep copy → the tokens after the fix.
The plug-in instance is reset to its state right after configuration before every run (one `pymarkdown` process per file):
MD037 keeps `__pending_fixes` and MD023's `ContainerTokenManager` keeps `list_adjust_map` across `starting_new_file`.
Model side: the abstraction of the same stream (`abstract2`: kind + exactly the fields of `Tok2`) goes to `verifdrv tokenrules2`.
Both answers are rendered in the driver's answer syntax and compared as strings.

Per-rule material (configurations, synthetic alphabet, rule-targeted document family) lives in tools/tr2/md0xx.py :: SPEC.
Token streams: parsed (docs pools + the rule's own family) and synthetic (all lists ≤ N over the rule's alphabet of abstract
tokens, built into REAL token objects).  Thorough = all of it; quick = a `ctx.rng` sample plus everything short.
"""
import copy, importlib, itertools, os, sys
import multiprocessing as mp
import vlib, docs, implib
import tokenruleslib as T1

H = vlib.hexs
RULE_IDS = ["md046", "md037", "md030", "md044", "md023"]
# several rules in one pass (`Rule2.prod`): the level-1 pairs whose requests can name the same field of the same token
BUNDLES = ["md029+md030", "md023+md030"]

EXTRA = dict(endWs=None, startIdx=None, labelType="", linkTitle=None, preLinkTitle=None, activeUri="", beforeLinkWs=None,
             beforeTitleWs=None, boundChar=None, startTicks="", leadWs="", trailWs="", linkName="", destWs="", dest="",
             titleWs="", titleRaw="", pragmaLines=())
DEFAULT2 = dict(T1.DEFAULT, **EXTRA)
KINDS2 = set(T1.KINDS)


class Unabstractable(Exception):
    pass


def _index(toks, tok):
    for i, t in enumerate(toks):
        if t is tok:
            return i
    return None


# ------------------------------------------------------------------ abstraction: real token -> Tok2
def abstract2(t, toks):
    try:
        d = T1.abstract(t)
    except T1.Unabstractable as e:
        raise Unabstractable(str(e))
    d = dict(d, **EXTRA)
    name = d["kind"]
    if name == "text":
        d["endWs"] = t.end_whitespace
    elif name in ("link", "image"):
        d["labelType"], d["linkTitle"], d["preLinkTitle"] = t.label_type, t.link_title, t.pre_link_title
        d["activeUri"], d["beforeLinkWs"], d["beforeTitleWs"] = t.active_link_uri, t.before_link_whitespace, t.before_title_whitespace
        d["boundChar"] = t.inline_title_bounding_character
    elif name == "icode-span":
        d["startTicks"], d["leadWs"], d["trailWs"] = t.extracted_start_backticks, t.leading_whitespace, t.trailing_whitespace
    elif name == "link-ref-def":
        d["text"] = t.link_name_debug
        d["linkName"], d["destWs"], d["dest"] = t.link_name, t.link_destination_whitespace, t.link_destination
        d["titleWs"], d["titleRaw"], d["linkTitle"] = t.link_title_whitespace, t.link_title_raw, t.link_title
        if None in (d["text"], d["linkName"], d["destWs"], d["dest"], d["titleWs"], d["titleRaw"]):
            raise Unabstractable("link-ref-def with a None field")
    elif name == "raw-html":
        d["text"] = t.raw_tag
    elif name == "icode-block":
        d["leading"] = t.indented_whitespace
    elif name == "pragma":
        d["pragmaLines"] = tuple(t.pragma_lines.keys())     # dict (insertion) order: what the model's key list is (md046: `adjust_pragma_line_number` = del + insert)
    if name.startswith("end-") and name != "end-of-stream":
        d["startIdx"] = _index(toks, t.start_markdown_token)
    return d


def abstract_all(toks):
    return [abstract2(t, toks) for t in toks]


def _opt(s):
    return "-" if s is None else "=" + H(s)


def enc_tok2(d):
    return T1.enc_tok(d) + "," + ",".join([
        _opt(d["endWs"]), "-" if d["startIdx"] is None else str(d["startIdx"]), H(d["labelType"]), _opt(d["linkTitle"]),
        _opt(d["preLinkTitle"]), H(d["activeUri"]), _opt(d["beforeLinkWs"]), _opt(d["beforeTitleWs"]), _opt(d["boundChar"]),
        H(d["startTicks"]), H(d["leadWs"]), H(d["trailWs"]), H(d["linkName"]), H(d["destWs"]), H(d["dest"]), H(d["titleWs"]),
        H(d["titleRaw"]), "/".join(str(k) for k in d["pragmaLines"])])


def enc_toks2(ds):
    return ";".join(enc_tok2(d) for d in ds)


# ------------------------------------------------------------------ synthetic: Tok2 -> real token object
def build2(d, out):
    """A REAL token object for the abstract token `d`; `out` = the real tokens built so far (for `startIdx`)."""
    from pymarkdown.general.position_marker import PositionMarker
    from pymarkdown.tokens.markdown_token import EndMarkdownToken
    from pymarkdown.tokens.text_markdown_token import TextMarkdownToken
    from pymarkdown.tokens.paragraph_markdown_token import ParagraphMarkdownToken
    from pymarkdown.tokens.inline_code_span_markdown_token import InlineCodeSpanMarkdownToken
    from pymarkdown.tokens.raw_html_markdown_token import RawHtmlMarkdownToken
    from pymarkdown.tokens.indented_code_block_markdown_token import IndentedCodeBlockMarkdownToken
    from pymarkdown.tokens.html_block_markdown_token import HtmlBlockMarkdownToken
    from pymarkdown.tokens.hard_break_markdown_token import HardBreakMarkdownToken
    x = dict(DEFAULT2); x.update(d)
    k = x["kind"]
    pm = PositionMarker(x["line"], x["col"] - 1, "")
    if k == "text":
        return TextMarkdownToken(x["text"], x["ws"], end_whitespace=x["endWs"], line_number=x["line"], column_number=x["col"])
    if k == "icode-span":
        return InlineCodeSpanMarkdownToken(x["text"], x["startTicks"], x["leadWs"], x["trailWs"], x["line"], x["col"])
    if k == "raw-html":
        return RawHtmlMarkdownToken(x["text"], x["line"], x["col"])
    if k == "icode-block":
        t = IndentedCodeBlockMarkdownToken(x["ws"], x["line"], x["col"])
        if x["leading"]:
            t._IndentedCodeBlockMarkdownToken__indented_whitespace = x["leading"]
            t._IndentedCodeBlockMarkdownToken__compose_extra_data_field()
        return t
    if k == "html-block":
        return HtmlBlockMarkdownToken(pm, x["ws"])
    if k == "hard-break":
        return HardBreakMarkdownToken("\\", x["line"], x["col"])
    if k in ("link", "image"):
        from pymarkdown.links.link_helper_properties import LinkHelperProperties
        from pymarkdown.tokens.link_start_markdown_token import LinkStartMarkdownToken
        from pymarkdown.tokens.image_start_markdown_token import ImageStartMarkdownToken
        lhp = LinkHelperProperties()
        lhp.label_type, lhp.inline_link, lhp.ex_label = x["labelType"], x["activeUri"], ""
        lhp.inline_title, lhp.pre_inline_title = x["linkTitle"], x["preLinkTitle"]
        lhp.before_link_whitespace, lhp.before_title_whitespace = x["beforeLinkWs"], x["beforeTitleWs"]
        lhp.after_title_whitespace, lhp.pre_inline_link = "", x["activeUri"]
        lhp.bounding_character = x["boundChar"]
        if k == "link":
            return LinkStartMarkdownToken(x["text"], x["line"], x["col"], lhp)
        return ImageStartMarkdownToken("alt", x["text"], x["line"], x["col"], lhp)
    if k == "link-ref-def":
        from pymarkdown.tokens.link_reference_definition_markdown_token import LinkReferenceDefinitionMarkdownToken
        from pymarkdown.links.link_reference_titles import LinkReferenceTitles
        from pymarkdown.links.link_reference_info import LinkReferenceInfo
        return _build_lrd(x, pm)
    if k.startswith("end-") and k != "end-of-stream":
        si = x["startIdx"]
        start = out[si] if si is not None and si < len(out) else ParagraphMarkdownToken("", pm)
        return EndMarkdownToken(k[4:], x["ws"], x["endData"], start, False)
    return T1.build(x, None)


def _build_lrd(x, pm):
    import inspect
    from pymarkdown.tokens.link_reference_definition_markdown_token import LinkReferenceDefinitionMarkdownToken as L
    sig = list(inspect.signature(L.__init__).parameters)
    vals = dict(did_add_definition=True, extracted_whitespace=x["ws"], link_name=x["linkName"], link_value=None,
                link_debug=None, position_marker=pm)
    # constructor signatures differ between releases: build through the private fields
    t = L.__new__(L)
    from pymarkdown.tokens.leaf_markdown_token import LeafMarkdownToken
    from pymarkdown.tokens.markdown_token import MarkdownToken
    n = "_LinkReferenceDefinitionMarkdownToken__"
    for f, v in (("did_add_definition", True), ("link_name", x["linkName"]), ("link_name_debug", x["text"]),
                 ("link_destination_whitespace", x["destWs"]), ("link_destination", x["dest"]), ("link_destination_raw", x["dest"]),
                 ("link_title_whitespace", x["titleWs"]), ("link_title", x["linkTitle"] if x["linkTitle"] is not None else ""),
                 ("link_title_raw", x["titleRaw"]), ("end_whitespace", "")):
        setattr(t, n + f, v)
    LeafMarkdownToken.__init__(t, MarkdownToken._token_link_reference_definition, "", position_marker=pm, extracted_whitespace=x["ws"])
    return t


def build_all2(ds):
    out = []
    for d in ds:
        out.append(build2(d, out))
    return out


# ------------------------------------------------------------------ the real rule, alone, on a FRESH instance state
_PRISTINE = {}


def manager2(rule, cfg):
    pm = T1.manager(rule, cfg)
    key = id(pm)
    if key not in _PRISTINE:
        insts = [p.plugin_instance for p in pm.enabled_plugins]
        _PRISTINE[key] = (insts, [copy.deepcopy(i.__dict__) for i in insts])
    insts, snaps = _PRISTINE[key]
    for i, s in zip(insts, snaps):
        i.__dict__.clear()
        i.__dict__.update(copy.deepcopy(s))
    return pm


def _root(e):
    while e.__cause__ is not None:
        e = e.__cause__
    return type(e).__name__


def diff_enc2(before, after):
    if len(before) != len(after):
        return "%d:%s" % (len(after), ";".join("%d=%s" % (i, enc_tok2(d)) for i, d in enumerate(after)))
    return "%d:%s" % (len(after), ";".join("%d=%s" % (i, enc_tok2(a)) for i, (b, a) in enumerate(zip(before, after)) if a != b))


def _repl_toks(r):
    """The replacement tokens of a record, abstracted; a new end token names its start token by position in the list."""
    return [abstract2(t, r.replacement_tokens) for t in r.replacement_tokens]


def real_answer2(rule, cfg, toks, abstoks=None, want_fixed=False):
    from pymarkdown.plugin_manager.plugin_scan_context import PluginScanContext
    before = abstoks if abstoks is not None else abstract_all(toks)
    # ---- scan
    pm = manager2(rule, cfg)
    try:
        ctx = pm.starting_new_file("f.md")
        for t in toks:
            pm.next_token(ctx, t)
        pm.completed_file(ctx, -1)
        reps = ctx._PluginScanContext__reported
        scan = "ok " + ",".join("%d:%d:%s" % (r.line_number, r.column_number, _opt(r.extra_error_information)) for r in reps)
    except Exception as e:          # noqa: BLE001 — the exception class IS the observation
        scan = "err " + _root(e)
    # ---- fix: requests
    pm = manager2(rule, cfg)
    fm, rl = {}, []
    try:
        ctx = pm.starting_new_file("f.md", fix_mode=True, fix_token_map=fm, replace_tokens_list=rl)
        for t in toks:
            pm.next_token(ctx, t)
        pm.completed_file(ctx, -1)
        # registration order: the model lists the requests in the order they are registered; the dict groups them by token
        recs = [r for v in fm.values() for r in v]
        reqs = "ok " + ",".join("%s:%s:%s" % (_index(toks, r.token_to_fix), r.field_name, T1._val(r.field_value)) for r in recs)
        if rl:
            reqs += "#" + ",".join("%s-%s=%s" % (_index(toks, r.start_token), _index(toks, r.end_token), enc_toks2(_repl_toks(r))) for r in rl)
    except Exception as e:          # noqa: BLE001
        ans = scan + "|err " + _root(e) + "|err " + _root(e)
        return (ans, None) if want_fixed else ans
    if not fm and not rl:
        ans = scan + "|" + reqs + "|ok " + diff_enc2(before, before)
        return (ans, None) if want_fixed else ans
    toks2, fm2, rl2 = copy.deepcopy((toks, fm, rl))
    ctx2 = PluginScanContext(pm, "f.md", True, None, fm2, rl2)
    try:
        T1._apply_inner()(ctx2, False, toks2, rl2, fm2)
        fixed = "ok " + diff_enc2(before, abstract_all(toks2))
    except Exception as e:          # noqa: BLE001
        ans = scan + "|" + reqs + "|err " + _root(e)
        return (ans, None) if want_fixed else ans
    ans = scan + "|" + reqs + "|" + fixed
    return (ans, toks2) if want_fixed else ans


def group_reqs(model_reqs):
    """The model lists field requests in registration order; the real `fix_token_map` lists them grouped by token in order of each
    token's first request.  Regroup the model's answer the same way (stable)."""
    if not model_reqs.startswith("ok "):
        return model_reqs
    body, sep, repl = model_reqs[3:].partition("#")
    if not body:
        return model_reqs
    items = body.split(",")
    order, groups = [], {}
    for it in items:
        k = it.split(":", 1)[0]
        if k not in groups:
            groups[k] = []
            order.append(k)
        groups[k].append(it)
    return "ok " + ",".join(x for k in order for x in groups[k]) + sep + repl


# ------------------------------------------------------------------ rule specs
def spec(rule):
    """SPEC of a rule, or of a bundle `mdA+mdB` (several rules in ONE pass; module tr2/mdA_mdB.py, cfg = {rule: {key: value}})."""
    return importlib.import_module("tr2." + rule.replace("+", "_")).SPEC


def specs(rules):
    return {r: spec(r) for r in rules}


def available():
    out = []
    for r in RULE_IDS + BUNDLES:
        try:
            spec(r)
            out.append(r)
        except ModuleNotFoundError:
            pass
    return out


def enc_cfg(rule, cfg):
    hexkeys = spec(rule).get("hexkeys", ())
    if "+" in rule:          # bundle: {rule: {key: value}} → rule.key=value
        cfg = {r + "." + k: v for r, c in cfg.items() for k, v in c.items()}
    out = []
    for k, v in sorted(cfg.items()):
        if k in hexkeys:
            out.append("%s=%s" % (k, H(v)))
        elif isinstance(v, bool):
            out.append("%s=%d" % (k, 1 if v else 0))
        else:
            out.append("%s=%s" % (k, v))
    return ";".join(out)


def jobs_of(rules):
    return [(r, c) for r in rules for c in spec(r)["cfgs"]]


def enc_jobs(jobs):
    return "&".join("%s~%s" % (r, enc_cfg(r, c)) for r, c in jobs)


# ------------------------------------------------------------------ document spaces
def parse(src, extensions=None):
    from pymarkdown.general.source_providers import InMemorySourceProvider
    tk = implib.parser(extensions)
    return tk.transform_from_provider(InMemorySourceProvider(src), do_add_end_of_stream_token=True)


def doc_space(quick, rng, rules):
    fam = docs.families()
    corpus = docs.repo_sources()
    res = [t for _, t in docs.rule_resources()]
    nest = docs.hash_slice(docs.nest_drop(), 1500, "tokenrules2")
    if quick:
        fam = docs.sample(rng, fam, 120)
        corpus = docs.sample(rng, corpus, 120)
        res = docs.sample(rng, res, 160)
        nest = docs.sample(rng, nest, 40)
    pools = [("families", fam), ("corpus", corpus), ("resources", res), ("nest_drop", nest)]
    for r in rules:
        fn = spec(r).get("docs")
        if fn:
            own = list(fn())
            if quick:
                own = docs.sample(rng, own, spec(r).get("quick_docs", 150))
            pools.append(("family " + r, own))
    seen, out = set(), []
    for tag, ds in pools:
        for d in ds:
            if d not in seen:
                seen.add(d)
                out.append((tag, d))
    return out


# ------------------------------------------------------------------ line coverage of the real rule modules
def cover_files(rules):
    import pymarkdown
    base = os.path.dirname(pymarkdown.__file__)
    fs = set()
    for r in rules:
        for part in r.split("+"):
            fs.add(os.path.join(base, "plugins", "rule_md_%s.py" % part[2:]))
        for extra in spec(r).get("cover", ()):
            fs.add(os.path.join(base, extra))
    return fs


class Cover:
    """Executed lines of the given files (sys.monitoring LINE events; each location reports once)."""

    def __init__(self, files):
        self.files, self.hit = set(files), {}
        self.tool = None

    def __enter__(self):
        mon = sys.monitoring
        for tool in (3,):
            vlib.claim_tool(tool, "verif-tr2")
            self.tool = tool
        if self.tool is None:
            return self

        def on_line(code, line):
            if code.co_filename in self.files:
                self.hit.setdefault(code.co_filename, set()).add(line)
            return mon.DISABLE
        mon.register_callback(self.tool, mon.events.LINE, on_line)
        mon.set_events(self.tool, mon.events.LINE)
        return self

    def __exit__(self, *a):
        if self.tool is not None:
            mon = sys.monitoring
            mon.set_events(self.tool, 0)
            mon.register_callback(self.tool, mon.events.LINE, None)
            mon.free_tool_id(self.tool)


def executable_lines(path):
    import ast, dis
    code = compile(open(path, encoding="utf-8").read(), path, "exec")
    lines, stack = set(), [code]
    while stack:
        c = stack.pop()
        for k in c.co_consts:
            if hasattr(k, "co_code"):
                stack.append(k)
        if c.co_name == "<module>" or not (c.co_flags & 0x1):      # module and class bodies run at import time, before the monitor
            continue
        lines.update(l for _, _, l in c.co_lines() if l is not None and l != c.co_firstlineno)
    return lines


# ------------------------------------------------------------------ workers
def _work_docs(args):
    chunk, rules, quick = args
    jobs = jobs_of(rules)
    out = []
    with Cover(cover_files(rules)) as cv:
        for tag, src in chunk:
            try:
                toks = parse(src)
            except Exception as e:      # noqa: BLE001 — parser failures are C01's business
                out.append((tag, src, None, "parse " + type(e).__name__))
                continue
            try:
                abst = abstract_all(toks)
            except Unabstractable as e:
                out.append((tag, src, None, "unabstractable " + str(e)))
                continue
            req = enc_jobs(jobs) + "|" + enc_toks2(abst)
            reals = [real_answer2(r, c, toks, abst) for r, c in jobs]
            out.append((tag, src, req, "&".join(reals)))
    return out, {f: sorted(l) for f, l in cv.hit.items()}


def _work_synth(args):
    rule, lists = args
    jobs = jobs_of([rule])
    out = []
    with Cover(cover_files([rule])) as cv:
        for ds in lists:
            full = [dict(DEFAULT2, **d) for d in ds]
            try:
                toks = build_all2(full)
                abst = abstract_all(toks)
            except Exception as e:          # noqa: BLE001
                out.append(("synthetic", ds, None, "build " + type(e).__name__ + " " + str(e)[:80]))
                continue
            if abst != full:
                out.append(("synthetic", ds, None, "abstract(build(d)) != d: " + repr([(a, b) for a, b in zip(abst, full) if a != b][:1])[:300]))
                continue
            req = enc_jobs(jobs) + "|" + enc_toks2(abst)
            real = "&".join(real_answer2(r, c, toks, abst) for r, c in jobs)
            out.append(("synthetic", ds, req, real))
    return out, {f: sorted(l) for f, l in cv.hit.items()}


def synth_lists(rule, quick, rng):
    sp = spec(rule)
    alpha, n = sp.get("alphabet", []), sp.get("maxlen", 0)
    lists = [list(p) for k in range(n + 1) for p in itertools.product(alpha, repeat=k)] if alpha else []
    filt = sp.get("synth_filter")
    if filt:
        lists = [l for l in lists if filt(l)]
    fixup = sp.get("synth_fixup")
    if fixup:
        lists = [fixup(l) for l in lists]
    lists += [list(l) for l in sp.get("synth_extra", [])]
    cap = sp.get("quick_synth", 700)
    if quick and len(lists) > cap:
        short = [l for l in lists if len(l) <= 2]
        lists = short + rng.sample([l for l in lists if len(l) > 2], cap)
    return lists


def _chunks(seq, n):
    seq = list(seq)
    k = max(1, (len(seq) + n - 1) // n)
    return [seq[i:i + k] for i in range(0, len(seq), k)]


def _dispatch(w):
    if w[0] == "S":
        return _work_synth((w[1], w[2]))
    return _work_docs(w)


def run(ctx, quick, rules=None):
    """Correspondence real rule class ↔ model.  Returns coverage counts (+ `disagreements`, `not_wf`, `failing_inputs`)."""
    import time as _t
    rules = list(rules or available())
    rng = ctx.rng
    cov = {"rules": rules, "jobs": len(jobs_of(rules))}
    space = doc_space(quick, rng, rules)
    work = [(c, rules, quick) for c in _chunks(space, 48)]
    for r in rules:
        lists = synth_lists(r, quick, rng)
        cov["synthetic " + r] = len(lists)
        work += [("S", r, c) for c in _chunks(lists, 24)]
    t0 = _t.time()
    with mp.Pool(8) as pool:
        parts = pool.map(_dispatch, work, chunksize=1)
    cov["seconds real side"] = round(_t.time() - t0, 1)
    results, hit = [], {}
    for p, h in parts:
        results += p
        for f, ls in h.items():
            hit.setdefault(f, set()).update(ls)
    bad_harness = [(x[0], x[1], x[3]) for x in results if x[2] is None]
    good = [x for x in results if x[2] is not None]
    t0 = _t.time()
    answers = vlib.Driver("tokenrules2").run([x[2] for x in good])
    cov["seconds model side"] = round(_t.time() - t0, 1)
    disagreements, not_wf, failing = [], [], []
    per = {r: dict(comparisons=0, reports=0, field_requests=0, replacements=0, errors={}, fixed_streams=0) for r in rules}
    for (tag, src, req, real), ans in zip(good, answers):
        jobs = req.split("|", 1)[0].split("&")
        m_parts, r_parts = ans.split("&"), real.split("&")
        if len(m_parts) != len(jobs) or len(r_parts) != len(jobs):
            disagreements.append(dict(space=tag, input=src, job="*", real=real[:300], model=ans[:300]))
            continue
        for job, m, r in zip(jobs, m_parts, r_parts):
            rule = job.split("~")[0]
            body, wf = T1.strip_wf(m)
            st = per[rule]
            st["comparisons"] += 1
            if tag != "synthetic" and wf != "1" and not spec(rule).get("wf_may_fail"):
                not_wf.append(dict(space=tag, input=src, job=job))
            rs = r.split("|")
            st["reports"] += 0 if rs[0] in ("ok ", "") or rs[0].startswith("err") else rs[0].count(",") + 1
            if len(rs) > 1 and rs[1].startswith("ok ") and rs[1] != "ok ":
                fld, _, rep = rs[1][3:].partition("#")
                st["field_requests"] += (fld.count(",") + 1) if fld else 0
                st["replacements"] += (rep.count("=") if rep else 0)
            if len(rs) > 2 and rs[2].startswith("ok ") and not rs[2].endswith(":"):
                st["fixed_streams"] += 1
            for x in rs:
                if x.startswith("err"):
                    st["errors"][x[4:]] = st["errors"].get(x[4:], 0) + 1
            if tag != "synthetic" and any(x.startswith("err") for x in rs):
                failing.append(dict(rule=rule, job=job, document=src, real=r[:200]))
            mb = body.split("|")
            if len(mb) == 3:
                mb[1] = group_reqs(mb[1])
                body = "|".join(mb)
            if body != r:
                disagreements.append(dict(space=tag, input=src, job=job, real=r, model=body))
    # CPython behaviour that is part of a rule (`str.lower`, `str.isalnum`, `str.find`, …): the model's tables against CPython
    for r in rules:
        fn = spec(r).get("cpython_check")
        if fn:
            bad = fn()
            cov["cpython table mismatches " + r] = len(bad)
            disagreements += [dict(space="cpython", input=str(m)[:300], job=r, real="cpython", model="table") for m in bad]
    # rule-specific report-only measurements (document-level transfer of the token-level theorems)
    for r in rules:
        fn = spec(r).get("post")
        if fn:
            cov["post " + r] = fn(quick, rng)
            failing += cov["post " + r].pop("failing_inputs", [])
    # line coverage of the rule modules
    cover = {}
    for f in sorted(cover_files(rules)):
        ex = executable_lines(f)
        got = hit.get(f, set()) & ex
        cover[os.path.basename(f)] = dict(executable=len(ex), hit=len(got), unreached=sorted(ex - got))
    cov.update({"documents": len(space), "streams": len(good), "per_rule": per, "harness skips": len(bad_harness),
                "skips": bad_harness[:10], "line_coverage": cover,
                "disagreements": disagreements, "not_wf": not_wf, "failing_inputs": failing})
    if disagreements:
        ctx.broken.append("correspondence tokenrules2: %d disagreements, first %r" % (len(disagreements), disagreements[0]))
    if not_wf:
        ctx.broken.append("tokenrules2 well-formedness predicate false on a real stream: %r" % (not_wf[0],))
    return cov


def compact(d, width=70):
    """One disagreement, short: which part differs and the text around the first difference."""
    r, m = d["real"].split("|"), d["model"].split("|")
    out = ["DIS %s %s input=%r" % (d["space"], d["job"], d["input"] if isinstance(d["input"], str) else [x.get("kind") + ":" + repr({k: v for k, v in x.items() if k not in ("kind", "line", "col")}) for x in d["input"]])]
    for name, a, b in zip(("scan", "reqs", "fixed"), r + [""] * 3, m + [""] * 3):
        if a != b:
            k = next((i for i, (x, y) in enumerate(zip(a, b)) if x != y), min(len(a), len(b)))
            out.append("  %s differs at %d: real …%s… model …%s…" % (name, k, a[max(0, k - width):k + width], b[max(0, k - width):k + width]))
    return "\n".join(out)[:1500]


if __name__ == "__main__":
    import json, random, time

    class _C:
        rng = random.Random(1)
        broken = []
    t0 = time.time()
    quick = "--thorough" not in sys.argv
    rules = [a for a in sys.argv[1:] if a in RULE_IDS or "+" in a] or None
    cov = run(_C, quick, rules)
    for a in sys.argv:
        if a.startswith("--dump="):
            json.dump(cov, open(a[7:], "w"), default=str)
    dis, nwf, fail = cov.pop("disagreements"), cov.pop("not_wf"), cov.pop("failing_inputs")
    cov.pop("skips") if not cov.get("harness skips") else None
    if "skips" in cov:
        cov["skips"] = [(a, str(b)[:200], c[:200]) for a, b, c in cov["skips"][:3]]
    print(json.dumps(cov, default=str)[:3000])
    print("disagreements", len(dis), "not_wf", len(nwf), "failing_inputs", len(fail), "time %.1fs" % (time.time() - t0))
    for d in dis[:int(os.environ.get("TR2_SHOW", "4"))]:
        print(compact(d))
    for d in nwf[:5]:
        print("NOTWF", json.dumps(d, default=str)[:600])
    seen = set()
    for d in fail:
        k = (d["rule"], d["real"])
        if k not in seen:
            seen.add(k); print("FAILING", json.dumps(d, default=str)[:500])
