"""Correspondence of the faithful token-rule models (lean/Verif/Model/TokenRules/*.lean, driver `tokenrules`) with the
REAL rule classes of pymarkdown.

Real side, per (rule, configuration, token stream): a real `PluginManager` with exactly that rule enabled and configured
is driven as `FileScanHelper.__process_file_fix_tokens` / `__process_file_scan` drive it —
  scan : `starting_new_file()`, `next_token` for every token, `completed_file`   → the raw report list of the context
  fix  : `starting_new_file(fix_mode=True, fix_token_map=…, replace_tokens_list=…)`, `next_token`…, `completed_file`
         → the registered requests as (index of the token in the stream, field, value), then the REAL
         `FileScanHelper.__process_file_fix_tokens_apply_fixes_inner` on a deep copy of the stream → the tokens after the fix.
Model side: the abstraction of the same stream (`abstract`: kind + exactly the fields of `Tok`) goes to `verifdrv tokenrules`.
Both answers are rendered in the driver's answer syntax and compared as strings.

Token streams:
  * parsed: the REAL parser's stream of every document of `docs.families()`, `docs.repo_sources()` (corpus),
    `docs.rule_resources()`, a hash slice of `docs.nest_drop()` and the closed family `extra_docs()` below;
  * synthetic: every list of length ≤ N over a per-rule alphabet of abstract tokens, built into REAL token objects with the
    real constructors (`build`) — shapes the parser never produces (unbalanced ends, level-0 headings, …).
Thorough = all of it; quick = a `ctx.rng` sample of the same space plus everything short.
"""
import copy, itertools, os, sys
import multiprocessing as mp
import vlib, docs, implib

H = vlib.hexs

FIELDS = ["kind", "line", "col", "hashCount", "trailing", "keys", "seq", "content", "indent", "ws", "leading",
          "startChar", "rest", "fenceChar", "text", "endData"]
DEFAULT = dict(kind="para", line=0, col=0, hashCount=0, trailing=0, keys=(), seq="", content="", indent=0, ws="",
               leading=None, startChar="", rest="", fenceChar="", text="", endData=None)

KINDS = {"atx", "end-atx", "setext", "end-setext", "front-matter", "para", "end-para", "text", "BLANK", "tbreak",
         "fcode-block", "end-fcode-block", "icode-block", "end-icode-block", "html-block", "end-html-block", "link-ref-def",
         "ulist", "end-ulist", "olist", "end-olist", "li", "block-quote", "end-block-quote", "icode-span", "raw-html",
         "link", "end-link", "image", "emphasis", "end-emphasis", "hard-break", "autolink", "end-of-stream", "pragma"}
KIND_ALIAS = {"uri-autolink": "autolink", "email-autolink": "autolink", "task-list": "autolink"}


class Unabstractable(Exception):
    pass


# ------------------------------------------------------------------ abstraction: real token -> Tok
def abstract(t):
    name = t.token_name
    name = KIND_ALIAS.get(name, name)
    if name not in KINDS:
        raise Unabstractable(name)
    d = dict(DEFAULT)
    d["kind"], d["line"], d["col"] = name, t.line_number, t.column_number
    ws = getattr(t, "extracted_whitespace", None)
    if isinstance(ws, str):
        d["ws"] = ws
    if name == "atx":
        d["hashCount"], d["trailing"] = t.hash_count, t.remove_trailing_count
    elif name == "setext":
        d["hashCount"] = t.hash_count
    elif name == "front-matter":
        d["keys"] = tuple(t.matter_map.keys())
    elif name in ("ulist", "olist"):
        d["seq"], d["indent"], d["leading"] = t.list_start_sequence, t.indent_level, t.leading_spaces
        d["content"] = t.list_start_content if name == "olist" else ""
    elif name == "li":
        d["content"], d["indent"] = t.list_start_content, t.indent_level
    elif name == "block-quote":
        d["leading"] = t.bleading_spaces
    elif name == "tbreak":
        d["startChar"], d["rest"] = t._ThematicBreakMarkdownToken__start_character, t.rest_of_line
    elif name == "fcode-block":
        d["fenceChar"] = t.fence_character
    elif name == "text":
        d["text"] = t.token_text
    elif name == "icode-span":
        d["text"] = t.span_text
    elif name in ("link", "image"):
        d["text"] = t.text_from_blocks
    elif name == "link-ref-def":
        d["text"] = t.link_name_debug or ""
    elif name.startswith("end-") and name != "end-of-stream":
        d["endData"] = t.extra_end_data
    return d


def _opt(s):
    return "-" if s is None else "=" + H(s)


def enc_tok(d):
    return ",".join([d["kind"], str(d["line"]), str(d["col"]), str(d["hashCount"]), str(d["trailing"]),
                     "/".join(H(k) for k in d["keys"]), H(d["seq"]), H(d["content"]), str(d["indent"]), H(d["ws"]),
                     _opt(d["leading"]), H(d["startChar"]), H(d["rest"]), H(d["fenceChar"]), H(d["text"]), _opt(d["endData"])])


def enc_toks(ds):
    return ";".join(enc_tok(d) for d in ds)


# ------------------------------------------------------------------ synthetic: Tok -> real token object
def build(d, prev=None):
    """A REAL token object for the abstract token `d` (fields not in `d` take `DEFAULT`)."""
    from pymarkdown.general.position_marker import PositionMarker
    from pymarkdown.tokens.markdown_token import EndMarkdownToken
    from pymarkdown.tokens.atx_heading_markdown_token import AtxHeadingMarkdownToken
    from pymarkdown.tokens.setext_heading_markdown_token import SetextHeadingMarkdownToken
    from pymarkdown.tokens.paragraph_markdown_token import ParagraphMarkdownToken
    from pymarkdown.tokens.blank_line_markdown_token import BlankLineMarkdownToken
    from pymarkdown.tokens.text_markdown_token import TextMarkdownToken
    from pymarkdown.tokens.thematic_break_markdown_token import ThematicBreakMarkdownToken
    from pymarkdown.tokens.fenced_code_block_markdown_token import FencedCodeBlockMarkdownToken
    from pymarkdown.tokens.indented_code_block_markdown_token import IndentedCodeBlockMarkdownToken
    from pymarkdown.tokens.unordered_list_start_markdown_token import UnorderedListStartMarkdownToken
    from pymarkdown.tokens.ordered_list_start_markdown_token import OrderedListStartMarkdownToken
    from pymarkdown.tokens.new_list_item_markdown_token import NewListItemMarkdownToken
    from pymarkdown.tokens.block_quote_markdown_token import BlockQuoteMarkdownToken
    from pymarkdown.tokens.inline_code_span_markdown_token import InlineCodeSpanMarkdownToken
    from pymarkdown.tokens.link_start_markdown_token import LinkStartMarkdownToken
    from pymarkdown.tokens.image_start_markdown_token import ImageStartMarkdownToken
    from pymarkdown.tokens.emphasis_markdown_token import EmphasisMarkdownToken
    from pymarkdown.tokens.link_reference_definition_markdown_token import LinkReferenceDefinitionMarkdownToken
    from pymarkdown.tokens.end_of_stream_token import EndOfStreamToken
    from pymarkdown.extensions.front_matter_markdown_token import FrontMatterMarkdownToken
    x = dict(DEFAULT); x.update(d)
    k = x["kind"]
    pm = PositionMarker(x["line"], x["col"] - 1, "")
    if k == "atx":
        return AtxHeadingMarkdownToken(x["hashCount"], x["trailing"], x["ws"], pm)
    if k == "setext":
        ch = {1: "=", 2: "-"}.get(x["hashCount"], "*")
        return SetextHeadingMarkdownToken(ch, 3, x["ws"], pm, None)
    if k == "front-matter":
        return FrontMatterMarkdownToken("---", "---", [], {key: "v" for key in x["keys"]}, pm)
    if k == "para":
        return ParagraphMarkdownToken(x["ws"], pm)
    if k == "BLANK":
        return BlankLineMarkdownToken(x["ws"], pm)
    if k == "text":
        return TextMarkdownToken(x["text"], x["ws"], line_number=x["line"], column_number=x["col"])
    if k == "tbreak":
        return ThematicBreakMarkdownToken(x["startChar"], x["ws"], x["rest"], pm)
    if k == "fcode-block":
        return FencedCodeBlockMarkdownToken(x["fenceChar"], 3, "", "", "", "", x["ws"], "", pm)
    if k == "icode-block":
        return IndentedCodeBlockMarkdownToken(x["ws"], x["line"], x["col"])
    if k == "ulist":
        t = UnorderedListStartMarkdownToken(x["seq"], x["indent"], 0, x["ws"], None, pm)
        if x["leading"] is not None:
            t.add_leading_spaces(x["leading"])
        return t
    if k == "olist":
        t = OrderedListStartMarkdownToken(x["seq"], x["content"], x["indent"], 0, x["ws"], None, pm)
        if x["leading"] is not None:
            t.add_leading_spaces(x["leading"])
        return t
    if k == "li":
        return NewListItemMarkdownToken(x["indent"], pm, x["ws"], x["content"])
    if k == "block-quote":
        t = BlockQuoteMarkdownToken(x["ws"], pm)
        if x["leading"] is not None:
            t.add_bleading_spaces(x["leading"])
        return t
    if k == "icode-span":
        return InlineCodeSpanMarkdownToken(x["text"], "`", "", "", x["line"], x["col"])
    if k in ("link", "image"):
        from pymarkdown.links.link_helper_properties import LinkHelperProperties
        lhp = LinkHelperProperties()
        lhp.label_type, lhp.inline_link, lhp.inline_title, lhp.ex_label = "inline", "/u", "", ""
        lhp.before_link_whitespace = lhp.before_title_whitespace = lhp.after_title_whitespace = ""
        lhp.pre_inline_link = lhp.pre_inline_title = ""
        lhp.bounding_character = '"'
        if k == "link":
            return LinkStartMarkdownToken(x["text"], x["line"], x["col"], lhp)
        return ImageStartMarkdownToken("alt", x["text"], x["line"], x["col"], lhp)
    if k == "emphasis":
        return EmphasisMarkdownToken(1, "*", x["line"], x["col"])
    if k == "end-of-stream":
        return EndOfStreamToken(x["line"])
    if k.startswith("end-"):
        start = prev if prev is not None else ParagraphMarkdownToken("", pm)
        return EndMarkdownToken(k[4:], x["ws"], x["endData"], start, False)
    raise Unabstractable("build " + k)


def build_all(ds):
    """Real tokens for a synthetic list; an end token's `start_markdown_token` is the nearest earlier token of its kind."""
    out = []
    for d in ds:
        prev = None
        k = d["kind"]
        if k.startswith("end-") and k != "end-of-stream":
            for e in reversed(out):
                if e.token_name == k[4:]:
                    prev = e
                    break
        out.append(build(d, prev))
    return out


# ------------------------------------------------------------------ the real rule, alone
_PM = {}


class _FastInspect:
    """`PluginManager` wraps a plug-in exception as `BadPluginError(plugin_id, inspect.stack()[0].function, …)`.  `inspect.stack()`
    reads the source context of EVERY frame (≈ 1 ms in a worker) and the synthetic streams raise a million times; this shim gives the
    same `[0].function` (the name of the calling function) from the frame object.  Installed in the name space of
    pymarkdown.plugin_manager.plugin_manager only, for the harness process; the observed exception classes are unaffected."""

    @staticmethod
    def stack():
        import types
        return [types.SimpleNamespace(function=sys._getframe(1).f_code.co_name)]


def _fast_inspect():
    import pymarkdown.plugin_manager.plugin_manager as pmm
    if not isinstance(pmm.inspect, _FastInspect):
        pmm.inspect = _FastInspect()


def cfg_key(cfg):
    return tuple(sorted(cfg.items()))


def manager(rule, cfg):
    """A real PluginManager with exactly `rule` enabled, configured with `cfg` (cached).  `rule` may be a bundle
    `mdA+mdB+…`: all of them enabled at once, `cfg` = {rule id: {key: value}}."""
    _fast_inspect()
    if "+" in rule:
        return bundle_manager(rule, cfg)
    key = (rule, cfg_key(cfg))
    if key not in _PM:
        from application_properties import ApplicationProperties
        from pymarkdown.general.main_presentation import MainPresentation
        from pymarkdown.plugin_manager.plugin_manager import PluginManager
        import pymarkdown, enginelib
        ids, _ = enginelib.builtin_meta()
        props = ApplicationProperties()
        if cfg:
            props.load_from_dict({"plugins": {rule: dict(cfg)}}, clear_map=False)
        pm = PluginManager(MainPresentation())
        pdir = os.path.join(os.path.dirname(pymarkdown.__file__), "plugins")
        pm.initialize(pdir, [], rule, ",".join(i.lower() for i in ids if i.lower() != rule), props, False, False)
        pm.apply_configuration(props)
        assert [p.plugin_id.lower() for p in pm.enabled_plugins] == [rule], (rule, pm.enabled_plugins)
        _PM[key] = pm
    return _PM[key]


def bundle_manager(rule, cfg):
    key = (rule, tuple(sorted((r, cfg_key(c)) for r, c in cfg.items())))
    if key not in _PM:
        from application_properties import ApplicationProperties
        from pymarkdown.general.main_presentation import MainPresentation
        from pymarkdown.plugin_manager.plugin_manager import PluginManager
        import pymarkdown, enginelib
        ids, _ = enginelib.builtin_meta()
        on = rule.split("+")
        props = ApplicationProperties()
        if cfg:
            props.load_from_dict({"plugins": {r: dict(c) for r, c in cfg.items() if c}}, clear_map=False)
        pm = PluginManager(MainPresentation())
        pdir = os.path.join(os.path.dirname(pymarkdown.__file__), "plugins")
        pm.initialize(pdir, [], ",".join(on), ",".join(i.lower() for i in ids if i.lower() not in on), props, False, False)
        pm.apply_configuration(props)
        assert [p.plugin_id.lower() for p in pm.enabled_plugins] == on, (rule, [p.plugin_id for p in pm.enabled_plugins])
        _PM[key] = pm
    return _PM[key]


def _root(e):
    while e.__cause__ is not None:
        e = e.__cause__
    return type(e).__name__


def _index(toks, tok):
    for i, t in enumerate(toks):
        if t is tok:
            return i
    return -1


def _val(v):
    return ("i%d" % v) if isinstance(v, int) else "s" + H(v)


_APPLY = []


def _apply_inner():
    if not _APPLY:
        from pymarkdown.file_scan_helper import FileScanHelper
        fsh = FileScanHelper.__new__(FileScanHelper)
        _APPLY.append(fsh._FileScanHelper__process_file_fix_tokens_apply_fixes_inner)
    return _APPLY[0]


def diff_enc(before, after):
    """`<len>:<idx>=<token>;…` — the tokens of `after` that differ from `before` (the whole list when lengths differ)."""
    if len(before) != len(after):
        return "%d:%s" % (len(after), ";".join("%d=%s" % (i, enc_tok(d)) for i, d in enumerate(after)))
    return "%d:%s" % (len(after), ";".join("%d=%s" % (i, enc_tok(a)) for i, (b, a) in enumerate(zip(before, after)) if a != b))


def real_answer(rule, cfg, toks, abstoks=None, want_fixed=False):
    """The real rule's (scan | requests | fixed) in the driver's answer syntax
    (with `want_fixed`: a pair (answer, fixed real tokens or None when nothing was applied / the fix raised))."""
    ans, fixed_toks = _real_answer(rule, cfg, toks, abstoks)
    return (ans, fixed_toks) if want_fixed else ans


def _real_answer(rule, cfg, toks, abstoks):
    from pymarkdown.plugin_manager.plugin_scan_context import PluginScanContext
    pm = manager(rule, cfg)
    # ---- scan
    try:
        ctx = pm.starting_new_file("f.md")
        for t in toks:
            pm.next_token(ctx, t)
        pm.completed_file(ctx, -1)
        reps = ctx._PluginScanContext__reported
        scan = "ok " + ",".join("%d:%d:%s" % (r.line_number, r.column_number, _opt(r.extra_error_information)) for r in reps)
    except Exception as e:          # noqa: BLE001 — the exception class IS the observation
        scan = "err " + _root(e)
    # ---- fix: requests
    fm, rl = {}, []
    try:
        ctx = pm.starting_new_file("f.md", fix_mode=True, fix_token_map=fm, replace_tokens_list=rl)
        for t in toks:
            pm.next_token(ctx, t)
        pm.completed_file(ctx, -1)
        reqs = "ok " + ",".join("%d:%s:%s" % (_index(toks, k), r.field_name, _val(r.field_value))
                                for k, v in fm.items() for r in v)
        if rl:
            reqs += "#" + ",".join("%d-%d" % (_index(toks, r.start_token), _index(toks, r.end_token)) for r in rl)
    except Exception as e:          # noqa: BLE001
        return scan + "|err " + _root(e) + "|err " + _root(e), None
    # ---- fix: apply (on a deep copy; untouched when nothing was registered)
    before = abstoks if abstoks is not None else [abstract(t) for t in toks]
    if not fm and not rl:
        return scan + "|" + reqs + "|ok " + diff_enc(before, before), None
    toks2, fm2, rl2 = copy.deepcopy((toks, fm, rl))
    ctx2 = PluginScanContext(pm, "f.md", True, None, fm2, rl2)
    try:
        _apply_inner()(ctx2, False, toks2, rl2, fm2)
        fixed = "ok " + diff_enc(before, [abstract(t) for t in toks2])
    except Exception as e:          # noqa: BLE001
        return scan + "|" + reqs + "|err " + _root(e), None
    return scan + "|" + reqs + "|" + fixed, toks2


def transfer(rule, cfg, fixed_toks, front_matter=False):
    """Does the token-level statement transfer to the document?  Regenerate Markdown from the fixed REAL tokens with the real
    `TransformToMarkdown`, parse it again and compare (a) the abstract streams without line / column and (b) re-scan with the
    real rule.  Returns (same_stream: bool, rescan_reports: int or exception name, regenerated text)."""
    from pymarkdown.transform_markdown.transform_to_markdown import TransformToMarkdown
    try:
        text = TransformToMarkdown().transform(fixed_toks)
        toks3 = parse(text, front_matter)
    except Exception as e:          # noqa: BLE001
        return False, "regen/parse " + type(e).__name__, None

    def proj(d):
        d = dict(d); d["line"] = d["col"] = 0
        return d
    try:
        same = [proj(abstract(t)) for t in fixed_toks] == [proj(abstract(t)) for t in toks3]
    except Exception:               # noqa: BLE001
        same = False
    rescan = real_answer(rule, cfg, toks3).split("|")[0]
    n = rescan if rescan.startswith("err") else (0 if rescan == "ok " else rescan.count(",") + 1)
    return same, n, text


def enc_cfg(cfg, hexkeys=()):
    out = []
    if cfg and all(isinstance(v, dict) for v in cfg.values()):        # bundle: {rule: {key: value}} → rule.key=value
        flat = {}
        for r, c in cfg.items():
            for k, v in c.items():
                flat[r + "." + k] = v
        hexkeys = tuple(r + "." + k for r in cfg for k in RULES.get(r, {}).get("hexkeys", ()))
        cfg = flat
    for k, v in sorted(cfg.items()):
        if k in hexkeys:
            out.append("%s=%s" % (k, H(v)))
        elif isinstance(v, bool):
            out.append("%s=%d" % (k, 1 if v else 0))
        else:
            out.append("%s=%s" % (k, v))
    return ";".join(out)


# ------------------------------------------------------------------ the rules: configurations, synthetic alphabets
def _atx(n, line=1, **kw):
    return dict(kind="atx", hashCount=n, line=line, col=1, **kw)


RULES = {
    "md001": dict(
        cfgs=[{}, {"front_matter_title": "subject"}, {"front_matter_title": ""}],
        hexkeys=("front_matter_title",),
        alphabet=[_atx(n) for n in (0, 1, 2, 3, 4, 6, 7)] + [dict(kind="setext", hashCount=n, line=2, col=1) for n in (1, 2, -1)]
                 + [dict(kind="front-matter", keys=("title",), line=1, col=1), dict(kind="front-matter", keys=("subject", "x"), line=1, col=1),
                    dict(kind="para", line=1, col=1)],
        maxlen=4,
        front_matter=True,
    ),
    "md004": dict(
        cfgs=[{}] + [{"style": x} for x in ("asterisk", "plus", "dash", "sublist")],
        alphabet=[dict(kind="ulist", seq=c, line=1, col=1, indent=2) for c in "*+-x"]
                 + [dict(kind="end-ulist"), dict(kind="olist", seq=".", content="1", line=1, col=1, indent=3), dict(kind="para", line=1, col=1)],
        maxlen=5,
    ),
    "md029": dict(
        cfgs=[dict(style=x, allow_extended_start_values=a) for x in ("one_or_ordered", "one", "ordered", "zero") for a in (False, True)],
        alphabet=[dict(kind="olist", seq=".", content=c, line=1, col=1, indent=3) for c in ("0", "1", "2", "9", "a")]
                 + [dict(kind="li", content=c, line=2, col=1, indent=3) for c in ("0", "1", "2", "3", "10", "a")]
                 + [dict(kind="ulist", seq="-", line=1, col=1, indent=2), dict(kind="end-ulist"), dict(kind="end-olist")],
        maxlen=4,
    ),
    "md035": dict(
        cfgs=[{}] + [{"style": x} for x in ("---", "***", "- - -", "___")],
        hexkeys=("style",),
        alphabet=[dict(kind="tbreak", startChar=a, rest=b, line=1, col=1) for a, b in (("-", "---"), ("*", "***"), ("_", "___"), ("-", "- - -"), ("", ""))]
                 + [dict(kind="para", line=1, col=1)],
        maxlen=5,
    ),
    "md048": dict(
        cfgs=[{}, {"style": "backtick"}, {"style": "tilde"}],
        alphabet=[dict(kind="fcode-block", fenceChar=c, line=1, col=1) for c in ("`", "~", "x", "")]
                 + [dict(kind="end-fcode-block"), dict(kind="para", line=1, col=1)],
        maxlen=5,
    ),
    "md038": dict(
        cfgs=[{}],
        alphabet=[dict(kind="icode-span", text=x, line=1, col=3) for x in
                  ("a", " a", "a ", " a ", "  a", "a  ", " ", "  ", "", " `a", "`a ", "a` ", " `", "` ", "   ")]
                 + [dict(kind="para", line=1, col=1)],
        maxlen=2,
        wf_may_fail=True,     # wf038 is the domain of H1, not a property of every real stream
    ),
    "md039": dict(
        cfgs=[{}],
        alphabet=[dict(kind=k, text=x, line=1, col=3) for k in ("link", "image") for x in ("a", " a", "a ", "\ta\n", "", " ", " a b ", "\x0ba\x0c\r")]
                 + [dict(kind="para", line=1, col=1)],
        maxlen=2,
    ),
    "md019": dict(
        cfgs=[{}],
        alphabet=[dict(kind="atx", hashCount=1, trailing=0, line=1, col=1), dict(kind="atx", hashCount=2, trailing=0, line=3, col=2, ws=" "),
                  dict(kind="atx", hashCount=1, trailing=2, line=5, col=1)]
                 + [dict(kind="text", text="a", ws=w, line=1, col=3) for w in (" ", "  ", "\t", "", " \t", "\t ")]
                 + [dict(kind="end-para"), dict(kind="end-atx", ws="", endData=""), dict(kind="para", line=1, col=1)],
        maxlen=4,
    ),
    "md021": dict(
        cfgs=[{}],
        alphabet=[dict(kind="atx", hashCount=1, trailing=1, line=1, col=1), dict(kind="atx", hashCount=2, trailing=0, line=3, col=1)]
                 + [dict(kind="text", text="a", ws=w, line=1, col=3) for w in (" ", "  ", "\t")]
                 + [dict(kind="end-atx", ws="", endData=e) for e in (" ", "  ", "", "\t", None)]
                 + [dict(kind="end-para")],
        maxlen=5,
    ),
    "md030": dict(
        cfgs=[{}, {"ul_single": 3, "ol_single": 2}, {"ul_multi": 3, "ol_multi": 2}, {"ul_single": 1, "ul_multi": 2, "ol_single": 1, "ol_multi": 3}],
        alphabet=[dict(kind="ulist", seq="-", line=1, col=1, indent=2), dict(kind="ulist", seq="-", line=1, col=1, indent=4),
                  dict(kind="olist", seq=".", content="1", line=1, col=1, indent=3), dict(kind="olist", seq=".", content="10", line=1, col=1, indent=4),
                  dict(kind="li", content="", line=2, col=1, indent=2), dict(kind="li", content="2", line=2, col=1, indent=4),
                  dict(kind="para", line=1, col=3), dict(kind="end-para"), dict(kind="end-ulist"), dict(kind="end-olist")],
        maxlen=5,
        scan_only=True,       # fix mode of MD030 is not modelled
        synth_filter="balanced",
        renumber=True,        # distinct line numbers: `__paragraph_count_map` is keyed by str(token)
    ),
    # several rules in ONE pass (the shared fix_token_map; plug-in order)
    "md001+md004+md029+md035+md039": dict(
        cfgs=[{}, {"md004": {"style": "sublist"}, "md029": {"style": "ordered"}, "md035": {"style": "***"}},
              {"md004": {"style": "dash"}, "md029": {"style": "one"}, "md001": {"front_matter_title": "subject"}},
              {"md029": {"style": "zero", "allow_extended_start_values": True}, "md035": {"style": "---"}}],
        alphabet=[_atx(1), _atx(3), dict(kind="ulist", seq="*", line=1, col=1, indent=2), dict(kind="ulist", seq="+", line=1, col=1, indent=2),
                  dict(kind="end-ulist"), dict(kind="olist", seq=".", content="3", line=1, col=1, indent=3),
                  dict(kind="li", content="3", line=2, col=1, indent=3), dict(kind="end-olist"),
                  dict(kind="tbreak", startChar="-", rest="---", line=1, col=1), dict(kind="tbreak", startChar="*", rest="***", line=1, col=1),
                  dict(kind="link", text=" a ", line=1, col=1)],
        maxlen=3,
    ),
    "md004+md019+md029+md035+md039": dict(
        cfgs=[{}, {"md004": {"style": "plus"}, "md029": {"style": "ordered"}, "md035": {"style": "___"}}],
        alphabet=[dict(kind="atx", hashCount=1, trailing=0, line=1, col=1), dict(kind="text", text="a", ws="  ", line=1, col=3),
                  dict(kind="text", text="a", ws="\t", line=1, col=3),
                  dict(kind="ulist", seq="*", line=1, col=1, indent=2), dict(kind="ulist", seq="+", line=1, col=1, indent=2), dict(kind="end-ulist"),
                  dict(kind="olist", seq=".", content="3", line=1, col=1, indent=3), dict(kind="li", content="3", line=2, col=1, indent=3),
                  dict(kind="end-olist"), dict(kind="tbreak", startChar="*", rest="***", line=1, col=1), dict(kind="image", text=" a", line=1, col=1)],
        maxlen=3,
    ),
    "md001+md019": dict(
        cfgs=[{}],
        alphabet=[_atx(1, trailing=0), _atx(3, trailing=0), dict(kind="atx", hashCount=3, trailing=0, line=3, col=2),
                  dict(kind="text", text="a", ws="\t", line=1, col=3), dict(kind="text", text="a", ws="  ", line=1, col=3),
                  dict(kind="text", text="a", ws=" ", line=1, col=3), dict(kind="end-atx", ws="", endData="")],
        maxlen=4,
        wf_may_fail=True,
    ),
}


def jobs_of(rules):
    return [(r, c) for r in rules for c in RULES[r]["cfgs"]]


def enc_jobs(jobs):
    return "&".join("%s~%s" % (r, enc_cfg(c, RULES[r].get("hexkeys", ()))) for r, c in jobs)


# ------------------------------------------------------------------ document spaces
def extra_docs():
    """Closed family of rule-targeted documents the shared families lack: front matter × heading sequences (MD001)."""
    out = []
    for fm in ("---\ntitle: T\n---\n", "---\nsubject: S\n---\n", "---\nauthor: A\n---\n"):
        for seq in itertools.product((1, 2, 3, 4), repeat=2):
            out.append(fm + "\n" + "\n\n".join("#" * n + " h" for n in seq) + "\n")
    out.append("---\ntitle: T\n---\n")
    # a TAB after the hashes × heading level sequences (MD001 changes the column the tab is expanded from: MD019)
    for seq in itertools.product((1, 2, 3, 4, 5), repeat=2):
        out.append("\n\n".join("#" * n + "\th" for n in seq) + "\n")
    # list items that consist of a thematic break (MD004 / MD035 turn `+ ---` into `- ---`), first ordered numbers of two digits (MD029 / MD030)
    for a, b in itertools.product("-+*", repeat=2):
        for hr in ("---", "***", "___", "- - -", "* * *"):
            out.append("%s a\n\n%s %s\n" % (a, b, hr))
    for n in (0, 1, 2, 9, 10, 11, 99, 100):
        out.append("%d. x\n%d. y\n" % (n, n + 1))
        out.append("%d. x\n\n   z\n" % n)
    # code spans with one to three padding spaces on either side (MD038)
    for l, r in itertools.product(range(4), repeat=2):
        out.append("x `" + " " * l + "a" + " " * r + "` y\n")
    out += ["x ` ` y\n", "x `  ` y\n", "x `` ` `` y\n"]
    return out


def parse(src, front_matter=False):
    from pymarkdown.general.source_providers import InMemorySourceProvider
    tk = implib.parser(("front-matter",) if front_matter else None)
    return tk.transform_from_provider(InMemorySourceProvider(src), do_add_end_of_stream_token=True)


def doc_space(quick, rng):
    fam = docs.families()
    corpus = docs.repo_sources()
    res = [t for _, t in docs.rule_resources()]
    nest = docs.hash_slice(docs.nest_drop(), 1500, "tokenrules")
    extra = extra_docs()
    if quick:
        fam = docs.sample(rng, fam, 160)
        corpus = docs.sample(rng, corpus, 160)
        res = docs.sample(rng, res, 120)
        nest = docs.sample(rng, nest, 40)
        extra = docs.sample(rng, extra, 12)
    seen, out = set(), []
    for tag, ds in (("families", fam), ("corpus", corpus), ("resources", res), ("nest_drop", nest), ("extra", extra)):
        for d in ds:
            if d not in seen:
                seen.add(d)
                out.append((tag, d))
    return out


# ------------------------------------------------------------------ workers
def _work_docs(args):
    chunk, rules, quick = args
    jobs = jobs_of(rules)
    out = []
    for tag, src in chunk:
        for fmx in ((False, True) if src.startswith("---") else (False,)):
            try:
                toks = parse(src, fmx)
            except Exception as e:      # noqa: BLE001 — parser failures are C01's business
                out.append((tag, src, None, "parse " + type(e).__name__))
                continue
            try:
                abst = [abstract(t) for t in toks]
            except Exception as e:      # noqa: BLE001
                out.append((tag, src, None, "ABSTRACT " + type(e).__name__ + " " + str(e)))
                continue
            req = enc_jobs(jobs) + "|" + enc_toks(abst)
            reals, tr = [], []
            for r, c in jobs:
                ans, fixed_toks = real_answer(r, c, toks, abst, want_fixed=True)
                reals.append(ans)
                if fixed_toks is not None and not RULES[r].get("scan_only") and not (quick and "+" in r):
                    same, n, text = transfer(r, c, fixed_toks, fmx)
                    tr.append((r, enc_cfg(c, RULES[r].get("hexkeys", ())), same, n, text if (not same or n != 0) else None))
            out.append((tag, src, req, "&".join(reals), tr))
    return out


def _work_synth(args):
    rule, lists = args
    jobs = jobs_of([rule])
    out = []
    for ds in lists:
        full = [dict(DEFAULT, **d) for d in ds]
        try:
            toks = build_all(full)
            abst = [abstract(t) for t in toks]
        except Exception as e:          # noqa: BLE001
            out.append(("synthetic", ds, None, "build " + type(e).__name__ + " " + str(e)[:80]))
            continue
        if abst != full:
            out.append(("synthetic", ds, None, "abstract(build(d)) != d: " + repr([(a, b) for a, b in zip(abst, full) if a != b][:1])))
            continue
        req = enc_jobs(jobs) + "|" + enc_toks(abst)
        real = "&".join(real_answer(r, c, toks, abst) for r, c in jobs)
        out.append(("synthetic", ds, req, real))
    return out


def synth_lists(rule, quick, rng):
    spec = RULES[rule]
    alpha, n = spec["alphabet"], spec["maxlen"]
    lists = [list(p) for k in range(n + 1) for p in itertools.product(alpha, repeat=k)]
    if spec.get("synth_filter") == "balanced":
        def bal(l):
            d = 0
            for x in l:
                k = x["kind"]
                if k in ("ulist", "olist"):
                    d += 1
                elif k in ("end-ulist", "end-olist"):
                    if d == 0:
                        return False
                    d -= 1
                elif k == "li" and d == 0:
                    return False
            return True
        lists = [l for l in lists if bal(l)]
    if spec.get("renumber"):
        lists = [[dict(x, line=k + 1) if "line" in x else x for k, x in enumerate(l)] for l in lists]
    if quick and len(lists) > 900:
        short = [l for l in lists if len(l) <= 2]
        lists = short + rng.sample([l for l in lists if len(l) > 2], 900)
    return lists


def _chunks(seq, n):
    seq = list(seq)
    k = max(1, (len(seq) + n - 1) // n)
    return [seq[i:i + k] for i in range(0, len(seq), k)]


def strip_wf(ans):
    """model answer per job: scan|reqs|fixed|wf<0/1>  →  (answer without wf, wf flag)"""
    body, _, wf = ans.rpartition("|wf")
    return body, wf


def run(ctx, quick, rules=None):
    """Correspondence real rule class ↔ model.  Returns coverage counts (+ `disagreements`, `not_wf`: lists of inputs)."""
    rules = list(rules or RULES)
    rng = ctx.rng
    cov = {"rules": rules, "jobs": len(jobs_of(rules))}
    results = []
    space = doc_space(quick, rng)
    work = [(c, rules, quick) for c in _chunks(space, 64)]
    for r in rules:
        lists = synth_lists(r, quick, rng)
        cov["synthetic " + r] = len(lists)
        work += [("S", r, c) for c in _chunks(lists, 32)]
    import time as _t
    t0 = _t.time()
    with mp.Pool(16) as pool:
        parts = pool.map(_dispatch, work, chunksize=1)
    cov["seconds real side"] = round(_t.time() - t0, 1)
    for p in parts:
        results += p
    bad_harness = [(x[0], x[1], x[3]) for x in results if x[2] is None]
    good = [x for x in results if x[2] is not None]
    # document-level transfer of the token-level theorems (measured, reported; not part of the model agreement)
    tr_n, tr_same, tr_clean, tr_fail, tr_gaps, tr_retrigger = {}, {}, {}, {}, [], []
    for x in good:
        for r, c, same, n, text in (x[4] if len(x) > 4 else ()):
            tr_n[r] = tr_n.get(r, 0) + 1
            tr_same[r] = tr_same.get(r, 0) + (1 if same else 0)
            tr_clean[r] = tr_clean.get(r, 0) + (1 if n == 0 else 0)
            tr_fail[r] = tr_fail.get(r, 0) + (1 if isinstance(n, str) else 0)
            if not same and len(tr_gaps) < 400:
                tr_gaps.append(dict(rule=r, cfg=c, input=x[1], regenerated=text))
            if n != 0 and not isinstance(n, str):
                tr_retrigger.append(dict(rule=r, cfg=c, input=x[1], regenerated=text, rescan=n))
    t0 = _t.time()
    answers = vlib.Driver("tokenrules").run([x[2] for x in good])
    cov["seconds model side"] = round(_t.time() - t0, 1)
    disagreements, not_wf, n_cmp, n_reports, n_reqs, n_err = [], [], 0, 0, 0, 0
    for (tag, src, req, real, *_), ans in zip(good, answers):
        jobs = req.split("|", 1)[0].split("&")
        m_parts, r_parts = ans.split("&"), real.split("&")
        if len(m_parts) != len(jobs) or len(r_parts) != len(jobs):
            disagreements.append(dict(space=tag, input=src, job="*", real=real[:300], model=ans[:300]))
            continue
        for job, m, r in zip(jobs, m_parts, r_parts):
            body, wf = strip_wf(m)
            n_cmp += 1
            if tag != "synthetic" and wf != "1" and not RULES[job.split("~")[0]].get("wf_may_fail"):
                not_wf.append(dict(space=tag, input=src, job=job))
            rs = r.split("|")
            n_reports += 0 if rs[0] in ("ok ", "") or rs[0].startswith("err") else rs[0].count(",") + 1
            n_reqs += 0 if len(rs) < 2 or rs[1] == "ok " or rs[1].startswith("err") else rs[1].count(",") + 1
            n_err += sum(1 for x in rs if x.startswith("err"))
            if RULES[job.split("~")[0]].get("scan_only"):
                body, r = body.split("|")[0], r.split("|")[0]
            if body != r:
                disagreements.append(dict(space=tag, input=src, job=job, real=r, model=body))
    cov.update({"documents": len(space), "streams": len(good), "comparisons": n_cmp, "real reports": n_reports,
                "real fix requests": n_reqs, "real exception answers": n_err, "harness skips": len(bad_harness),
                "disagreements": disagreements, "not_wf": not_wf, "skips": bad_harness[:20],
                "transfer": {r: dict(fixed_documents=tr_n[r], reparse_equals_fixed_tokens=tr_same[r], rescan_clean=tr_clean[r],
                                        regenerate_or_reparse_raised=tr_fail[r], rescan_reports_again=tr_n[r] - tr_clean[r] - tr_fail[r]) for r in sorted(tr_n)},
                "transfer_gaps": tr_gaps, "transfer_retrigger": tr_retrigger})
    if disagreements:
        ctx.broken.append("correspondence tokenrules: %d disagreements, first %r" % (len(disagreements), disagreements[0]))
    if not_wf:
        ctx.broken.append("tokenrules well-formedness predicate false on a real stream: %r" % (not_wf[0],))
    return cov


def _dispatch(w):
    if w[0] == "S":
        return _work_synth((w[1], w[2]))
    return _work_docs(w)


if __name__ == "__main__":
    import json, random, time

    class _C:
        rng = random.Random(1)
        broken = []
    t0 = time.time()
    quick = "--thorough" not in sys.argv
    rules = [a for a in sys.argv[1:] if a in RULES] or None
    cov = run(_C, quick, rules)
    for a in sys.argv:
        if a.startswith("--dump="):
            json.dump(cov, open(a[7:], "w"), default=str)
    dis, nwf = cov.pop("disagreements"), cov.pop("not_wf")
    gaps, retr = cov.pop("transfer_gaps"), cov.pop("transfer_retrigger")
    print(json.dumps(cov, indent=1, default=str))
    print("disagreements", len(dis), "not_wf", len(nwf), "time %.1fs" % (time.time() - t0))
    for d in dis[:8]:
        print(json.dumps(d, default=str)[:1500])
    for d in nwf[:5]:
        print("NOTWF", json.dumps(d, default=str)[:600])
    print("transfer gaps", len(gaps), "re-trigger after real regenerate+parse", len(retr))
    seen = set()
    for d in retr:
        if d["rule"] not in seen or "--all" in sys.argv:
            seen.add(d["rule"]); print("RETRIGGER", json.dumps(d, default=str)[:500])
    seen = set()
    for d in gaps:
        if d["rule"] not in seen:
            seen.add(d["rule"]); print("GAP", json.dumps(d, default=str)[:500])
