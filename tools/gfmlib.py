"""Correspondence of the HTML-generator model (lean/Verif/Model/GfmRender.lean, driver `gfm`) with the REAL
`TransformToGfm().transform(tokens)` of pymarkdown.

Real side: documents are parsed with the real parser (tools/implib.py), the REAL token objects are serialised (every field the
model reads, `start_markdown_token` identity -> index), handed to the real renderer, and the HTML / exception type / the
`is_loose` flag the renderer leaves on every list token are recorded.  Model side: the same serialisation through
`verifdrv gfm`.  Compared byte for byte.

Second space: SYNTHETIC token streams the parser never produces but that are well formed (all trees over
list / item / block quote / paragraph / blank / link-reference-definition up to a size), built from real token objects, fed
to the real renderer and the model: HTML, exception type and looseness flags.

`run(ctx, quick) -> dict` (coverage counts; disagreements in `ctx.broken` and in the returned dict).
"""
import itertools, multiprocessing as mp, os, signal
import vlib, implib, docs

H = vlib.hexs
PARSE_TIMEOUT = 10.0
EXTS = ("front-matter", "markdown-strikethrough", "markdown-task-list-items", "markdown-extended-autolinks")

KINDS = ["para", "BLANK", "atx", "setext", "tbreak", "link-ref-def", "html-block", "fcode-block", "icode-block", "text",
         "icode-span", "hard-break", "uri-autolink", "email-autolink", "raw-html", "emphasis", "link", "image",
         "block-quote", "ulist", "olist", "li", "end-of-stream", "pragma", "front-matter", "task-list"]
# token_name -> fields read by the generator, in wire order:  s = str, o = Optional[str], n = int >= 0, b = bool, t = title (None -> "")
FIELDS = {
    "para": [], "BLANK": [], "tbreak": [], "link-ref-def": [], "html-block": [], "icode-block": [], "hard-break": [],
    "ulist": [], "li": [], "end-of-stream": [], "pragma": [], "front-matter": [],
    "atx": [("hash_count", "n")], "setext": [("heading_character", "s")], "fcode-block": [("extracted_text", "s")],
    "text": [("token_text", "s"), ("extracted_whitespace", "s"), ("end_whitespace", "o")],
    "icode-span": [("span_text", "s")], "uri-autolink": [("autolink_text", "s"), ("add_http_prefix", "b")],
    "email-autolink": [("autolink_text", "s")], "raw-html": [("raw_tag", "s")],
    "emphasis": [("emphasis_character", "s"), ("emphasis_length", "n")], "link": [("link_uri", "s"), ("link_title", "t")],
    "image": [("link_uri", "s"), ("image_alt_text", "s"), ("link_title", "t")], "block-quote": [("bleading_spaces", "s")],
    "olist": [("list_start_content", "i")], "task-list": [("checked_character", "s")],
}


class OutOfModel(Exception):
    """The stream carries something the model's token abstraction cannot express (counted, never silently dropped)."""


class _Timeout(BaseException):
    pass


def _alarm(*_):
    raise _Timeout()


def _hex(s):
    if not isinstance(s, str):
        raise OutOfModel(f"field is {type(s).__name__}, not str")
    if any(0xD800 <= ord(c) <= 0xDFFF for c in s):
        raise OutOfModel("surrogate code point")
    return H(s)


_CLASSES = {}


def token_classes():
    """token_name -> Python class (the same enumeration `TransformToGfmTokenHandlers.__init__` walks)."""
    if not _CLASSES:
        import inspect
        from pymarkdown.tokens.token_types import TokenTypes
        from pymarkdown.extensions.extension_token_types import ExtensionTokenTypes
        ert = (TokenTypes.get_inline_token_types() + TokenTypes.get_leaf_token_types() + TokenTypes.get_container_token_types()
               + TokenTypes.get_special_token_types() + ExtensionTokenTypes.get_token_types())
        for tt in ert:
            _CLASSES[tt.__dict__["get_markdown_token_type"].__func__()] = tt
        if sorted(_CLASSES) != sorted(KINDS):
            raise vlib.MachineryError(f"token classes changed: {sorted(set(_CLASSES) ^ set(KINDS))}")
    return _CLASSES


def wire_tok(t, pos):
    from pymarkdown.tokens.markdown_token import EndMarkdownToken
    ln = t.line_number
    if not isinstance(ln, int) or ln < 0:
        raise OutOfModel("line_number")
    if isinstance(t, EndMarkdownToken):
        if t.type_name not in FIELDS or t.token_name != "end-" + t.type_name:
            raise OutOfModel(f"end token type_name {t.type_name!r}")
        p = pos.get(id(t.start_markdown_token))
        if p is None:
            raise OutOfModel("start_markdown_token not in the stream")
        return f"end,{ln},{t.type_name},{p},{int(bool(t.was_forced))}"
    name = t.token_name
    if name not in FIELDS or not isinstance(t, token_classes()[name]):   # SpecialTextMarkdownToken is a TextMarkdownToken
        raise OutOfModel(f"token {name!r} of class {type(t).__name__}")
    out = [name, str(ln)]
    for attr, ty in FIELDS[name]:
        v = getattr(t, attr)
        if ty == "s":
            out.append(_hex(v))
        elif ty == "o":
            out.append("-" if v is None else _hex(v))
        elif ty == "t":
            out.append(_hex(v or ""))
        elif ty == "b":
            out.append("1" if v else "0")
        elif ty == "n":
            if not isinstance(v, int) or v < 0:
                raise OutOfModel(attr)
            out.append(str(v))
        elif ty == "i":
            try:
                n = int(v)
            except (TypeError, ValueError):
                raise OutOfModel(attr)
            if n < 0:
                raise OutOfModel(attr)
            out.append(str(n))
    return ",".join(out)


def wire(tokens, op="t"):
    """The driver request for a list of REAL token objects."""
    pos = {}
    for i, t in enumerate(tokens):
        pos.setdefault(id(t), i)
    return op + "|" + ";".join(wire_tok(t, pos) for t in tokens)


ERRMAP = {"IndexError": "IndexError", "AssertionError": "AssertionError", "AttributeError": "AttributeError", "ValueError": "ValueError"}


_TR = []


def _transformer():
    """One `TransformToGfm` per process: its only state is the handler table built in `__init__` (26 `inspect` calls)."""
    if not _TR:
        from pymarkdown.transform_gfm.transform_to_gfm import TransformToGfm
        _TR.append(TransformToGfm())
    return _TR[0]


def real_answer(tokens, timeout=PARSE_TIMEOUT):
    """`TransformToGfm().transform(tokens)` in the driver's answer syntax.  The list tokens' `is_loose` is reset to the
    constructor default first (a fresh parse has it anyway)."""
    for t in tokens:
        if t.is_list_start:
            t.is_loose = True
    tr = _transformer()
    old = signal.signal(signal.SIGALRM, _alarm)
    signal.setitimer(signal.ITIMER_REAL, timeout)
    try:
        html = tr.transform(tokens)
    except _Timeout:
        return "err=Hang"
    except Exception as e:
        return "err=" + ERRMAP.get(type(e).__name__, type(e).__name__)
    finally:
        signal.setitimer(signal.ITIMER_REAL, 0)
        signal.signal(signal.SIGALRM, old)
    flags = ",".join(f"{i}:{int(bool(t.is_loose))}" for i, t in enumerate(tokens) if t.is_list_start)
    return "ok=" + H(html) + "|" + flags


def parse_doc(text, exts=()):
    from pymarkdown.general.source_providers import InMemorySourceProvider
    tk = implib.parser(exts)
    old = signal.signal(signal.SIGALRM, _alarm)
    signal.setitimer(signal.ITIMER_REAL, PARSE_TIMEOUT)
    try:
        return tk.transform_from_provider(InMemorySourceProvider(text), do_add_end_of_stream_token=True), None
    except _Timeout:
        return None, "timeout"
    except Exception as e:      # BadTokenizationError and friends: C01's subject
        return None, type(e).__name__
    finally:
        signal.setitimer(signal.ITIMER_REAL, 0)
        signal.signal(signal.SIGALRM, old)


# ------------------------------------------------------------------ payload hypothesis of `render_escapes`, on real tokens
def _safe(s):
    """`Safe`: no `<`, `>`, `"`; every `&` starts one of the four entities the escaping function writes."""
    i = 0
    while i < len(s):
        c = s[i]
        if c in '<>"':
            return False
        if c == "&" and not any(s.startswith(e, i) for e in ("&amp;", "&lt;", "&gt;", "&quot;")):
            return False
        i += 1
    return True


def unescaped_payloads(tokens):
    """[(token_name, field)] of the attribute / text fields of REAL tokens that reach the output without any escaping
    being applied by the generator and are not `Safe` (hypothesis `PayloadsEscaped` of `render_escapes`)."""
    from pymarkdown.general.parser_helper import ParserHelper
    bad = []
    in_html = False
    for t in tokens:
        n = t.token_name
        if n == "html-block":
            in_html = True
        elif n == "end-html-block":
            in_html = False
        try:
            if n == "fcode-block" and not _safe(t.extracted_text):
                bad.append((n, "extracted_text"))
            elif n == "email-autolink" and not _safe(t.autolink_text):
                bad.append((n, "autolink_text"))
            elif n == "link":
                if not _safe(t.link_uri):
                    bad.append((n, "link_uri"))
                if not _safe(t.link_title or ""):
                    bad.append((n, "link_title"))
            elif n == "image":
                for f in ("link_uri", "image_alt_text", "link_title"):
                    if not _safe(getattr(t, f) or ""):
                        bad.append((n, f))
            elif n == "icode-span" and not _safe(ParserHelper.resolve_all_from_text(t.span_text)):
                bad.append((n, "span_text"))
            elif n == "text" and not in_html and not _safe(ParserHelper.resolve_all_from_text(t.token_text)):
                bad.append((n, "token_text"))
        except Exception:
            pass
    return bad


# ------------------------------------------------------------------ workers
def _work(task):
    k, text, exts = task
    toks, err = parse_doc(text, exts)
    if toks is None:
        return (k, "parse:" + err, None, None, None)
    try:
        req = wire(toks)
    except OutOfModel as e:
        return (k, "oom:" + str(e), None, None, None)
    return (k, None, req, real_answer(toks), unescaped_payloads(toks))


# ------------------------------------------------------------------ synthetic well-formed streams
class Syn:
    """Builds REAL token objects for a synthetic stream.  Shapes (nested tuples):
       ("P",)  paragraph with one text token      ("B",)  blank line      ("R",)  link reference definition
       ("T",)  thematic break                     ("Q", [children])  block quote
       ("U", [[item children], …])  unordered list     ("O", [[item children], …])  ordered list
    Line numbers: every leaf takes one line; a block quote's `bleading_spaces` gets one entry per line it spans MINUS
    `short` trailing lines (the parser's habit of keeping a trailing blank inside the token range, see
    `__handle_block_quote_end_calc`)."""

    def __init__(self):
        from pymarkdown.general.position_marker import PositionMarker
        from pymarkdown.tokens.paragraph_markdown_token import ParagraphMarkdownToken
        from pymarkdown.tokens.text_markdown_token import TextMarkdownToken
        from pymarkdown.tokens.blank_line_markdown_token import BlankLineMarkdownToken
        from pymarkdown.tokens.block_quote_markdown_token import BlockQuoteMarkdownToken
        from pymarkdown.tokens.unordered_list_start_markdown_token import UnorderedListStartMarkdownToken
        from pymarkdown.tokens.ordered_list_start_markdown_token import OrderedListStartMarkdownToken
        from pymarkdown.tokens.new_list_item_markdown_token import NewListItemMarkdownToken
        from pymarkdown.tokens.thematic_break_markdown_token import ThematicBreakMarkdownToken
        from pymarkdown.tokens.end_of_stream_token import EndOfStreamToken
        self.PM, self.Para, self.Text, self.Blank, self.Bq = PositionMarker, ParagraphMarkdownToken, TextMarkdownToken, BlankLineMarkdownToken, BlockQuoteMarkdownToken
        self.Ul, self.Ol, self.Li, self.Tb, self.Eos = UnorderedListStartMarkdownToken, OrderedListStartMarkdownToken, NewListItemMarkdownToken, ThematicBreakMarkdownToken, EndOfStreamToken

    def pm(self, line):
        return self.PM(line, 0, "")

    def close(self, tok, forced=True):
        from pymarkdown.tokens.markdown_token import EndMarkdownToken
        return EndMarkdownToken(tok.token_name, "", "", tok, forced)

    def build(self, shapes, short=0):
        """-> list of real tokens (with a final end-of-stream token)."""
        self.line, self.out, self.short = 1, [], short
        self.forest(shapes)
        self.out.append(self.Eos(self.line))
        return self.out

    def forest(self, shapes):
        for s in shapes:
            self.node(s)

    def node(self, s):
        k = s[0]
        if k == "P":
            p = self.Para("", self.pm(self.line))
            self.out += [p, self.Text("a", "", line_number=self.line, column_number=1), self.close(p)]
            self.line += 1
        elif k == "B":
            self.out.append(self.Blank("", self.pm(self.line)))
            self.line += 1
        elif k == "T":
            self.out.append(self.Tb("-", "", "---", self.pm(self.line)))
            self.line += 1
        elif k == "R":
            self.out.append(self._lrd())
            self.line += 1
        elif k == "Q":
            q = self.Bq("", self.pm(self.line))
            first = self.line
            self.out.append(q)
            self.forest(s[1])
            n = max(self.line - first - self.short, 1)
            for _ in range(n):
                q.add_bleading_spaces("> ")
            self.out.append(self.close(q))
        elif k in ("U", "O"):
            lt = self.Ul("-", 2, 0, "", None, self.pm(self.line)) if k == "U" else self.Ol(".", "1", 3, 0, "", None, self.pm(self.line))
            self.out.append(lt)
            for j, item in enumerate(s[1]):
                if j:
                    self.out.append(self.Li(2, self.pm(self.line), "", "1"))
                self.forest(item)
            self.out.append(self.close(lt))
        else:
            raise ValueError(k)

    _LRD = None

    def _lrd(self):
        """A real link-reference-definition token (taken once from the real parser, re-used with a new line number is not
        possible: the token is immutable — the line number of an LRD is read only as `blank_token.line_number`)."""
        import copy
        if Syn._LRD is None:
            toks, _ = parse_doc("[r]: /u\n")
            Syn._LRD = [t for t in toks if t.is_link_reference_definition][0]
        t = copy.copy(Syn._LRD)
        try:
            t._MarkdownToken__line_number = self.line
        except Exception:
            pass
        return t


def _leaf_seqs(n, leaves):
    return itertools.product(leaves, repeat=n)


def shapes(size, leaves=("P", "B"), depth=3):
    """All forests with exactly `size` nodes over leaves + Q / U / O (lists with 1..2 items), nesting <= depth."""
    def forests(n, d):
        if n == 0:
            yield ()
            return
        for k in range(1, n + 1):
            for first in trees(k, d):
                for rest in forests(n - k, d):
                    yield (first,) + rest

    def trees(n, d):
        if n == 1:
            for l in leaves:
                yield (l,)
        if n >= 1 and d > 0:
            for f in forests(n - 1, d - 1):
                yield ("Q", f)
            for f in forests(n - 1, d - 1):
                yield ("U", (f,))
                yield ("O", (f,))
            if n >= 2:          # two items: the `li` token counts as a node
                for a in range(0, n - 1):
                    for fa in forests(a, d - 1):
                        for fb in forests(n - 2 - a, d - 1):
                            yield ("U", (fa, fb))
    return forests(size, depth)


def has_list(f):
    return any(t[0] in ("U", "O") or (t[0] == "Q" and has_list(t[1])) for t in f)


def synthetic_space(max_size):
    """[(shape forest, short)] — every forest with a list in it, sizes 1..max_size, leaves P / B (and R, T up to size-2)."""
    out = []
    for n in range(1, max_size + 1):
        leaves = ("P", "B", "R", "T") if n <= max_size - 2 else ("P", "B")
        for f in shapes(n, leaves):
            if has_list(f):
                out.append((f, 0))
                if any(t[0] == "Q" for t in _walk(f)):
                    out.append((f, 1))
    return out


def _walk(f):
    for t in f:
        yield t
        if t[0] == "Q":
            yield from _walk(t[1])
        elif t[0] in ("U", "O"):
            for item in t[1]:
                yield from _walk(item)


_SYN = None


def _syn_work(task):
    global _SYN
    k, shape, short = task
    if _SYN is None:
        _SYN = Syn()
    toks = _SYN.build(shape, short)
    try:
        req = wire(toks)
    except OutOfModel as e:
        return (k, "oom:" + str(e), None, None)
    return (k, None, req, real_answer(toks, timeout=5.0))


def shapes_deep(size, depth=4):
    """Forests with exactly `size` nodes over P / B leaves, block quotes and unordered lists (1-2 items), nesting <= depth:
    the deeper, leaner stratum of the synthetic space (ordered lists and the other leaves behave identically in the looseness code)."""
    leaves = ("P", "B")

    def forests(n, d):
        if n == 0:
            yield ()
            return
        for k in range(1, n + 1):
            for first in trees(k, d):
                for rest in forests(n - k, d):
                    yield (first,) + rest

    def trees(n, d):
        if n == 1:
            for l in leaves:
                yield (l,)
        if d > 0:
            for f in forests(n - 1, d - 1):
                yield ("Q", f)
                yield ("U", (f,))
            if n >= 2:
                for a in range(0, n - 1):
                    for fa in forests(a, d - 1):
                        for fb in forests(n - 2 - a, d - 1):
                            yield ("U", (fa, fb))
    return forests(size, depth)


def synthetic_deep(size):
    out = []
    for f in shapes_deep(size):
        if has_list(f):
            out.append((f, 0))
            if any(t[0] == "Q" for t in _walk(f)):
                out.append((f, 1))
    return out


def _ill_work(task):
    """Ill-formed variants of a small well-formed synthetic stream: every single-token deletion and every proper prefix.
    Variants whose end tokens point to a removed start token cannot be expressed in the model (counted)."""
    global _SYN
    k, shape, short = task
    if _SYN is None:
        _SYN = Syn()
    base = _SYN.build(shape, short)
    out = []
    variants = [base[:i] + base[i + 1:] for i in range(len(base))] + [base[:i] for i in range(1, len(base))]
    for v in variants:
        try:
            req = wire(v)
        except OutOfModel:
            out.append(None)
            continue
        out.append((req, real_answer(v, timeout=5.0)))
    return out


# ------------------------------------------------------------------ spaces
# documents behind the machine-checked witnesses of Verif.Props.GfmRender (always run, both tiers)
WITNESS_DOCS = [
    "- - - a\n\n  b\n", "1. 1. 1. a\n\n   b\n",                 # looseness: several list ends before the next block
    "- - a\n\n    > b\n- c\n",                                     # looseness: block-quote start inside an inner list
    "- [r]: /u\n\n  - x\n- y\n", "- a\n\n  [r]: /u\n\n  c\n",  # looseness: link reference definitions
    "- > - a\n  >\n  > x\n", "1. > 1. a\n   >\n   > x\n",          # tightness: quote in list after a nested container
    "```a\"b\nx\n```\n", "<a&b@c.de>\n", "![a<b c=\"d\">e](/u)\n",  # escaping: fields the parser leaves unescaped
    "<http://a.b/?q=\"%[\\]^`{}|é&x>\n", "<HTTP://A.B/€>\n",    # URI autolink: the whole percent-escape set, UTF-8 bytes
    "a\x05<b\n",                                                     # payload: the codec's U+0005 collision
    "- a\n\n- b\n", "- a\n  - b\n\n- c\n", "- a\n- b\n", "- a\n\n  b\n- c\n",
]


def doc_pools(ctx, quick):
    pick = (lambda seq, k: docs.sample(ctx.rng, list(seq), k)) if quick else (lambda seq, k: list(seq))
    short = lambda seq, n: [d for d in seq if len(d) <= n]
    repo = docs.repo_sources()
    pools = [
        ("witness", list(WITNESS_DOCS), ()),
        ("corpus", (short(repo, 40) + pick(repo, 500)) if quick else repo, ()),
        ("d1", pick(docs.d1(), 300), ()),
        ("d2core", pick(docs.dn(2, docs.CORE_PREFIX, docs.CORE_BODY), 1500), ()),
        ("families", pick(docs.families(), 300), ()),
        ("nest-drop", pick(docs.nest_drop(), 1200), ()),
        ("inline-emph", pick(docs.hash_slice(docs.inline_emph(), 4000, "gfm"), 600), ()),
        ("link-edges", pick(docs.link_edges(), 300), ()),
        ("ext-corpus", pick(repo, 150 if quick else 1500), EXTS),
    ]
    tasks, seen = [], set()
    for name, ds, exts in pools:
        for t in ds:
            if (t, exts) in seen:
                continue
            seen.add((t, exts))
            tasks.append((len(tasks), name, t, exts))
    return tasks


def _pool(n=None):
    return mp.get_context("fork").Pool(n or min(16, os.cpu_count() or 4))


def _flags(ans):
    """{index: '0'/'1'/…} from `i:x,…`"""
    return dict(x.split(":") for x in ans.split(",") if x)


def run(ctx, quick):
    """Correspondence run.  Returns coverage counts, the disagreeing inputs (model vs real code: a broken tie) and, separately,
    the inputs on which the REAL code departs from the specification-side definitions (list looseness vs the CommonMark
    definition, paragraph tightness, escaping hypothesis) — those are findings about pymarkdown, not about the model."""
    res = {"documents": 0, "parse_failures": 0, "out_of_model": 0, "agree": 0, "disagree": [], "by_pool": {},
           "errors_agreeing": {}, "lists": 0, "not_wellformed": 0,
           "looseness_vs_spec": {"lists": 0, "equal": 0, "departures": []},
           "tightness": {"paragraphs": 0, "equal": 0, "departures_flat": [], "departures_quote_in_list": 0},
           "balance": {"runs": 0, "unbalanced": []},
           "escapes": {"hypothesis_holds": 0, "hypothesis_fails": 0, "unsafe_output_with_hypothesis": [], "unsafe_output": 0,
                       "unescaped_fields": {}, "unescaped_examples": []},
           "payload_not_ok": 0,
           "synthetic": 0, "synthetic_agree": 0, "synthetic_disagree": [], "synthetic_errors": {},
           "illformed": 0, "illformed_agree": 0, "illformed_disagree": [], "illformed_errors": {}, "illformed_out_of_model": 0}
    tasks = doc_pools(ctx, quick)
    with _pool() as pool:
        real = pool.map(_work, [(k, t, e) for (k, _, t, e) in tasks], chunksize=32)
    reqs, idx = [], []
    for (k, name, text, exts), (_, err, req, ans, unesc) in zip(tasks, real):
        res["documents"] += 1
        if err:
            res["parse_failures" if err.startswith("parse:") else "out_of_model"] += 1
            continue
        reqs.append(req)
        idx.append((name, text, exts, ans))
        for u in unesc:
            key = "%s.%s" % u
            res["escapes"]["unescaped_fields"][key] = res["escapes"]["unescaped_fields"].get(key, 0) + 1
            if len(res["escapes"]["unescaped_examples"]) < 20:
                res["escapes"]["unescaped_examples"].append({"doc": text, "field": key})
    drv = vlib.Driver("gfm")
    body = [r[2:] for r in reqs]
    model = drv.run(reqs)
    spec = drv.run(["s|" + b for b in body])
    bal = drv.run(["b|" + b for b in body])
    tight = drv.run(["p|" + b for b in body])
    wf = drv.run(["w|" + b for b in body])
    for (name, text, exts, ans), m, sp, bl, tg, w in zip(idx, model, spec, bal, tight, wf):
        bp = res["by_pool"].setdefault(name, [0, 0])
        bp[0] += 1
        if w != "1":
            res["not_wellformed"] += 1
        if ans == m:
            res["agree"] += 1
            bp[1] += 1
            if ans.startswith("err="):
                res["errors_agreeing"][ans] = res["errors_agreeing"].get(ans, 0) + 1
        else:
            res["disagree"].append({"pool": name, "doc": text, "exts": list(exts), "real": ans[:300], "model": m[:300]})
        if not ans.startswith("ok="):
            continue
        rf = _flags(ans.split("|")[1])
        res["lists"] += len(rf)
        sf = _flags(sp)
        for i, v in rf.items():
            res["looseness_vs_spec"]["lists"] += 1
            if sf.get(i) == v:
                res["looseness_vs_spec"]["equal"] += 1
            else:
                res["looseness_vs_spec"]["departures"].append({"pool": name, "doc": text, "exts": list(exts), "list_token": int(i),
                                                               "real": v, "spec": sf.get(i)})
        if bl.startswith("bal="):
            f = dict(x.split("=") for x in bl.split("|"))
            res["balance"]["runs"] += 1
            if f["bal"] != "1" and w == "1":
                res["balance"]["unbalanced"].append({"pool": name, "doc": text})
            if f["pay"] != "1":
                res["payload_not_ok"] += 1
            if f["hyp"] == "1":
                res["escapes"]["hypothesis_holds"] += 1
                if f["esc"] != "1":
                    res["escapes"]["unsafe_output_with_hypothesis"].append({"pool": name, "doc": text})
            else:
                res["escapes"]["hypothesis_fails"] += 1
            if f["esc"] != "1":
                res["escapes"]["unsafe_output"] += 1
        if tg.startswith("q="):
            q, rows = tg.split("|", 1)
            for row in [x for x in rows.split(",") if x]:
                i, pair = row.split(":")
                res["tightness"]["paragraphs"] += 1
                if len(pair) == 2 and pair[0] == pair[1]:
                    res["tightness"]["equal"] += 1
                elif q == "q=1":
                    res["tightness"]["departures_flat"].append({"pool": name, "doc": text, "para_token": int(i), "pair": pair})
                else:
                    res["tightness"]["departures_quote_in_list"] += 1
    # synthetic well-formed streams
    space = synthetic_space(5)
    if quick:
        small = [x for x in space if sum(1 for _ in _walk(x[0])) <= 4]
        rest = [x for x in space if sum(1 for _ in _walk(x[0])) > 4]
        space = small + docs.sample(ctx.rng, rest, 2500) + docs.sample(ctx.rng, synthetic_deep(6), 2500)
    else:
        space = space + synthetic_deep(6)
    with _pool() as pool:
        sreal = pool.map(_syn_work, [(k, f, sh) for k, (f, sh) in enumerate(space)], chunksize=256)
    sreqs, sidx = [], []
    for (f, sh), (_, err, req, ans) in zip(space, sreal):
        res["synthetic"] += 1
        if err:
            res["out_of_model"] += 1
            continue
        sreqs.append(req)
        sidx.append((f, sh, ans))
    smodel = drv.run(sreqs)
    for (f, sh, ans), m in zip(sidx, smodel):
        if ans == m:
            res["synthetic_agree"] += 1
            if ans.startswith("err="):
                res["synthetic_errors"][ans] = res["synthetic_errors"].get(ans, 0) + 1
        else:
            res["synthetic_disagree"].append({"shape": repr(f), "short": sh, "real": ans[:300], "model": m[:300]})
    # ill-formed variants (errors are part of the agreement)
    base = [x for x in synthetic_space(3 if quick else 4)]
    if quick:
        base = docs.sample(ctx.rng, base, 150)
    with _pool() as pool:
        ireal = pool.map(_ill_work, [(k, f, sh) for k, (f, sh) in enumerate(base)], chunksize=16)
    ireqs, iidx = [], []
    for (f, sh), vs in zip(base, ireal):
        for j, v in enumerate(vs):
            if v is None:
                res["illformed_out_of_model"] += 1
                continue
            ireqs.append(v[0])
            iidx.append((f, sh, j, v[1]))
    imodel = drv.run(ireqs)
    for (f, sh, j, ans), m in zip(iidx, imodel):
        res["illformed"] += 1
        if ans == m:
            res["illformed_agree"] += 1
            key = ans if ans.startswith("err=") else "ok"
            res["illformed_errors"][key] = res["illformed_errors"].get(key, 0) + 1
        else:
            res["illformed_disagree"].append({"shape": repr(f), "short": sh, "variant": j, "real": ans[:200], "model": m[:200]})
    if res["disagree"]:
        ctx.broken.append(f"correspondence gfm: {len(res['disagree'])} documents render differently in the model")
    if res["synthetic_disagree"]:
        ctx.broken.append(f"correspondence gfm: {len(res['synthetic_disagree'])} synthetic streams render differently in the model")
    if res["illformed_disagree"]:
        ctx.broken.append(f"correspondence gfm: {len(res['illformed_disagree'])} ill-formed streams behave differently in the model")
    if res["balance"]["unbalanced"]:
        ctx.broken.append("theorem render_balanced contradicted on a real stream (model output unbalanced on a well-formed stream)")
    if res["escapes"]["unsafe_output_with_hypothesis"]:
        ctx.broken.append("theorem render_escapes contradicted on a real stream")
    if res["tightness"]["departures_flat"]:
        ctx.broken.append("theorem paragraph_tightness_partial contradicted on a real stream")
    return res


if __name__ == "__main__":
    import json, sys, time
    q = len(sys.argv) > 1 and sys.argv[1] == "quick"
    ctx = vlib.Ctx("C03", "quick" if q else "thorough", int(os.environ.get("VERIF_SEED", "1")))
    t0 = time.time()
    r = run(ctx, q)
    r["seconds"] = round(time.time() - t0, 1)
    d, sd = r.pop("disagree"), r.pop("synthetic_disagree")
    dep = r["looseness_vs_spec"].pop("departures")
    r["looseness_vs_spec"]["departures"] = len(dep)
    r["escapes"].pop("unescaped_examples")
    print(json.dumps(r, indent=1, ensure_ascii=True))
    for x in sorted(dep, key=lambda x: len(x["doc"]))[:12]:
        print("SPEC-DEPARTURE", json.dumps(x, ensure_ascii=True))
    for x in d[:15]:
        print("DISAGREE", json.dumps(x, ensure_ascii=True))
    for x in sd[:15]:
        print("SYN-DISAGREE", json.dumps(x, ensure_ascii=True))
    print("broken:", ctx.broken)
