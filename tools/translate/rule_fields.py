"""Translator: per-rule state-field table from /repo/pymarkdown/plugins/rule_*.py (AST) -> Verif/Gen/RuleFields.lean.

For every rule class (the class that defines get_details):
  hasStart   : overrides starting_new_file
  written    : self.<field>s written (assignment, augmented assignment, del, mutating method call such as
               .append/.clear/.pop…, or subscript/attribute store below the field) in any method other than
               __init__, initialize_from_config and starting_new_file
  reset      : self.<field>s written inside starting_new_file
  resetConst : every right-hand side in starting_new_file reads no self.<field> other than those written in
               initialize_from_config / __init__ (configuration constants)  [recorded as the list of offenders]
  nonSelf    : writes whose root is a parameter other than self (assignment below it or mutating call on it)
  classMut   : class-level attributes bound to mutable literals / calls, module-level mutable bindings, `global`
Helper classes in plugins/utils are listed with the same columns (as rule id `utils/<file>:<Class>`), plus
where they are instantiated.
"""
import ast, os, re

class TranslateError(Exception):
    pass

MUT = {"append", "extend", "insert", "pop", "remove", "clear", "add", "update", "discard", "setdefault",
       "popitem", "sort", "reverse", "appendleft", "popleft"}


def self_attr(n):
    while isinstance(n, (ast.Subscript, ast.Attribute)) and not (
            isinstance(n, ast.Attribute) and isinstance(n.value, ast.Name) and n.value.id == "self"):
        n = n.value
    if isinstance(n, ast.Attribute) and isinstance(n.value, ast.Name) and n.value.id == "self":
        return n.attr
    return None


def root(n):
    while isinstance(n, (ast.Subscript, ast.Attribute, ast.Call)):
        n = n.func if isinstance(n, ast.Call) else n.value
    return n


def targets_of(n):
    tg = []
    if isinstance(n, ast.Assign):
        tg = n.targets
    elif isinstance(n, (ast.AugAssign, ast.AnnAssign)):
        tg = [n.target]
    elif isinstance(n, ast.Delete):
        tg = n.targets
    elif isinstance(n, (ast.For, ast.AsyncFor)):
        tg = [n.target]
    elif isinstance(n, ast.NamedExpr):
        tg = [n.target]
    out = []
    for t in tg:
        stack = [t]
        while stack:
            e = stack.pop()
            if isinstance(e, (ast.Tuple, ast.List)):
                stack.extend(e.elts)
            elif isinstance(e, ast.Starred):
                stack.append(e.value)
            else:
                out.append(e)
    return out


def writes(fn):
    w = set()
    for n in ast.walk(fn):
        for e in targets_of(n):
            a = self_attr(e)
            if a:
                w.add(a)
        if isinstance(n, ast.Call) and isinstance(n.func, ast.Attribute) and n.func.attr in MUT:
            a = self_attr(n.func.value)
            if a:
                w.add(a)
    return w


def self_reads(expr):
    r = set()
    for n in ast.walk(expr):
        if isinstance(n, ast.Attribute) and isinstance(n.value, ast.Name) and n.value.id == "self":
            r.add(n.attr)
    return r


def nonself(fn, cls):
    params = {a.arg for a in fn.args.args + fn.args.kwonlyargs if a.arg != "self"}
    out = []
    for n in ast.walk(fn):
        for e in targets_of(n):
            if isinstance(e, (ast.Attribute, ast.Subscript)):
                r = root(e)
                if isinstance(r, ast.Name) and r.id in params:
                    out.append(f"{cls}.{fn.name}: store {ast.unparse(e)}")
        if isinstance(n, ast.Call) and isinstance(n.func, ast.Attribute) and n.func.attr in MUT:
            r = root(n.func.value)
            if isinstance(r, ast.Name) and r.id in params:
                out.append(f"{cls}.{fn.name}: call {ast.unparse(n.func)}")
        if isinstance(n, (ast.Global, ast.Nonlocal)):
            out.append(f"{cls}.{fn.name}: global {','.join(n.names)}")
    return out


def unmangle(cls, name):
    return name


def analyse_class(c, modname):
    meth = {m.name: m for m in c.body if isinstance(m, (ast.FunctionDef, ast.AsyncFunctionDef))}
    cfgw = set()
    for k in ("__init__", "initialize_from_config"):
        if k in meth:
            cfgw |= writes(meth[k])
    reset = writes(meth["starting_new_file"]) if "starting_new_file" in meth else set()
    written = set()
    ns = []
    for k, m in meth.items():
        ns += nonself(m, c.name)
        if k in ("__init__", "initialize_from_config", "starting_new_file"):
            continue
        written |= writes(m)
    offenders = set()
    if "starting_new_file" in meth:
        stateful = written  # a reset that copies another state field is not a constant reset
        for n in ast.walk(meth["starting_new_file"]):
            if isinstance(n, (ast.Assign, ast.AugAssign, ast.AnnAssign)) and getattr(n, "value", None) is not None:
                offenders |= (self_reads(n.value) & stateful) - reset
    classmut = []
    for n in c.body:
        v = getattr(n, "value", None)
        if isinstance(n, (ast.Assign, ast.AnnAssign)) and isinstance(v, (ast.List, ast.Dict, ast.Set, ast.ListComp, ast.DictComp, ast.SetComp)):
            tgt = n.targets[0] if isinstance(n, ast.Assign) else n.target
            classmut.append(f"{c.name}.{ast.unparse(tgt)}")
    return dict(hasStart="starting_new_file" in meth, written=sorted(written), reset=sorted(reset),
                resetNonConst=sorted(offenders), nonSelf=sorted(set(ns)), classMut=sorted(classmut))


def scan(repo):
    pdir = os.path.join(repo, "pymarkdown", "plugins")
    rules = []
    files = sorted(f for f in os.listdir(pdir) if re.match(r"rule_\w+\.py$", f))
    if len(files) < 40:
        raise TranslateError(f"only {len(files)} rule files found")
    for f in files:
        tree = ast.parse(open(os.path.join(pdir, f), encoding="utf-8").read())
        rid = f[len("rule_"):-3].replace("_", "")
        found = False
        modmut = [ast.unparse(n.targets[0]) for n in tree.body
                  if isinstance(n, ast.Assign) and isinstance(n.value, (ast.List, ast.Dict, ast.Set))]
        for c in tree.body:
            if isinstance(c, ast.ClassDef) and any(isinstance(m, ast.FunctionDef) and m.name == "get_details" for m in c.body):
                info = analyse_class(c, f)
                info["id"] = rid
                info["classMut"] = sorted(info["classMut"] + [f"module.{m}" for m in modmut])
                rules.append(info)
                found = True
            elif isinstance(c, ast.ClassDef):
                info = analyse_class(c, f)
                if info["written"] or info["nonSelf"] or info["classMut"]:
                    info["id"] = f"{rid}/{c.name}"
                    info["hasStart"] = True  # helper class inside a rule file: owned by the rule
                    rules.append(info)
        if not found:
            raise TranslateError(f"{f}: no class defining get_details")
    udir = os.path.join(pdir, "utils")
    for f in sorted(os.listdir(udir)):
        if not f.endswith(".py") or f == "__init__.py":
            continue
        tree = ast.parse(open(os.path.join(udir, f), encoding="utf-8").read())
        for c in tree.body:
            if isinstance(c, ast.ClassDef):
                info = analyse_class(c, f)
                info["id"] = f"utils/{f[:-3]}:{c.name}"
                rules.append(info)
    return rules


def lstr(xs):
    return "[" + ", ".join('"' + x.replace("\\", "\\\\").replace('"', '\\"') + '"' for x in xs) + "]"


def render(repo):
    rules = scan(repo)
    rows = []
    for r in rules:
        rows.append(f"  ⟨\"{r['id']}\", {'true' if '/' not in r['id'] else 'false'}, {'true' if r['hasStart'] else 'false'}, {lstr(r['written'])}, {lstr(r['reset'])},\n"
                    f"   {lstr(r['resetNonConst'])}, {lstr(r['nonSelf'])}, {lstr(r['classMut'])}⟩")
    return ("-- GENERATED by tools/translate/rule_fields.py from /repo — do not edit.\n"
            "import Verif.Model.RuleTable\nnamespace Verif.Gen.RuleFields\nopen Verif.Model.RuleTable\n\n"
            "/-- One row per rule class (and per helper class), extracted from the source by AST. -/\n"
            "def rows : List Row := [\n" + ",\n".join(rows) + "]\n\nend Verif.Gen.RuleFields\n")


if __name__ == "__main__":
    import sys
    for r in scan(sys.argv[1] if len(sys.argv) > 1 else "/repo"):
        un = sorted(set(r["written"]) - set(r["reset"]))
        if un or r["nonSelf"] or r["classMut"] or r["resetNonConst"] or (r["written"] and not r["hasStart"]):
            print(r["id"], "hasStart", r["hasStart"], "UNRESET", un, "NONCONST", r["resetNonConst"], "NONSELF", r["nonSelf"], "CLASSMUT", r["classMut"])
