"""Translator: statics of the PARSER and the application shell -> Verif/Gen/ParserStatics.lean   (property C13).

Everything that lives longer than one document inside one process must be re-initialised per document or be constant.
The table has one row per piece of such state in the parser / shell sources (rules are covered by rule_fields.py):

 (a) class-level and module-level bindings whose value is mutable (list/dict/set literals and comprehensions,
     constructor calls such as `threading.local()`, `ParserLogger(...)`, `logging.getLogger(...)`), and every
     class attribute / module global that is WRITTEN by a function, however it was bound:
       `Cls.x = …`, `Cls.x += …`, `Cls.x[k] = …`, `Cls.x.append(…)`, `cls.x = …` in classmethods, `self.__class__.x`,
       `self.x.append(…)` when x is only bound at class level, `global x`, mutation of a module global, and the same
       through a one-step local alias (`t = Cls.x; t[k] = v`);
 (b) every instance attribute of the long-lived objects: the classes named in LONG_LIVED plus every in-scope class
     of which an instance is reachable, by REFLECTION, from a configured `PyMarkdownLint` / `FileScanHelper` right
     before the first document, or from a module global / class attribute of an in-scope module.

Columns:  owner, name, kind (class/module/instance), value (shape of the binding), writers (functions other than the
constructor and import-time code that write it), docWriters (the writers reachable, in a name-resolved call graph, from
the per-document roots DOC_ROOTS), resetOnDocPath (re-bound as a whole, unconditionally, before anything else touches
it, at the start of the per-document entry functions — see `reset_walk`), constant (docWriters = []: never written
after import/configuration).

`entryCallers` lists the in-scope call sites of the per-document entry functions.
A shape the translator cannot analyse raises TranslateError (reported as a broken tie).
"""
import ast, json, os, re, subprocess, sys

TARGET = "ParserStatics.lean"


class TranslateError(Exception):
    pass


SCOPE_DIRS = ["general", "container_blocks", "block_quotes", "list_blocks", "leaf_blocks", "inline", "links", "html",
              "coalesce", "tokens", "transform_gfm", "transform_markdown", "extensions", "extension_manager",
              "plugin_manager"]
SCOPE_FILES = ["main.py", "file_scan_helper.py", "api.py", "return_code_helper.py"]          # + application_*.py

MUT = {"append", "extend", "insert", "pop", "remove", "clear", "add", "update", "discard", "setdefault", "popitem",
       "sort", "reverse", "appendleft", "popleft", "__setitem__", "__delitem__", "__setattr__", "__delattr__",
       "intersection_update", "difference_update", "symmetric_difference_update"}

# long-lived objects named by the property; reflection adds what else is reachable
LONG_LIVED = ["TokenizedMarkdown", "ParseBlockPassProperties", "PluginManager", "ExtensionManager", "FileScanHelper",
              "PyMarkdownLint", "PyMarkdownApi", "ParserLogger"]

# per-document entry functions, grouped: a static counts as reset when EVERY entry of one group resets it
ENTRY_GROUPS = {
    "tokenizer": ["TokenizedMarkdown.transform_from_provider", "TokenizedMarkdown.transform"],
    "plugins": ["PluginManager.starting_new_file"],
}
# roots of "code that runs per document" for the call-graph reachability
DOC_ROOTS = ["FileScanHelper.__scan_specific_file", "FileScanHelper.__fix_specific_file",
             "TokenizedMarkdown.transform_from_provider", "TokenizedMarkdown.transform",
             "PluginManager.starting_new_file", "PluginManager.next_token", "PluginManager.next_line",
             "PluginManager.completed_file", "PluginManager.compile_pragmas", "PluginManager.log_scan_failure",
             "PluginManager.log_pragma_failure", "TransformToGfm.transform", "TransformToMarkdown.transform"]
# classes whose every method can be called by code outside the scope (the rules) while a document is processed
DOC_ROOT_CLASSES = ["PluginScanContext", "RulePlugin", "PluginModifyContext"]

INIT_NAME = re.compile(r"^_*(initialize|reset|clear)(_|$)")
CTOR = {"__init__", "__post_init__", "__new__"}
IMMUT_CALL = re.compile(r"^(frozenset|tuple|str|int|float|bool|len|chr|ord|bytes|re\.compile|os\.path\.\w+|"
                        r"os\.getenv|TypeVar|NewType|namedtuple|cast|enum\.auto|auto|field|.*\.join|.*\.format|"
                        r".*\.lower|.*\.upper|.*\.strip|.*\.replace|property|staticmethod|classmethod)$")
CONTAINER_CALL = {"dict": "dict", "list": "list", "set": "set", "defaultdict": "dict", "collections.defaultdict": "dict",
                  "OrderedDict": "dict", "collections.OrderedDict": "dict", "deque": "list", "collections.deque": "list",
                  "bytearray": "list", "Counter": "dict", "collections.Counter": "dict"}
LOG_ROOTS = {"POGGER", "LOGGER", "logging"}


# ---------------------------------------------------------------------------------------------- source model
class Mod:
    def __init__(self, name, path, tree):
        self.name, self.path, self.tree = name, path, tree
        self.tail = name.split(".", 1)[1] if "." in name else name        # without the leading "pymarkdown."
        self.bind = {}       # module-level name -> value shape
        self.imports = {}    # local name -> (module, original name)   for `from m import n [as k]`
        self.modalias = {}   # local name -> module                    for `import m [as k]`
        self.funcs = {}      # module-level function name -> Fn


class Cls:
    def __init__(self, name, mod, node):
        self.name, self.mod, self.node = name, mod, node
        self.bases = [b.id if isinstance(b, ast.Name) else b.attr for b in node.bases if isinstance(b, (ast.Name, ast.Attribute))]
        self.bind = {}       # class-level name -> value shape
        self.meth = {}       # name -> Fn
        self.whole = {}      # instance attr -> set of functions assigning `self.attr = …`
        self.types = {}      # instance attr -> class name


class Fn:
    def __init__(self, qual, node, cls, mod, deco):
        self.qual, self.node, self.cls, self.mod, self.deco = qual, node, cls, mod, deco
        self.name = node.name
        a = node.args
        self.params = [x.arg for x in a.posonlyargs + a.args + a.kwonlyargs] + ([a.vararg.arg] if a.vararg else []) + ([a.kwarg.arg] if a.kwarg else [])
        self.ptypes = {x.arg: ann_class(x.annotation) for x in a.posonlyargs + a.args + a.kwonlyargs if x.annotation is not None}
        self.globals_ = set()
        self.locals_ = set(self.params)
        for n in ast.walk(node):
            if isinstance(n, (ast.Global, ast.Nonlocal)):
                self.globals_ |= set(n.names)
        for n in ast.walk(node):
            if isinstance(n, ast.Name) and isinstance(n.ctx, (ast.Store, ast.Del)) and n.id not in self.globals_:
                self.locals_.add(n.id)
            elif isinstance(n, (ast.FunctionDef, ast.AsyncFunctionDef, ast.ClassDef)) and n is not node:
                self.locals_.add(n.name)
            elif isinstance(n, ast.arg):
                self.locals_.add(n.arg)
            elif isinstance(n, ast.ExceptHandler) and n.name:
                self.locals_.add(n.name)
            elif isinstance(n, (ast.Import, ast.ImportFrom)):
                for al in n.names:
                    self.locals_.add((al.asname or al.name).split(".")[0])
        self.alias = {}      # local name -> expression (pure attribute chain) it was bound to, when bound exactly once


def ann_class(ann):
    """Class name mentioned by an annotation (`Optional[X]`, `"X"`, `X`), else None."""
    if ann is None:
        return None
    if isinstance(ann, ast.Constant) and isinstance(ann.value, str):
        try:
            ann = ast.parse(ann.value, mode="eval").body
        except SyntaxError:
            return None
    if isinstance(ann, ast.Subscript):
        base = ast.unparse(ann.value).split(".")[-1]
        if base in ("Optional", "Final", "ClassVar"):
            return ann_class(ann.slice)
        return None
    if isinstance(ann, ast.Name):
        return ann.id
    if isinstance(ann, ast.Attribute):
        return ann.attr
    return None


def shape(v):
    """(shape, mutable) of a binding's value expression."""
    if v is None:
        return "unset", False
    if isinstance(v, (ast.Constant, ast.JoinedStr, ast.Lambda)):
        return "const", False
    if isinstance(v, (ast.List, ast.ListComp)):
        return "list", True
    if isinstance(v, (ast.Dict, ast.DictComp)):
        return "dict", True
    if isinstance(v, (ast.Set, ast.SetComp)):
        return "set", True
    if isinstance(v, ast.Tuple):
        inner = [shape(e) for e in v.elts]
        return ("tuple", True) if any(m for _, m in inner) else ("const", False)
    if isinstance(v, ast.GeneratorExp):
        return "object:generator", True
    if isinstance(v, (ast.BinOp, ast.BoolOp, ast.UnaryOp, ast.Compare, ast.IfExp)):
        subs = [shape(e) for e in ast.iter_child_nodes(v) if isinstance(e, ast.expr)]
        mut = [s for s, m in subs if m]
        return (mut[0], True) if mut else ("const", False)
    if isinstance(v, (ast.Name, ast.Attribute, ast.Subscript)):
        return "ref", False
    if isinstance(v, ast.Call):
        callee = ast.unparse(v.func)
        if callee in CONTAINER_CALL:
            return CONTAINER_CALL[callee], True
        if IMMUT_CALL.match(callee):
            return "const", False
        if callee in ("logging.getLogger", "getLogger"):
            return "logger", True
        return "object:" + callee, True
    if isinstance(v, ast.NamedExpr):
        return shape(v.value)
    raise TranslateError(f"unrecognised binding value {ast.dump(v)[:80]}")


def bindings(body, out, where):
    """Names bound by the statements of a class / module body (descending into if/try/with/for at that level)."""
    for n in body:
        if isinstance(n, ast.Assign):
            for t in n.targets:
                for e in flat_targets(t):
                    if isinstance(e, ast.Name):
                        out[e.id] = shape(n.value) if len(n.targets) == 1 and isinstance(t, ast.Name) else merge(out.get(e.id), shape(n.value))
        elif isinstance(n, ast.AnnAssign) and isinstance(n.target, ast.Name):
            out[n.target.id] = shape(n.value)
        elif isinstance(n, ast.AugAssign) and isinstance(n.target, ast.Name):
            out[n.target.id] = merge(out.get(n.target.id), shape(n.value))
        elif isinstance(n, (ast.If, ast.Try, ast.With, ast.For, ast.While)):
            for fld in ("body", "orelse", "finalbody"):
                bindings(getattr(n, fld, []) or [], out, where)
            for h in getattr(n, "handlers", []) or []:
                bindings(h.body, out, where)
            if isinstance(n, ast.For):
                for e in flat_targets(n.target):
                    if isinstance(e, ast.Name):
                        out[e.id] = ("ref", False)


def merge(a, b):
    if a is None:
        return b
    return a if a[1] else b


def flat_targets(t):
    stack, out = [t], []
    while stack:
        e = stack.pop()
        if isinstance(e, (ast.Tuple, ast.List)):
            stack.extend(e.elts)
        elif isinstance(e, ast.Starred):
            stack.append(e.value)
        else:
            out.append(e)
    return out


def store_targets(n):
    """[(target expression, value expression or None, augmented?)] for statement / expression node n."""
    if isinstance(n, ast.Assign):
        out = []
        for t in n.targets:
            if isinstance(t, (ast.Tuple, ast.List)) and isinstance(n.value, (ast.Tuple, ast.List)) and len(t.elts) == len(n.value.elts) \
                    and not any(isinstance(e, ast.Starred) for e in t.elts):
                for e, v in zip(t.elts, n.value.elts):
                    out += [(x, v if x is e else None, False) for x in flat_targets(e)]
            else:
                out += [(x, n.value if x is t else None, False) for x in flat_targets(t)]
        return out
    if isinstance(n, ast.AugAssign):
        return [(n.target, None, True)]
    if isinstance(n, ast.AnnAssign):
        return [(n.target, n.value, False)] if n.value is not None else []
    if isinstance(n, ast.Delete):
        return [(x, None, True) for t in n.targets for x in flat_targets(t)]
    if isinstance(n, (ast.For, ast.AsyncFor)):
        return [(x, None, False) for x in flat_targets(n.target)]
    if isinstance(n, ast.NamedExpr):
        return [(n.target, n.value, False)]
    if isinstance(n, (ast.With, ast.AsyncWith)):
        return [(x, None, False) for it in n.items if it.optional_vars is not None for x in flat_targets(it.optional_vars)]
    if isinstance(n, ast.comprehension):
        return [(x, None, False) for x in flat_targets(n.target)]
    return []


def chain(e):
    """(root expression, [attribute names up to the first subscript/call], exact) for a store target / receiver."""
    parts = []
    while True:
        if isinstance(e, ast.Attribute):
            parts.append(("a", e.attr)); e = e.value
        elif isinstance(e, ast.Subscript):
            parts.append(("s", None)); e = e.value
        elif isinstance(e, ast.Call):
            parts.append(("c", None)); e = e.func
        elif isinstance(e, ast.Starred):
            e = e.value
        else:
            break
    parts.reverse()
    attrs, exact = [], True
    for k, v in parts:
        if k != "a":
            exact = False
            break
        attrs.append(v)
    return e, attrs, exact


class Model:
    def __init__(self, repo):
        self.repo = repo
        self.mods, self.classes, self.fns = {}, {}, {}
        root = os.path.join(repo, "pymarkdown")
        files = []
        for d in SCOPE_DIRS:
            dd = os.path.join(root, d)
            if not os.path.isdir(dd):
                raise TranslateError(f"scope directory pymarkdown/{d} is missing")
            files += [os.path.join(dd, f) for f in sorted(os.listdir(dd)) if f.endswith(".py")]
        for f in SCOPE_FILES:
            if not os.path.exists(os.path.join(root, f)):
                raise TranslateError(f"pymarkdown/{f} is missing")
            files.append(os.path.join(root, f))
        files += [os.path.join(root, f) for f in sorted(os.listdir(root)) if re.match(r"application_\w+\.py$", f)]
        if len(files) < 130:
            raise TranslateError(f"only {len(files)} source files in scope")
        for p in files:
            rel = os.path.relpath(p, repo)[:-3].replace(os.sep, ".")
            if rel.endswith(".__init__"):
                rel = rel[:-9]
            m = Mod(rel, p, ast.parse(open(p, encoding="utf-8").read(), filename=p))
            self.mods[rel] = m
        for m in self.mods.values():
            self.load_module(m)
        self.nfiles = len(files)

    # ------------------------------------------------------------------ loading
    def load_module(self, m):
        bindings(m.tree.body, m.bind, m.name)
        for n in ast.walk(m.tree):
            if isinstance(n, ast.ImportFrom) and n.module:
                for al in n.names:
                    m.imports[al.asname or al.name] = (n.module, al.name)
            elif isinstance(n, ast.Import):
                for al in n.names:
                    m.modalias[al.asname or al.name.split(".")[0]] = al.name if al.asname else al.name.split(".")[0]
        self.load_body(m, m.tree.body, None)

    def load_body(self, m, body, outer):
        for n in body:
            if isinstance(n, ast.ClassDef):
                if n.name in self.classes:
                    raise TranslateError(f"class name {n.name} defined twice in scope ({self.classes[n.name].mod.name}, {m.name})")
                c = Cls(n.name, m, n)
                self.classes[n.name] = c
                bindings(n.body, c.bind, n.name)
                if any(ast.unparse(d).split("(")[0].split(".")[-1] == "dataclass" for d in n.decorator_list):
                    # dataclass fields are instance attributes assigned by the generated __init__
                    for k in n.body:
                        if isinstance(k, ast.AnnAssign) and isinstance(k.target, ast.Name) and "ClassVar" not in ast.unparse(k.annotation):
                            c.bind.pop(k.target.id, None)
                            c.whole.setdefault(k.target.id, set()).add(f"{n.name}.__init__")
                            ty = ann_class(k.annotation)
                            if ty:
                                c.types.setdefault(k.target.id, ty)
                for k in n.body:
                    if isinstance(k, (ast.FunctionDef, ast.AsyncFunctionDef)):
                        deco = {ast.unparse(d).split("(")[0].split(".")[-1] for d in k.decorator_list}
                        f = Fn(f"{n.name}.{k.name}", k, c, m, deco)
                        if f.qual in self.fns:      # property getter/setter pairs share a name
                            f.qual = f"{n.name}.{k.name}#{'setter' if 'setter' in deco else k.lineno}"
                        c.meth.setdefault(k.name, f)
                        self.fns[f.qual] = f
                    elif isinstance(k, ast.ClassDef):
                        self.load_body(m, [k], c)
            elif isinstance(n, (ast.FunctionDef, ast.AsyncFunctionDef)):
                f = Fn(f"{m.tail}:{n.name}", n, None, m, set())
                m.funcs[n.name] = f
                self.fns[f.qual] = f
            elif isinstance(n, (ast.If, ast.Try)):
                self.load_body(m, n.body + n.orelse + getattr(n, "finalbody", []), outer)

    def mro(self, cname):
        out, todo = [], [cname]
        while todo:
            k = todo.pop(0)
            if k in self.classes and k not in out:
                out.append(k)
                todo += self.classes[k].bases
        return out

    def subclasses(self, cname):
        return [k for k in self.classes if k != cname and cname in self.mro(k)]

    def class_binding_owner(self, cname, attr):
        for k in self.mro(cname):
            if attr in self.classes[k].bind:
                return k
        return None

    def resolve_class(self, fn, name):
        """In-scope class denoted by the bare name `name` inside function fn (not shadowed by a local)."""
        if name in fn.locals_ or name not in self.classes:
            return None
        return name

    # ------------------------------------------------------------------ instance attribute typing
    def type_instance_attrs(self):
        for c in self.classes.values():
            for f in c.meth_all():
                for n in ast.walk(f.node):
                    for t, v, aug in store_targets(n):
                        r, attrs, exact = chain(t)
                        if not (isinstance(r, ast.Name) and r.id == "self" and len(attrs) == 1 and exact and not aug):
                            continue
                        if isinstance(n, ast.Delete):
                            continue
                        a = attrs[0]
                        c.whole.setdefault(a, set()).add(f.qual)
                        ty = None
                        if isinstance(n, ast.AnnAssign):
                            ty = ann_class(n.annotation)
                        if ty not in self.classes and isinstance(v, ast.Call):
                            cal = ast.unparse(v.func).split(".")[-1]
                            ty = cal if cal in self.classes else ty
                        if ty not in self.classes and isinstance(v, ast.Name) and v.id in f.ptypes:
                            ty = f.ptypes[v.id]
                        if ty not in self.classes and isinstance(v, ast.BoolOp):     # x or Default()
                            for e in v.values:
                                if isinstance(e, ast.Name) and f.ptypes.get(e.id) in self.classes:
                                    ty = f.ptypes[e.id]
                                elif isinstance(e, ast.Call) and ast.unparse(e.func).split(".")[-1] in self.classes:
                                    ty = ast.unparse(e.func).split(".")[-1]
                        if ty in self.classes:
                            c.types.setdefault(a, ty)

    def attr_type(self, cname, attr):
        for k in self.mro(cname):
            if attr in self.classes[k].types:
                return self.classes[k].types[attr]
        return None

    def inst_attr_owner(self, cname, attr):
        for k in self.mro(cname):
            if attr in self.classes[k].whole:
                return k
        return None


def _meth_all(self):
    return [f for f in MODEL.fns.values() if f.cls is self]


Cls.meth_all = _meth_all
MODEL = None


# ---------------------------------------------------------------------------------------------- writes
class Write:
    __slots__ = ("kind", "owner", "name", "fn", "whole", "node")

    def __init__(self, kind, owner, name, fn, whole, node):
        self.kind, self.owner, self.name, self.fn, self.whole, self.node = kind, owner, name, fn, whole, node


def collect_aliases(M, f):
    counts, val = {}, {}
    for n in ast.walk(f.node):
        for t, v, aug in store_targets(n):
            if isinstance(t, ast.Name):
                counts[t.id] = counts.get(t.id, 0) + 1
                val[t.id] = v if isinstance(n, (ast.Assign, ast.AnnAssign, ast.NamedExpr)) else None
    for k, cnt in counts.items():
        v = val.get(k)
        if cnt == 1 and k not in f.params and isinstance(v, ast.Call) and isinstance(v.func, ast.Name) and v.func.id in M.classes \
                and v.func.id not in f.locals_:
            f.ptypes.setdefault(k, v.func.id)      # x = Cls(...)
        if cnt == 1 and k not in f.params and isinstance(v, (ast.Attribute, ast.Name)):
            r, attrs, exact = chain(v)
            if exact and isinstance(r, ast.Name) and r.id != k:
                f.alias[k] = v


def resolve_target(M, f, e, partial, public_names, depth=0):
    """Writes denoted by a store to expression e (partial = a mutation of the object held there)."""
    r, attrs, exact = chain(e)
    whole = exact and not partial
    out = []
    if not isinstance(r, ast.Name):
        return out          # (a or b).x, f().x … : not a static
    name = r.id
    c = f.cls
    # self.__class__.x  /  type(self).x
    if name == "self" and attrs[:1] == ["__class__"] and c is not None and "staticmethod" not in f.deco:
        name, attrs = "cls", attrs[1:]
    if name == "self" and c is not None and "staticmethod" not in f.deco and "self" in f.params[:1]:
        if not attrs:
            return out
        return resolve_instance(M, f, c.name, attrs, whole, e, public_names)
    if name == "cls" and c is not None and "classmethod" in f.deco:
        if attrs:
            own = M.class_binding_owner(c.name, attrs[0]) or c.name
            out.append(Write("class", own, attrs[0], f.qual, whole and len(attrs) == 1, e))
        return out
    k = M.resolve_class(f, name)
    if k is not None:
        if attrs:
            own = M.class_binding_owner(k, attrs[0]) or k
            out.append(Write("class", own, attrs[0], f.qual, whole and len(attrs) == 1, e))
        return out
    if name in f.locals_:
        if name in f.alias and depth < 3:
            # t = Cls.x ; t[k] = v      (the alias itself being re-bound is not a write to Cls.x)
            if attrs or not exact or partial:
                base = f.alias[name]
                rebuilt = base
                for a in attrs:
                    rebuilt = ast.Attribute(value=rebuilt, attr=a, ctx=ast.Load())
                out += resolve_target(M, f, rebuilt, True if not attrs else partial or not exact, public_names, depth + 1)
                if out:
                    return out
        # write through a local / parameter: matched by attribute NAME against the long-lived classes' public attrs
        if attrs and not attrs[-1].startswith("__"):
            ty = f.ptypes.get(name)
            if ty in M.classes and len(attrs) >= 1:
                return resolve_instance(M, f, ty, attrs, whole, e, public_names)
            for own in public_names.get(attrs[-1], []):
                out.append(Write("instance", own, attrs[-1], f.qual, whole, e))
        return out
    # a module global of this module, or a name imported from an in-scope module
    m = f.mod
    if name in m.bind and name not in m.imports:
        out.append(Write("module", m.tail, name, f.qual, whole and not attrs, e))
    elif name in m.imports:
        src, orig = m.imports[name]
        sm = M.mods.get(src)
        if sm is not None and orig in sm.bind:
            out.append(Write("module", sm.tail, orig, f.qual, False, e))
    elif name in m.modalias and attrs:
        sm = M.mods.get(m.modalias[name])
        if sm is not None:
            out.append(Write("module", sm.tail, attrs[0], f.qual, whole and len(attrs) == 1, e))
    return out


def resolve_instance(M, f, cname, attrs, whole, e, public_names):
    """Store to <instance of cname>.attrs…"""
    out = []
    a = attrs[0]
    if any(a in M.classes[k].meth for k in M.mro(cname)):
        return out          # a property / method: the object it returns is not an attribute of the instance
    if len(attrs) == 1:
        own_i = M.inst_attr_owner(cname, a)
        own_c = M.class_binding_owner(cname, a)
        if own_i is None and own_c is not None and not whole:
            # self.x.append(…) where x is bound at class level only: the shared class-level object is mutated
            out.append(Write("class", own_c, a, f.qual, False, e))
        else:
            out.append(Write("instance", own_i or cname, a, f.qual, whole, e))
        return out
    ty = M.attr_type(cname, a)
    if ty is not None:
        return resolve_instance(M, f, ty, attrs[1:], whole, e, public_names)
    # untyped intermediate object: a deep write below self.a, and a name match on the last attribute
    out.append(Write("instance", M.inst_attr_owner(cname, a) or cname, a, f.qual, False, e))
    if not attrs[-1].startswith("__"):
        for own in public_names.get(attrs[-1], []):
            out.append(Write("instance", own, attrs[-1], f.qual, whole, e))
    return out


def call_candidates(M, f, call):
    """[(callee Fn, number of leading parameters bound implicitly)] for a call expression inside f."""
    fn = call.func
    out = []
    if isinstance(fn, ast.Attribute):
        for q_ in resolve_attr(M, f, fn):
            g = M.fns[q_]
            out.append((g, 0 if (g.cls is None or "staticmethod" in g.deco) else 1))
    elif isinstance(fn, ast.Name) and fn.id not in f.locals_:
        if fn.id in M.classes:
            for k in M.mro(fn.id):
                out += [(g, 1) for g in M.classes[k].meth_all() if g.name in CTOR]
        elif fn.id in f.mod.funcs:
            out.append((f.mod.funcs[fn.id], 0))
        elif fn.id in f.mod.imports:
            sm = M.mods.get(f.mod.imports[fn.id][0])
            if sm is not None and f.mod.imports[fn.id][1] in sm.funcs:
                out.append((sm.funcs[f.mod.imports[fn.id][1]], 0))
    return out


def bound_params(g, skip, call):
    """[(argument expression, parameter name of g)] for the arguments of `call`."""
    a = g.node.args
    pos = [x.arg for x in a.posonlyargs + a.args][skip:]
    names = set(pos) | {x.arg for x in a.kwonlyargs}
    out = []
    for i, e in enumerate(call.args):
        if isinstance(e, ast.Starred):
            break
        if i < len(pos):
            out.append((e, pos[i]))
    for kw in call.keywords:
        if kw.arg in names:
            out.append((kw.value, kw.arg))
    return out


def param_mutation(M):
    """{function: parameters whose object the function mutates} — directly (store below the parameter, mutating method
    call on it) or by handing it on to a parameter that is mutated (fixpoint)."""
    mut = {}
    for f in M.fns.values():
        ps = set(f.params) - {"self", "cls"}
        got = set()
        for n in ast.walk(f.node):
            for t, v, aug in store_targets(n):
                r, attrs, exact = chain(t)
                if isinstance(r, ast.Name) and r.id in ps and (attrs or not exact or (aug and not isinstance(t, ast.Name))):
                    got.add(r.id)
                elif isinstance(r, ast.Name) and r.id in ps and aug and isinstance(t, ast.Name):
                    got.add(r.id)        # p += [...] mutates a list in place
            if isinstance(n, ast.Call) and isinstance(n.func, ast.Attribute) and n.func.attr in MUT:
                r, attrs, exact = chain(n.func.value)
                if isinstance(r, ast.Name) and r.id in ps:
                    got.add(r.id)
        mut[f.qual] = got
    calls = []
    for f in M.fns.values():
        ps = set(f.params) - {"self", "cls"}
        for n in ast.walk(f.node):
            if isinstance(n, ast.Call) and any(isinstance(e, ast.Name) and e.id in ps for e in list(n.args) + [k.value for k in n.keywords]):
                for g, skip in call_candidates(M, f, n):
                    for e, pname in bound_params(g, skip, n):
                        if isinstance(e, ast.Name) and e.id in ps:
                            calls.append((f.qual, e.id, g.qual, pname))
    changed = True
    while changed:
        changed = False
        for fq, p_, gq, pname in calls:
            if pname in mut[gq] and p_ not in mut[fq]:
                mut[fq].add(p_)
                changed = True
    return mut


def collect_writes(M, public_names):
    writes = []
    for f in M.fns.values():
        collect_aliases(M, f)
    M.byname = {}
    for f in M.fns.values():
        M.byname.setdefault(f.name, []).append(f.qual)
    pmut = param_mutation(M)
    for f in M.fns.values():
        for n in ast.walk(f.node):
            for t, v, aug in store_targets(n):
                if isinstance(t, ast.Name):
                    if t.id in f.globals_:
                        m = f.mod
                        writes.append(Write("module", m.tail, t.id, f.qual, not aug, t))
                    continue
                writes += resolve_target(M, f, t, aug, public_names)
            if isinstance(n, ast.Call) and isinstance(n.func, ast.Attribute) and n.func.attr in MUT:
                writes += resolve_target(M, f, n.func.value, True, public_names)
            if isinstance(n, ast.Call) and isinstance(n.func, ast.Name) and n.func.id in ("setattr", "delattr"):
                raise TranslateError(f"{f.qual}: {n.func.id}() is not analysed")
            if isinstance(n, ast.Call):
                # a tracked object handed to a function that mutates the receiving parameter
                cands = None
                for e in list(n.args) + [k.value for k in n.keywords]:
                    if not isinstance(e, (ast.Attribute, ast.Name)):
                        continue
                    r, attrs, exact = chain(e)
                    if not exact or not isinstance(r, ast.Name) or (isinstance(e, ast.Name) and (e.id in f.locals_ or e.id not in f.mod.bind)):
                        continue
                    if cands is None:
                        cands = call_candidates(M, f, n)
                    hit = any(pname in pmut[g.qual] for g, skip in cands for a_, pname in bound_params(g, skip, n) if a_ is e)
                    if hit:
                        writes += resolve_target(M, f, e, True, public_names)
    return writes


# ---------------------------------------------------------------------------------------------- call graph
EDGES = {}
_MENTIONS = {}


def mentions(M, f, public_names):
    """Keys (kind, owner, name) that function f mentions syntactically (reads or writes)."""
    if f.qual not in _MENTIONS:
        out = set()
        for n in ast.walk(f.node):
            if isinstance(n, ast.Attribute) or (isinstance(n, ast.Name) and n.id in f.mod.bind and n.id not in f.locals_):
                for w in resolve_target(M, f, n, True, public_names):
                    out.add((w.kind, w.owner, w.name))
        _MENTIONS[f.qual] = out
    return _MENTIONS[f.qual]


def methods_of(M, cname, attr):
    out = []
    for k in M.mro(cname) + M.subclasses(cname):
        g = M.classes[k].meth.get(attr)
        if g is not None:
            out += [x.qual for x in M.classes[k].meth_all() if x.name == attr]
    return out


def resolve_attr(M, f, n):
    """In-scope functions that the attribute expression n (`recv.attr`) may denote inside f."""
    attr, v = n.attr, n.value
    got = None
    if isinstance(v, ast.Call) and isinstance(v.func, ast.Name) and v.func.id == "super" and f.cls is not None:
        got = [x.qual for k in M.mro(f.cls.name)[1:] for x in M.classes[k].meth_all() if x.name == attr]
    elif isinstance(v, ast.Name):
        if v.id in ("self", "cls") and f.cls is not None and v.id in (f.params[:1] or [""]):
            got = methods_of(M, f.cls.name, attr)
            if not got and (M.inst_attr_owner(f.cls.name, attr) or M.class_binding_owner(f.cls.name, attr)):
                got = M.byname.get(attr, [])      # a stored callable: anything of that name
        elif M.resolve_class(f, v.id):
            got = methods_of(M, v.id, attr)
        elif v.id in f.ptypes and f.ptypes[v.id] in M.classes:
            got = methods_of(M, f.ptypes[v.id], attr)
    elif isinstance(v, ast.Attribute) and isinstance(v.value, ast.Name) and v.value.id == "self" and f.cls is not None:
        ty = M.attr_type(f.cls.name, v.attr)
        if ty:
            got = methods_of(M, ty, attr)
    if got is None:
        got = M.byname.get(attr, [])
    return got


def call_graph(M):
    M.byname = {}
    for f in M.fns.values():
        M.byname.setdefault(f.name, []).append(f.qual)
    edges = {}
    for f in M.fns.values():
        es = set()
        for n in ast.walk(f.node):
            if isinstance(n, ast.Attribute):
                es |= set(resolve_attr(M, f, n))
            elif isinstance(n, ast.Name) and isinstance(n.ctx, ast.Load) and n.id not in f.locals_:
                m = f.mod
                if n.id in m.funcs:
                    es.add(m.funcs[n.id].qual)
                elif n.id in m.imports:
                    sm = M.mods.get(m.imports[n.id][0])
                    if sm is not None and m.imports[n.id][1] in sm.funcs:
                        es.add(sm.funcs[m.imports[n.id][1]].qual)
            if isinstance(n, ast.Call) and isinstance(n.func, ast.Name) and n.func.id in M.classes and n.func.id not in f.locals_:
                for k in M.mro(n.func.id):      # constructor call
                    es |= {x.qual for x in M.classes[k].meth_all() if x.name in CTOR}
        edges[f.qual] = es
    EDGES.clear(); EDGES.update(edges); _MENTIONS.clear()
    return edges


def reachable(edges, roots):
    seen, todo = set(), list(roots)
    while todo:
        k = todo.pop()
        if k in seen:
            continue
        seen.add(k)
        todo += [e for e in edges.get(k, ()) if e not in seen]
    return seen


# ---------------------------------------------------------------------------------------------- reset walk
def is_logging_call(call):
    r, attrs, _ = chain(call.func)
    return isinstance(r, ast.Name) and r.id in LOG_ROOTS


def reset_walk(M, entry, public_names):
    """Keys (kind, owner, name) that are re-bound as a whole at the start of the per-document entry function `entry`,
    before anything else on that path touches them.

    The walk follows the statements of the entry function in order.  Straight-line statements are: asserts, logging
    calls, assignments, `return`/expression statements; `try:` continues with its body.  A call `self.m(…)` or
    `Cls.m(…)` to an in-scope function that occurs in a straight-line statement is followed (in order).  The walk of
    a function ends — and with it the walk of all its callers — at the first compound statement (if/for/while/with/
    match) or at a call it cannot follow; inside functions named initialize*/reset*/clear* a compound statement only
    marks everything it mentions as touched and the walk continues behind it.  A key is RESET when a whole assignment
    to it is met and the key was not touched (read, mutated, augmented) earlier in the walk."""
    reset, touched, visiting = set(), set(), set()

    def touch_expr(f, e):
        for n in ast.walk(e):
            if isinstance(n, (ast.Attribute, ast.Name)):
                for w in resolve_target(M, f, n, True, public_names) if isinstance(n, ast.Attribute) or n.id in f.mod.bind else []:
                    touched.add((w.kind, w.owner, w.name))

    def callee_of(f, call):
        fn = call.func
        if not isinstance(fn, ast.Attribute):
            return None
        v = fn.value
        cands = []
        if isinstance(v, ast.Name) and v.id in ("self", "cls") and f.cls is not None:
            cands = [M.classes[k].meth.get(fn.attr) for k in M.mro(f.cls.name)]
        elif isinstance(v, ast.Name) and M.resolve_class(f, v.id):
            cands = [M.classes[k].meth.get(fn.attr) for k in M.mro(v.id)]
        cands = [c for c in cands if c is not None]
        return cands[0] if cands else None

    def neutral_call(f, call):
        """A call that cannot touch tracked state: logging, or a constructor / pure helper with plain arguments."""
        if is_logging_call(call):
            return True
        fn = call.func
        if isinstance(fn, ast.Name) and (fn.id in M.classes or fn.id in ("len", "bool", "str", "int", "list", "dict", "set", "cast", "tuple")):
            return True
        return False

    def walk_fn(f):
        """Returns True when the walk reached the end of f (so it may continue in the caller)."""
        if f.qual in visiting:
            return False
        visiting.add(f.qual)
        ok = walk_body(f, f.node.body, bool(INIT_NAME.match(f.name)))
        visiting.discard(f.qual)
        return ok

    def walk_calls(f, expr, init_mode):
        """Follow the in-scope calls inside a straight-line expression (source order).  Returns False when the walk has
        to end.  In an initialiser a call that cannot be followed to its end does not end the walk: everything the
        callee can mention (transitively, call graph) is marked as touched instead."""
        calls = sorted((n for n in ast.walk(expr) if isinstance(n, ast.Call)), key=lambda n: (n.end_lineno, n.end_col_offset))
        for c in calls:
            if neutral_call(f, c):
                continue
            g = callee_of(f, c)
            if g is not None and walk_fn(g):
                continue
            if not init_mode:
                return False
            cands = [g.qual] if g is not None else (resolve_attr(M, f, c.func) if isinstance(c.func, ast.Attribute) else [])
            for q_ in reachable(EDGES, cands):
                touched.update(mentions(M, M.fns[q_], public_names))
        return True

    def walk_body(f, body, init_mode):
        for st in body:
            if isinstance(st, ast.Expr) and isinstance(st.value, ast.Constant):
                continue                                   # docstring
            if isinstance(st, (ast.Pass, ast.Global, ast.Nonlocal, ast.Import, ast.ImportFrom)):
                continue
            if isinstance(st, ast.Assert):
                touch_expr(f, st.test)
                continue
            if isinstance(st, ast.Try):
                if not walk_body(f, st.body, init_mode):
                    return False
                if st.orelse or st.finalbody:
                    if not walk_body(f, st.orelse + st.finalbody, init_mode):
                        return False
                continue
            if isinstance(st, (ast.Assign, ast.AnnAssign, ast.AugAssign, ast.Expr, ast.Return)):
                val = getattr(st, "value", None)
                cont = True
                if val is not None:
                    # reads on the right-hand side come first, then the calls, then the stores
                    touch_expr(f, val)
                    cont = walk_calls(f, val, init_mode)
                if isinstance(st, (ast.Assign, ast.AnnAssign, ast.AugAssign)):
                    for t, v, aug in store_targets(st):
                        if isinstance(t, ast.Name) and t.id not in f.globals_:
                            continue
                        ws = [Write("module", f.mod.tail, t.id, f.qual, not aug, t)] if isinstance(t, ast.Name) else resolve_target(M, f, t, aug, public_names)
                        for w in ws:
                            key = (w.kind, w.owner, w.name)
                            if w.whole and key not in touched and cont:
                                reset.add(key)
                            touched.add(key)
                if not cont:
                    return False
                if isinstance(st, ast.Return):
                    return True
                continue
            # compound statement (if/for/while/with/match/…) or anything else
            if init_mode:
                touch_expr(f, st)
                for n in ast.walk(st):
                    for t, v, aug in store_targets(n):
                        if not isinstance(t, ast.Name):
                            for w in resolve_target(M, f, t, True, public_names):
                                touched.add((w.kind, w.owner, w.name))
                continue
            return False
        return True

    if entry not in M.fns:
        raise TranslateError(f"per-document entry function {entry} not found")
    walk_fn(M.fns[entry])
    return reset


# ---------------------------------------------------------------------------------------------- reflection
REFLECT = r'''
import sys, os, json, types, io, contextlib, tempfile, re, enum
scope = json.loads(sys.argv[1])
import importlib
mods = {}
for name in scope:
    try:
        mods[name] = importlib.import_module(name)
    except Exception as e:
        print(json.dumps({"error": "import %s: %s: %s" % (name, type(e).__name__, e)})); sys.exit(0)
from pymarkdown.main import PyMarkdownLint
from pymarkdown.file_scan_helper import FileScanHelper
roots = []
def hook(self, *a, **k):
    roots.append(("FileScanHelper", self))
    return False, False
FileScanHelper.process_files_to_scan = hook
d = tempfile.mkdtemp()
p = os.path.join(d, "a.md")
open(p, "w").write("# a\n")
lint = PyMarkdownLint()
roots.append(("PyMarkdownLint", lint))
with contextlib.redirect_stdout(io.StringIO()), contextlib.redirect_stderr(io.StringIO()):
    try:
        # stop at the first use of FileScanHelper: everything is configured, no document has been processed
        import pymarkdown.application_logging as al
        keep = []
        al.ApplicationLogging.terminate = lambda self: keep.append(("ApplicationLogging", self))
        lint.main(["scan", p])
    except SystemExit:
        pass
roots += keep
os.remove(p); os.rmdir(d)
IMM = (str, int, float, bool, bytes, type(None), types.FunctionType, types.BuiltinFunctionType, types.MethodType, types.ModuleType,
       type, staticmethod, classmethod, property, re.Pattern, frozenset, enum.Enum, types.MemberDescriptorType,
       types.GetSetDescriptorType, types.WrapperDescriptorType, types.MethodDescriptorType, types.MappingProxyType)
def kind(v):
    if isinstance(v, IMM): return None
    if isinstance(v, tuple): return "tuple" if any(kind(x) for x in v) else None
    if isinstance(v, (list, dict, set, bytearray)): return type(v).__name__
    m = type(v).__module__
    if m in ("typing", "abc", "_abc", "functools", "dataclasses", "_thread") and type(v).__name__ not in ("_local",): return None
    return "object:" + type(v).__name__
statics = []
for name, m in mods.items():
    for k, v in list(vars(m).items()):
        if k.startswith("__") and k.endswith("__"): continue
        if isinstance(v, type):
            if v.__module__ != name: continue
            for a, x in list(vars(v).items()):
                if (a.startswith("__") and a.endswith("__")) or a in ("_abc_impl", "_is_protocol", "_is_runtime_protocol", "_member_map_", "_member_names_", "_value2member_map_", "_hashable_values_", "_unhashable_values_", "_unhashable_values_map_", "_member_type_", "_value_repr_", "_use_args_", "_new_member_", "_generate_next_value_"):
                    continue
                if issubclass(v, enum.Enum): continue
                kd = kind(x)
                if kd: statics.append(["class", v.__name__, re.sub("^_%s__" % v.__name__.lstrip("_"), "__", a), kd])
        else:
            kd = kind(v)          # imported names are filtered by the caller (AST knows what a module imports)
            if kd: statics.append(["module", name.split(".", 1)[1] if "." in name else name, k, kd])
seen, classes = {}, {}
def walk(o, path, depth):
    if id(o) in seen or depth > 10: return
    seen[id(o)] = 1
    if isinstance(o, types.MethodType): return walk(o.__self__, path + ".__self__", depth + 1)
    if isinstance(o, IMM): return
    if isinstance(o, (list, tuple, set)):
        for x in o: walk(x, path + "[]", depth + 1)
        return
    if isinstance(o, dict):
        for x in o.values(): walk(x, path + "{}", depth + 1)
        return
    t = type(o)
    if t.__module__ in scope:
        classes.setdefault(t.__name__, path)
    for k, v in list(getattr(o, "__dict__", {}).items()):
        walk(v, path + "." + k, depth + 1)
for n, r in roots: walk(r, n, 0)
for name, m in mods.items():
    for k, v in list(vars(m).items()):
        if k.startswith("__") and k.endswith("__"): continue
        if isinstance(v, type):
            if v.__module__ == name:
                for a, x in list(vars(v).items()):
                    if not (a.startswith("__") and a.endswith("__")) and not isinstance(x, IMM): walk(x, v.__name__ + "." + a, 1)
        elif not isinstance(v, IMM):
            walk(v, name + ":" + k, 1)
print(json.dumps({"statics": statics, "long_lived": classes}))
'''


def reflect(M):
    env = dict(os.environ, PYTHONPATH=M.repo, PYTHONDONTWRITEBYTECODE="1")
    py = "/venv/bin/python" if os.path.exists("/venv/bin/python") else sys.executable
    p = subprocess.run([py, "-c", REFLECT, json.dumps(sorted(M.mods))], capture_output=True, text=True, env=env, cwd="/tmp")
    if p.returncode != 0:
        raise TranslateError("reflection failed: " + (p.stderr or p.stdout)[-400:])
    try:
        res = json.loads(p.stdout.strip().splitlines()[-1])
    except Exception:
        raise TranslateError("reflection output unreadable: " + p.stdout[-300:])
    if "error" in res:
        raise TranslateError("reflection: " + res["error"])
    return res


# ---------------------------------------------------------------------------------------------- table
def analyse(repo):
    global MODEL
    M = MODEL = Model(repo)
    M.type_instance_attrs()
    refl = reflect(M)
    long_lived = list(dict.fromkeys(LONG_LIVED + sorted(refl["long_lived"])))
    for k in LONG_LIVED:
        if k not in M.classes:
            raise TranslateError(f"long-lived class {k} not found in scope")
    long_lived = [k for k in long_lived if k in M.classes]
    # public instance attribute names of the long-lived classes, for writes made through parameters / locals
    public_names = {}
    for k in long_lived:
        for a in M.classes[k].whole:
            if not a.startswith("__"):
                public_names.setdefault(a, []).append(k)
    writes = collect_writes(M, public_names)
    edges = call_graph(M)
    roots = [r for r in DOC_ROOTS]
    for r in roots:
        if r not in M.fns:
            raise TranslateError(f"per-document root {r} not found")
    for k in DOC_ROOT_CLASSES:
        if k not in M.classes:
            raise TranslateError(f"class {k} not found")
        roots += [f.qual for f in M.classes[k].meth_all() if f.name not in CTOR]
    # implicitly called special methods (__str__, __eq__, __call__ …) never show up as call sites
    roots += [f.qual for f in M.fns.values() if re.match(r"^__\w+__$", f.name) and f.name not in CTOR]
    reach = reachable(edges, roots)
    resets = {}
    for g, entries in ENTRY_GROUPS.items():
        sets = [reset_walk(M, e, public_names) for e in entries]
        for key in set.intersection(*sets):
            resets[key] = g
    rows = {}

    def row(kind, owner, name, value):
        return rows.setdefault((kind, owner, name), dict(kind=kind, owner=owner, name=name, value=value, writers=set(), mutable=False))

    # (a) bindings
    for c in M.classes.values():
        if any(b in ("Enum", "IntEnum") for b in c.bases):
            continue
        for n, (sh, mut) in c.bind.items():
            if mut:
                row("class", c.name, n, sh)["mutable"] = True
    for m in M.mods.values():
        for n, (sh, mut) in m.bind.items():
            if mut:
                row("module", m.tail, n, sh)["mutable"] = True
    # reflection cross-check: every mutable class / module attribute that exists at run time has a row
    for kind, owner, name, kd in refl["statics"]:
        if kind == "class" and owner not in M.classes:
            continue
        key = (kind, owner, name)
        if kind == "module":
            m = M.mods.get("pymarkdown." + owner)
            if m is None or name in m.imports or name in m.modalias or name in M.classes:
                continue          # an imported object is listed where it is bound
        if key not in rows:
            r = row(kind, owner, name, kd)
            r["mutable"] = True
            r["value"] = kd + " (reflection)"
    # (b) instance attributes of long-lived classes
    for k in long_lived:
        for own in M.mro(k):
            for a in M.classes[own].whole:
                row("instance", own, a, "attr")
    # writers
    for w in writes:
        f = M.fns[w.fn]
        if w.kind == "instance":
            if w.owner not in long_lived and not any(w.owner in M.mro(k) for k in long_lived):
                continue
            if f.name in CTOR and f.cls is not None and w.owner in M.mro(f.cls.name):
                continue
            value = "attr"
        elif w.kind == "class":
            own = M.classes.get(w.owner)
            value = own.bind.get(w.name, ("unbound", False))[0] if own else "unbound"
        else:
            m = [x for x in M.mods.values() if x.tail == w.owner]
            value = m[0].bind.get(w.name, ("unbound", False))[0] if m else "unbound"
        row(w.kind, w.owner, w.name, value)["writers"].add(w.fn)
    out = []
    for key in sorted(rows):
        r = rows[key]
        ws = sorted(r["writers"])
        dws = [w for w in ws if w in reach]
        out.append(dict(owner=r["owner"], name=r["name"], kind=r["kind"], value=r["value"], writers=ws, docWriters=dws,
                        resetOnDocPath=key in resets, constant=not dws, resetBy=resets.get(key, "")))
    callers = []
    entry_names = {e for es in ENTRY_GROUPS.values() for e in es}
    for f in M.fns.values():
        for e in edges[f.qual] & entry_names:
            if f.qual != e:
                callers.append(f"{f.qual} -> {e}")
    stats = dict(files=M.nfiles, classes=len(M.classes), functions=len(M.fns), reachable=len(reach), longLived=long_lived)
    return out, sorted(callers), stats


def lstr(xs):
    return "[" + ", ".join(q(x) for x in xs) + "]"


def q(s):
    return '"' + s.replace("\\", "\\\\").replace('"', '\\"') + '"'


def render(repo):
    rows, callers, stats = analyse(repo)
    body = []
    for r in rows:
        body.append(f"  ⟨{q(r['owner'])}, {q(r['name'])}, {q(r['kind'])}, {q(r['value'])}, {lstr(r['writers'])},\n"
                    f"   {lstr(r['docWriters'])}, {'true' if r['resetOnDocPath'] else 'false'}, {'true' if r['constant'] else 'false'}⟩")
    return ("-- GENERATED by tools/translate/parser_statics.py from /repo — do not edit.\n"
            "import Verif.Model.ParserStaticsTable\nnamespace Verif.Gen.ParserStatics\nopen Verif.Model.ParserStaticsTable\n\n"
            f"/-- {stats['files']} source files, {stats['classes']} classes, {stats['functions']} functions "
            f"({stats['reachable']} reachable from the per-document roots). -/\n"
            "def rows : List Row := [\n" + ",\n".join(body) + "]\n\n"
            "/-- Classes analysed as long-lived objects (named by the property, or found reachable by reflection). -/\n"
            f"def longLived : List String := {lstr(stats['longLived'])}\n\n"
            "/-- Which per-document entry group re-binds a reset row (" + "; ".join(f"{g} = {', '.join(es)}" for g, es in ENTRY_GROUPS.items()) + "). -/\n"
            "def resetBy : List (String × String × String) := [" + ", ".join(f"({q(r['owner'])}, {q(r['name'])}, {q(r['resetBy'])})" for r in rows if r["resetBy"]) + "]\n\n"
            "/-- In-scope call sites of the per-document entry functions. -/\n"
            f"def entryCallers : List String := {lstr(callers)}\n\nend Verif.Gen.ParserStatics\n")


if __name__ == "__main__":
    rows, callers, stats = analyse(sys.argv[1] if len(sys.argv) > 1 else "/repo")
    print(stats)
    for r in rows:
        flag = "const" if r["constant"] else ("RESET" if r["resetOnDocPath"] else "EXCEPTION")
        if "-v" in sys.argv or flag != "const":
            print(f"{flag:9} {r['kind']:8} {r['owner']}.{r['name']}  [{r['value']}]  writers={r['writers']} doc={r['docWriters']}")
    print("callers:", callers)
    print(len(rows), "rows;", sum(1 for r in rows if not r["constant"] and not r["resetOnDocPath"]), "exceptions")
