"""Translator: extension flags of the parser -> Verif/Gen/ExtFlags.lean  (AST of /repo's working tree, every run).

Extracted:
 wires  ExtensionManager.apply_configuration (`self.__is_X_enabled = XExtension().get_identifier() in self.__enabled_extensions`),
        the `is_X_enabled` properties, the copy into ParseBlockPassProperties.__init__ and its properties, each extension
        class's identifier / enabled-by-default (from pymarkdown/extensions/*.py).  The extension a *name* stands for is
        recorded next to the extension it is really computed from, so a crossed wire is a table fact.
 reads  every read of a flag property anywhere under pymarkdown/, with its role (guard / copy / log).  A flag that
        flows anywhere else (assigned to a variable, returned, passed as an argument) is an unrecognised shape.
 hooks  every site outside pymarkdown/extensions and pymarkdown/extension_manager that refers to a symbol imported from
        pymarkdown.extensions.*, calls a public method defined by an extension class, or touches the strikethrough
        emphasis character, with the set of flags known to be ON there: enclosing if/elif tests, conditional
        expressions, left operands of `and`, earlier `if not flag: return` (asserts do not count), and for private helpers the
        guards common to all their call sites in the same file.
 regs   the `register_handlers` calls of InlineHandlerHelper.initialize in order (loops expanded; character values
        obtained by evaluating the argument expression in the imported module = reflection on constants) with the
        flag each sits under;   emph = the contributions to EmphasisHelper.__inline_emphasis.
Unrecognised shape -> TranslateError (reported by the check as a broken tie).
"""
import ast, glob, importlib, os, re, sys


class TranslateError(Exception):
    pass


EXT_BY_ID = {"front-matter": "frontMatter", "linter-pragmas": "pragmas", "markdown-disallow-raw-html": "disallowRawHtml",
             "markdown-task-list-items": "taskListItems", "markdown-strikethrough": "strikeThrough",
             "markdown-extended-autolinks": "extendedAutolinks"}
# the extension a flag *name* stands for
NAME_EXT = {"front_matter": "frontMatter", "linter_pragmas": "pragmas", "pragmas": "pragmas",
            "disallow_raw_html": "disallowRawHtml", "task_list_items": "taskListItems", "task_lists": "taskListItems",
            "strike_through": "strikeThrough", "extended_autolinks": "extendedAutolinks"}
# module under pymarkdown/extensions -> owning extension (None = generic registry, "-" = no parser flag)
MODULE_OWNER = {"front_matter_extension": "frontMatter", "front_matter_markdown_token": "frontMatter",
                "pragma_token": "pragmas", "task_list_items": "taskListItems", "markdown_strikethrough": "strikeThrough",
                "extended_autolinks": "extendedAutolinks", "disallowed_raw_html": "disallowRawHtml",
                "extension_token_types": None, "markdown_tables": "-", "extension_one": "-"}
GENERIC_METHODS = {"get_identifier", "get_details", "apply_configuration", "__init__"}
OTHER_ENABLED_ATTRS = {"is_debug_enabled", "is_info_enabled"}   # ParserLogger, not extension flags
LOG_RECEIVERS = {"POGGER", "LOGGER"}


def name_ext(name):
    core = name.lstrip("_")
    core = re.sub(r"^is_", "", core)
    core = re.sub(r"_enabled$", "", core)
    if core not in NAME_EXT:
        raise TranslateError(f"flag name {name!r} does not name a known extension")
    return NAME_EXT[core]


def parse_file(path):
    return ast.parse(open(path, encoding="utf-8").read(), filename=path)


def self_attr(n):
    return n.attr if isinstance(n, ast.Attribute) and isinstance(n.value, ast.Name) and n.value.id == "self" else None


def find_class(tree, name):
    for n in tree.body:
        if isinstance(n, ast.ClassDef) and n.name == name:
            return n
    raise TranslateError(f"class {name} not found")


def methods(cls):
    return {n.name: n for n in cls.body if isinstance(n, ast.FunctionDef)}


def is_property(fn):
    return any(isinstance(d, ast.Name) and d.id == "property" for d in fn.decorator_list)


def body_wo_doc(fn):
    b = fn.body
    if b and isinstance(b[0], ast.Expr) and isinstance(b[0].value, ast.Constant) and isinstance(b[0].value.value, str):
        b = b[1:]
    return b


# ------------------------------------------------------------------ extension classes
def extension_classes(repo):
    """class name -> (module, identifier, enabled_by_default, public method names)"""
    out = {}
    for p in sorted(glob.glob(os.path.join(repo, "pymarkdown", "extensions", "*.py"))):
        mod = os.path.basename(p)[:-3]
        if mod == "__init__":
            continue
        if mod not in MODULE_OWNER:
            raise TranslateError(f"unknown module pymarkdown/extensions/{mod}.py")
        for cls in parse_file(p).body:
            if not isinstance(cls, ast.ClassDef):
                continue
            ms = methods(cls)
            if "get_identifier" not in ms or "get_details" not in ms:
                continue
            ret = body_wo_doc(ms["get_identifier"])
            if not (len(ret) == 1 and isinstance(ret[0], ast.Return) and isinstance(ret[0].value, ast.Constant) and isinstance(ret[0].value.value, str)):
                raise TranslateError(f"{cls.name}.get_identifier is not `return <literal>`")
            dflt = None
            for n in ast.walk(ms["get_details"]):
                if isinstance(n, ast.keyword) and n.arg == "extension_enabled_by_default":
                    if not (isinstance(n.value, ast.Constant) and isinstance(n.value.value, bool)):
                        raise TranslateError(f"{cls.name}: extension_enabled_by_default is not a literal")
                    dflt = n.value.value
            if dflt is None:
                raise TranslateError(f"{cls.name}: extension_enabled_by_default not found")
            pub = sorted(m for m in ms if not m.startswith("_") and m not in GENERIC_METHODS)
            out[cls.name] = (mod, ret[0].value.value, dflt, pub)
    return out


# ------------------------------------------------------------------ wiring
def manager_wiring(repo, classes):
    tree = parse_file(os.path.join(repo, "pymarkdown/extension_manager/extension_manager.py"))
    cls = find_class(tree, "ExtensionManager")
    ms = methods(cls)
    if "apply_configuration" not in ms:
        raise TranslateError("ExtensionManager.apply_configuration not found")
    fields = {}   # field -> class name
    for fn in ms.values():
        for n in ast.walk(fn):
            tg = n.targets if isinstance(n, ast.Assign) else [n.target] if isinstance(n, (ast.AugAssign, ast.AnnAssign)) else []
            for t in tg:
                a = self_attr(t)
                if not (a and re.match(r"^__is_\w+_enabled$", a)):
                    if isinstance(t, ast.Tuple) and any((self_attr(e) or "").endswith("_enabled") for e in t.elts):
                        raise TranslateError("tuple assignment to flag fields in ExtensionManager")
                    continue
                v = n.value
                if fn.name == "__init__":
                    if not (isinstance(v, ast.Constant) and v.value is False):
                        raise TranslateError(f"{a} not initialised to False")
                    continue
                if fn.name != "apply_configuration":
                    raise TranslateError(f"{a} assigned in {fn.name}")
                ok = (isinstance(v, ast.Compare) and len(v.ops) == 1 and isinstance(v.ops[0], ast.In)
                      and self_attr(v.comparators[0]) == "__enabled_extensions"
                      and isinstance(v.left, ast.Call) and isinstance(v.left.func, ast.Attribute) and v.left.func.attr == "get_identifier"
                      and isinstance(v.left.func.value, ast.Call) and isinstance(v.left.func.value.func, ast.Name))
                if not ok:
                    raise TranslateError(f"{a}: unrecognised right-hand side {ast.unparse(v)}")
                if a in fields:
                    raise TranslateError(f"{a} assigned twice")
                if n not in ms["apply_configuration"].body:
                    raise TranslateError(f"{a} assigned conditionally")
                fields[a] = v.left.func.value.func.id
    # the enabled list: exactly one append, under `if is_enabled`
    appends = []
    for fn in ms.values():
        for n in ast.walk(fn):
            if isinstance(n, ast.If):
                for m in ast.walk(ast.Module(body=n.body, type_ignores=[])):
                    if (isinstance(m, ast.Call) and isinstance(m.func, ast.Attribute) and m.func.attr in ("append", "extend", "insert")
                            and self_attr(m.func.value) == "__enabled_extensions"):
                        appends.append((fn.name, ast.unparse(n.test)))
        for m in ast.walk(fn):
            if (isinstance(m, ast.Call) and isinstance(m.func, ast.Attribute) and m.func.attr in ("append", "extend", "insert")
                    and self_attr(m.func.value) == "__enabled_extensions"):
                appends.append((fn.name, None))
    guarded = [a for a in appends if a[1] is not None]
    if len([a for a in appends if a[1] is None]) != 1 or len(guarded) != 1 or guarded[0] != ("apply_configuration", "is_enabled"):
        raise TranslateError(f"__enabled_extensions is not filled by exactly one append under `if is_enabled`: {appends}")
    props = {}
    for name, fn in ms.items():
        if re.match(r"^is_\w+_enabled$", name):
            b = body_wo_doc(fn)
            if not (is_property(fn) and len(b) == 1 and isinstance(b[0], ast.Return) and self_attr(b[0].value)):
                raise TranslateError(f"ExtensionManager.{name} is not a property returning a field")
            props[name] = self_attr(b[0].value)
    wires = []
    for prop, field in sorted(props.items()):
        if field not in fields:
            raise TranslateError(f"property {prop} returns {field}, which apply_configuration does not assign")
        cname = fields[field]
        if cname not in classes:
            raise TranslateError(f"{field} is computed from unknown class {cname}")
        mod, ident, dflt, _ = classes[cname]
        if ident not in EXT_BY_ID:
            raise TranslateError(f"identifier {ident!r} is not one of the six flagged extensions")
        wires.append(dict(ext=EXT_BY_ID[ident], cls=cname, ident=ident, dflt=dflt, field=field, fieldExt=name_ext(field),
                          prop=prop, propExt=name_ext(prop), props=None))
    unused = set(fields) - set(props.values())
    if unused:
        raise TranslateError(f"flag fields without property: {sorted(unused)}")
    if sorted(w["ext"] for w in wires) != sorted(EXT_BY_ID.values()):
        raise TranslateError("manager flags do not cover the six extensions exactly once: " + str([w["ext"] for w in wires]))
    return wires


def props_wiring(repo, wires):
    """ParseBlockPassProperties: field <- extension_manager.is_X_enabled; property -> field."""
    tree = parse_file(os.path.join(repo, "pymarkdown/container_blocks/parse_block_pass_properties.py"))
    cls = find_class(tree, "ParseBlockPassProperties")
    ms = methods(cls)
    mgr_props = {w["prop"]: w for w in wires}
    field_src = {}
    init = ms.get("__init__")
    if init is None:
        raise TranslateError("ParseBlockPassProperties.__init__ not found")
    for n in ast.walk(init):
        if not isinstance(n, ast.Assign):
            continue
        pairs = []
        for t in n.targets:
            if isinstance(t, ast.Tuple) and isinstance(n.value, ast.Tuple) and len(t.elts) == len(n.value.elts):
                pairs += list(zip(t.elts, n.value.elts))
            else:
                pairs.append((t, n.value))
        for t, v in pairs:
            a = self_attr(t)
            if a and a.endswith("_enabled"):
                if not (isinstance(v, ast.Attribute) and isinstance(v.value, ast.Name) and v.value.id == "extension_manager" and v.attr in mgr_props):
                    raise TranslateError(f"ParseBlockPassProperties.{a} <- {ast.unparse(v)}: not a manager flag")
                if n not in init.body:
                    raise TranslateError(f"{a} assigned conditionally")
                if a in field_src:
                    raise TranslateError(f"{a} assigned twice")
                field_src[a] = v.attr
    for fn in ms.values():
        if fn.name == "__init__":
            continue
        for n in ast.walk(fn):
            for t in (n.targets if isinstance(n, ast.Assign) else [n.target] if isinstance(n, (ast.AugAssign, ast.AnnAssign)) else []):
                if (self_attr(t) or "").endswith("_enabled"):
                    raise TranslateError(f"flag field written in {fn.name}")
    field_ext = {}
    for name, fn in ms.items():
        if re.match(r"^is_\w+_enabled$", name):
            b = body_wo_doc(fn)
            if not (is_property(fn) and len(b) == 1 and isinstance(b[0], ast.Return) and self_attr(b[0].value) in field_src):
                raise TranslateError(f"ParseBlockPassProperties.{name} is not a property returning a copied flag")
            src = mgr_props[field_src[self_attr(b[0].value)]]
            if src["props"] is not None:
                raise TranslateError(f"{src['prop']} copied twice")
            src["props"] = (name, name_ext(name), src["ext"])
            field_ext[self_attr(b[0].value)] = src["ext"]
    # derived flag: `disallow_raw_html` is non-None only under `if self.__disallow_raw_html_enabled`
    derived = {}
    dfn = ms.get("disallow_raw_html")
    if dfn is not None:
        b = body_wo_doc(dfn)
        if not (is_property(dfn) and len(b) == 1 and isinstance(b[0], ast.Return) and self_attr(b[0].value)):
            raise TranslateError("disallow_raw_html is not a property returning a field")
        fld = self_attr(b[0].value)
        owner = None
        for st in init.body:
            for n in ast.walk(st):
                if isinstance(n, ast.Assign) and any(self_attr(t) == fld for t in n.targets):
                    if isinstance(n.value, ast.Constant) and n.value.value is None and st is n:
                        continue
                    if isinstance(st, ast.If) and self_attr(st.test) in field_ext and not st.orelse:
                        owner = field_ext[self_attr(st.test)]
                    else:
                        raise TranslateError(f"{fld} assigned outside `if self.__<flag>_enabled:`")
        if owner is None:
            raise TranslateError(f"{fld} never assigned under a flag")
        derived["disallow_raw_html"] = owner
    return field_ext, derived


# ------------------------------------------------------------------ walker: facts, reads, hooks, calls
class Walker:
    """Walks one file, tracking the set of extension flags known to be ON."""

    def __init__(self, rel, tree, flag_attrs, private_attrs, derived, ext_methods, in_ext_pkg, copy_class):
        self.rel, self.tree = rel, tree
        self.flag_attrs, self.private_attrs, self.derived = flag_attrs, private_attrs, derived
        self.ext_methods, self.in_ext_pkg, self.copy_class = ext_methods, in_ext_pkg, copy_class
        self.symbols = {}     # local name -> (module, owner)
        self.reads, self.hooks, self.generic = [], [], []
        self.calls = {}       # callee name -> [(caller func, known)]
        self.func, self.cls = "<module>", None
        self.static_names = set()   # classes defined here / names imported from non-extension modules
        for n in ast.walk(tree):
            if isinstance(n, ast.ImportFrom) and n.module and n.module.startswith("pymarkdown.extensions."):
                mod = n.module.split(".")[-1]
                if mod not in MODULE_OWNER:
                    raise TranslateError(f"{rel}: import from unknown extension module {n.module}")
                for a in n.names:
                    self.symbols[a.asname or a.name] = (mod, MODULE_OWNER[mod])
            if isinstance(n, ast.ClassDef):
                self.static_names.add(n.name)
            if isinstance(n, (ast.Import, ast.ImportFrom)) and not (isinstance(n, ast.ImportFrom) and (n.module or "").startswith("pymarkdown.extensions.")):
                self.static_names |= {(a.asname or a.name).split(".")[0] for a in n.names}
            if isinstance(n, ast.Import) and any(a.name.startswith("pymarkdown.extensions") for a in n.names):
                raise TranslateError(f"{rel}: `import pymarkdown.extensions…` (only from-imports are recognised)")

    # ---- facts
    def flag_of(self, e):
        """extension whose flag the expression `e` IS (truthy <=> on), or None"""
        if isinstance(e, ast.Attribute):
            if e.attr in self.flag_attrs:
                return self.flag_attrs[e.attr]
            if e.attr in self.derived:
                return self.derived[e.attr]
            if isinstance(e.value, ast.Name) and e.value.id == "self" and (self.cls, e.attr) in self.private_attrs:
                return self.private_attrs[(self.cls, e.attr)]
        if (isinstance(e, ast.Compare) and len(e.ops) == 1 and isinstance(e.ops[0], ast.IsNot)
                and isinstance(e.comparators[0], ast.Constant) and e.comparators[0].value is None
                and isinstance(e.left, ast.Attribute) and e.left.attr in self.derived):
            return self.derived[e.left.attr]
        return None

    def true_facts(self, e):
        f = self.flag_of(e)
        if f:
            return {f}
        if isinstance(e, ast.BoolOp) and isinstance(e.op, ast.And):
            s = set()
            for v in e.values:
                s |= self.true_facts(v)
            return s
        if isinstance(e, ast.UnaryOp) and isinstance(e.op, ast.Not):
            return self.false_facts(e.operand)
        return set()

    def false_facts(self, e):
        """flags known ON when `e` is false"""
        if isinstance(e, ast.UnaryOp) and isinstance(e.op, ast.Not):
            return self.true_facts(e.operand)
        if isinstance(e, ast.BoolOp) and isinstance(e.op, ast.Or):
            s = set()
            for v in e.values:
                s |= self.false_facts(v)
            return s
        return set()

    # ---- statements
    @staticmethod
    def exits(body):
        return bool(body) and isinstance(body[-1], (ast.Return, ast.Raise, ast.Continue, ast.Break))

    def block(self, stmts, known):
        known = set(known)
        for st in stmts:
            known = self.stmt(st, known)
        return known

    def stmt(self, st, known):
        if isinstance(st, (ast.FunctionDef, ast.AsyncFunctionDef)):
            old = self.func
            self.func = st.name
            for d in st.decorator_list:
                self.expr(d, known, "other")
            for dflt in st.args.defaults + [d for d in st.args.kw_defaults if d is not None]:
                self.expr(dflt, known, "other")
            self.block(st.body, set())
            self.func = old
            return known
        if isinstance(st, ast.ClassDef):
            oldc, oldf = self.cls, self.func
            self.cls, self.func = st.name, "<class>"
            for b in st.bases:
                self.expr(b, known, "other")
            self.block(st.body, set())
            self.cls, self.func = oldc, oldf
            return known
        if isinstance(st, ast.If):
            self.expr(st.test, known, "test")
            self.block(st.body, known | self.true_facts(st.test))
            self.block(st.orelse, known | self.false_facts(st.test))
            after = set(known)
            if self.exits(st.body):
                after |= self.false_facts(st.test)
            if st.orelse and self.exits(st.orelse):
                after |= self.true_facts(st.test)
            return after
        if isinstance(st, ast.While):
            self.expr(st.test, known, "test")
            self.block(st.body, known | self.true_facts(st.test))
            self.block(st.orelse, known)
            return known
        if isinstance(st, ast.Assert):
            self.expr(st.test, known, "test")
            if st.msg is not None:
                self.expr(st.msg, known, "other")
            return known        # an assert is NOT counted as a guard: with the flag off it would be a crash, not inertness
        if isinstance(st, (ast.For, ast.AsyncFor)):
            self.expr(st.iter, known, "other")
            self.block(st.body, known)
            self.block(st.orelse, known)
            return known
        if isinstance(st, (ast.With, ast.AsyncWith)):
            for it in st.items:
                self.expr(it.context_expr, known, "other")
            self.block(st.body, known)
            return known
        if isinstance(st, ast.Try):
            self.block(st.body, known)
            for h in st.handlers:
                if h.type is not None:
                    self.expr(h.type, known, "other")
                self.block(h.body, known)
            self.block(st.orelse, known)
            self.block(st.finalbody, known)
            return known
        if isinstance(st, (ast.Import, ast.ImportFrom, ast.Pass, ast.Break, ast.Continue, ast.Global, ast.Nonlocal)):
            return known
        if isinstance(st, ast.AnnAssign):
            if st.value is not None:
                self.expr(st.value, known, self.assign_role(st.target))
            return known
        if isinstance(st, ast.Assign):
            role = "other"
            if all(self.assign_role(t) == "copy" for t in st.targets):
                role = "copy"
            self.expr(st.value, known, role)
            for t in st.targets:
                self.expr(t, known, "other")
            return known
        if isinstance(st, ast.AugAssign):
            self.expr(st.value, known, "other")
            self.expr(st.target, known, "other")
            return known
        if isinstance(st, (ast.Expr, ast.Return)):
            if st.value is not None:
                self.expr(st.value, known, "other")
            return known
        if isinstance(st, ast.Raise):
            for e in (st.exc, st.cause):
                if e is not None:
                    self.expr(e, known, "other")
            return known
        if isinstance(st, ast.Delete):
            return known
        if isinstance(st, ast.Match):
            raise TranslateError(f"{self.rel}:{st.lineno}: match statement not supported")
        raise TranslateError(f"{self.rel}:{st.lineno}: unsupported statement {type(st).__name__}")

    def assign_role(self, target):
        """the copy of manager flags into ParseBlockPassProperties.__init__"""
        if self.cls == self.copy_class and self.func == "__init__":
            ts = target.elts if isinstance(target, ast.Tuple) else [target]
            if all((self_attr(t) or "").endswith("_enabled") for t in ts):
                return "copy"
        return "other"

    # ---- expressions
    def expr(self, e, known, role):
        if e is None:
            return
        if isinstance(e, ast.BoolOp):
            k = set(known)
            for v in e.values:
                self.expr(v, k, role)
                k |= self.true_facts(v) if isinstance(e.op, ast.And) else self.false_facts(v)
            return
        if isinstance(e, ast.UnaryOp) and isinstance(e.op, ast.Not):
            self.expr(e.operand, known, role)
            return
        if isinstance(e, ast.IfExp):
            self.expr(e.test, known, "test")
            self.expr(e.body, known | self.true_facts(e.test), "other" if role == "test" else role)
            self.expr(e.orelse, known | self.false_facts(e.test), "other" if role == "test" else role)
            return
        if isinstance(e, ast.Compare) and role == "test" and self.flag_of(e):
            # `x.disallow_raw_html is not None`
            self.note_read(e.left, known, "test")
            self.expr(e.left.value, known, "other")
            return
        if isinstance(e, ast.Tuple) and role == "copy":
            for v in e.elts:
                self.expr(v, known, "copy")
            return
        if isinstance(e, ast.Call):
            f = e.func
            args = list(e.args)
            if isinstance(f, ast.Name) and f.id == "cast" and args:
                args = args[1:]           # the type argument of typing.cast is not a use
            is_log = (isinstance(f, ast.Attribute) and isinstance(f.value, ast.Name) and f.value.id in LOG_RECEIVERS)
            # call-site record for caller-guard resolution
            if isinstance(f, ast.Attribute) and isinstance(f.value, ast.Name) and f.value.id in (self.cls, "self", "cls"):
                self.calls.setdefault(f.attr, []).append((self.func, frozenset(known)))
            if isinstance(f, ast.Name) and f.id in self.symbols:
                self.note_symbol(f, f"{f.id}(…)", known)
            else:
                self.expr(f, known, "other")
            for a in args:
                self.expr(a, known, "log" if is_log else "other")
            for kw in e.keywords:
                self.expr(kw.value, known, "log" if is_log else "other")
            return
        if isinstance(e, ast.Attribute):
            if self.is_flag_read(e):
                self.note_read(e, known, role)
                self.expr(e.value, known, "other")
                return
            if isinstance(e.value, ast.Name) and e.value.id in self.symbols and isinstance(e.ctx, ast.Load):
                self.note_symbol(e.value, f"{e.value.id}.{e.attr}", known)
                return
            if not self.in_ext_pkg and e.attr in self.ext_methods and isinstance(e.ctx, ast.Load) \
                    and not (isinstance(e.value, ast.Name) and e.value.id in self.static_names):
                # a public method name of an extension class called on an object (not on a non-extension class)
                self.hooks.append(dict(file=self.rel, func=self.func, line=e.lineno, what=f"….{e.attr}",
                                       owner=self.ext_methods[e.attr], guards=set(known)))
            if not self.in_ext_pkg and re.search(r"strike_?through", e.attr, re.I) and isinstance(e.ctx, ast.Load) \
                    and not self.is_flag_read(e) and e.attr not in self.flag_attrs:
                self.hooks.append(dict(file=self.rel, func=self.func, line=e.lineno, what=ast.unparse(e),
                                       owner="strikeThrough", guards=set(known)))
            self.expr(e.value, known, "other")
            return
        if isinstance(e, ast.Name):
            if e.id in self.symbols and isinstance(e.ctx, ast.Load):
                self.note_symbol(e, e.id, known)
            return
        if isinstance(e, ast.Lambda):
            self.expr(e.body, known, "other")
            return
        if isinstance(e, (ast.ListComp, ast.SetComp, ast.GeneratorExp, ast.DictComp)):
            for g in e.generators:
                self.expr(g.iter, known, "other")
                for c in g.ifs:
                    self.expr(c, known, "test")
            if isinstance(e, ast.DictComp):
                self.expr(e.key, known, "other"); self.expr(e.value, known, "other")
            else:
                self.expr(e.elt, known, "other")
            return
        if isinstance(e, ast.NamedExpr):
            self.expr(e.value, known, role)
            return
        for c in ast.iter_child_nodes(e):
            if isinstance(c, ast.expr):
                self.expr(c, known, "other" if role in ("test", "copy") else role)
            elif isinstance(c, (ast.keyword,)):
                self.expr(c.value, known, "other")
            elif isinstance(c, ast.FormattedValue):
                self.expr(c.value, known, role)

    def is_flag_read(self, e):
        return isinstance(e, ast.Attribute) and isinstance(e.ctx, ast.Load) and (e.attr in self.flag_attrs or e.attr in self.derived)

    def note_read(self, e, known, role):
        ext = self.flag_attrs.get(e.attr) or self.derived.get(e.attr)
        if e.attr in self.derived:
            # the extension object itself: every use is a hook-ish read; only tests establish facts.  Not a flag read.
            return
        if role == "other":
            raise TranslateError(f"{self.rel}:{e.lineno}: flag {ast.unparse(e)} flows into a value (not a test, a log call or the ParseBlockPassProperties copy)")
        self.reads.append(dict(file=self.rel, func=self.func, line=e.lineno, flag=ext, role={"test": "guard", "copy": "copy", "log": "log"}[role]))

    def note_symbol(self, name_node, what, known):
        mod, owner = self.symbols[name_node.id]
        if self.in_ext_pkg:
            return
        if owner == "-":
            raise TranslateError(f"{self.rel}:{name_node.lineno}: parser code refers to {what} from extensions/{mod}.py, which has no flag")
        rec = dict(file=self.rel, func=self.func, line=name_node.lineno, what=what, owner=owner, guards=set(known))
        (self.generic if owner is None else self.hooks).append(rec)


def scan_tree(repo, wires, field_ext, derived, classes):
    flag_attrs = {}
    for w in wires:
        flag_attrs[w["prop"]] = w["ext"]
        if w["props"]:
            flag_attrs[w["props"][0]] = w["props"][2]
    private_attrs = {("ParseBlockPassProperties", f): e for f, e in field_ext.items()}
    for w in wires:
        private_attrs[("ExtensionManager", w["field"])] = w["ext"]
    ext_methods = {}
    for cname, (mod, ident, dflt, pub) in classes.items():
        owner = MODULE_OWNER[mod]
        if owner in (None, "-"):
            continue
        for m in pub:
            if m in ext_methods and ext_methods[m] != owner:
                raise TranslateError(f"method name {m} defined by two extensions")
            ext_methods[m] = owner
    reads, hooks, generic, calls_by_file = [], [], [], {}
    root = os.path.join(repo, "pymarkdown")
    seen_attr = set()
    for p in sorted(glob.glob(os.path.join(root, "**", "*.py"), recursive=True)):
        rel = os.path.relpath(p, repo)
        tree = parse_file(p)
        for n in ast.walk(tree):
            if isinstance(n, ast.Attribute) and re.match(r"^is_\w+_enabled$", n.attr) and n.attr not in flag_attrs and n.attr not in OTHER_ENABLED_ATTRS:
                raise TranslateError(f"{rel}:{n.lineno}: unknown flag-like attribute {n.attr}")
        in_ext = rel.startswith(("pymarkdown/extensions/", "pymarkdown/extension_manager/"))
        w = Walker(rel, tree, flag_attrs, private_attrs, derived, ext_methods, in_ext, "ParseBlockPassProperties")
        w.block(tree.body, set())
        reads += w.reads
        hooks += w.hooks
        generic += w.generic
        calls_by_file[rel] = w.calls
    # caller guards for private helpers: guard(f) = ⋂ over call sites (known there ∪ guard(caller))
    def fn_guard(rel, fn, depth=0):
        sites = calls_by_file.get(rel, {}).get(fn, [])
        if not fn.startswith("__") or not sites or depth > 3:
            return set()
        acc = None
        for caller, known in sites:
            k = set(known) | (fn_guard(rel, caller, depth + 1) if caller != fn else set())
            acc = k if acc is None else (acc & k)
        return acc or set()
    for h in hooks:
        h["viaCaller"] = False
        if h["owner"] not in h["guards"]:
            extra = fn_guard(h["file"], h["func"])
            if h["owner"] in extra:
                h["guards"] |= extra
                h["viaCaller"] = True
    return reads, hooks, generic


# ------------------------------------------------------------------ registrations (reflection on constant values)
class Mangle(ast.NodeTransformer):
    def __init__(self, cls):
        self.cls = cls

    def visit_Attribute(self, n):
        self.generic_visit(n)
        if n.attr.startswith("__") and not n.attr.endswith("__"):
            owner = n.value.id if isinstance(n.value, ast.Name) else self.cls
            n.attr = f"_{owner.lstrip('_')}{n.attr}"
        return n


def evaluate(expr, module, cls):
    node = ast.Expression(body=Mangle(cls).visit(ast.parse(ast.unparse(expr), mode="eval").body))
    ast.fix_missing_locations(node)
    try:
        return eval(compile(node, "<ext_flags>", "eval"), dict(module.__dict__))
    except Exception as e:
        raise TranslateError(f"cannot evaluate {ast.unparse(expr)}: {type(e).__name__}: {e}")


def import_from(repo, name):
    if repo not in sys.path:
        sys.path.insert(0, repo)
    mod = importlib.import_module(name)
    f = os.path.realpath(getattr(mod, "__file__", ""))
    if not f.startswith(os.path.realpath(repo) + os.sep):
        raise TranslateError(f"{name} was imported from {f}, not from {repo}")
    return mod


def single_owner(known, where):
    if len(known) > 1:
        raise TranslateError(f"{where}: registration under more than one flag {sorted(known)}")
    return next(iter(known), None)


def emphasis_table(repo, walker_facts):
    rel = "pymarkdown/inline/emphasis_helper.py"
    tree = parse_file(os.path.join(repo, rel))
    cls = find_class(tree, "EmphasisHelper")
    fn = methods(cls).get("initialize")
    if fn is None:
        raise TranslateError("EmphasisHelper.initialize not found")
    mod = import_from(repo, "pymarkdown.inline.emphasis_helper")
    out = []

    def is_target(t):
        return isinstance(t, ast.Attribute) and t.attr == "__inline_emphasis" and isinstance(t.value, ast.Name) and t.value.id == "EmphasisHelper"

    def go(stmts, known):
        for st in stmts:
            if isinstance(st, ast.Assign) and len(st.targets) == 1 and is_target(st.targets[0]):
                if out or known:
                    raise TranslateError("EmphasisHelper.__inline_emphasis re-assigned")
                out.append((str(evaluate(st.value, mod, "EmphasisHelper")), None))
            elif isinstance(st, ast.AugAssign) and is_target(st.target) and isinstance(st.op, ast.Add):
                out.append((str(evaluate(st.value, mod, "EmphasisHelper")), single_owner(known, rel)))
            elif isinstance(st, ast.If) and not st.orelse:
                facts = walker_facts.true_facts(st.test)
                if not facts:
                    raise TranslateError(f"{rel}:{st.lineno}: if-test is not a flag")
                go(st.body, known | facts)
            else:
                raise TranslateError(f"{rel}:{st.lineno}: unrecognised statement in EmphasisHelper.initialize")
    go(body_wo_doc(fn), set())
    if not out or out[0][1] is not None:
        raise TranslateError("EmphasisHelper.initialize does not start by assigning __inline_emphasis")
    # no other writer
    for f2 in methods(cls).values():
        if f2 is fn:
            continue
        for n in ast.walk(f2):
            for t in (n.targets if isinstance(n, ast.Assign) else [n.target] if isinstance(n, ast.AugAssign) else []):
                if isinstance(t, ast.Attribute) and t.attr == "__inline_emphasis":
                    raise TranslateError(f"__inline_emphasis written in {f2.name}")
    return out


def registration_table(repo, walker_facts, emph):
    rel = "pymarkdown/inline/inline_handler_helper.py"
    tree = parse_file(os.path.join(repo, rel))
    cls = find_class(tree, "InlineHandlerHelper")
    fn = methods(cls).get("initialize")
    if fn is None or "register_handlers" not in methods(cls):
        raise TranslateError("InlineHandlerHelper.initialize / register_handlers not found")
    rh = methods(cls)["register_handlers"]
    if [a.arg for a in rh.args.args] != ["inline_character", "start_token_handler", "is_simple_handler"]:
        raise TranslateError("register_handlers signature changed")
    mod = import_from(repo, "pymarkdown.inline.inline_handler_helper")
    regs = []
    sym = {}     # class attribute -> list of (chars, owner) parts, for `__inline_processing_needed`

    def is_reg(e):
        return (isinstance(e, ast.Call) and isinstance(e.func, ast.Attribute) and e.func.attr == "register_handlers"
                and isinstance(e.func.value, ast.Name) and e.func.value.id == "InlineHandlerHelper")

    def reg(call, known, loop=None):
        if len(call.args) != 2 or any(k.arg != "is_simple_handler" for k in call.keywords):
            raise TranslateError(f"{rel}:{call.lineno}: register_handlers call shape")
        simple = False
        for k in call.keywords:
            if not isinstance(k.value, ast.Constant) or not isinstance(k.value.value, bool):
                raise TranslateError(f"{rel}:{call.lineno}: is_simple_handler not a literal")
            simple = k.value.value
        handler = ast.unparse(call.args[1])
        owner = single_owner(known, f"{rel}:{call.lineno}")
        a0 = call.args[0]
        if loop is not None:
            var, parts = loop
            if not (isinstance(a0, ast.Name) and a0.id == var):
                raise TranslateError(f"{rel}:{call.lineno}: loop body does not register the loop variable")
            for chars, o in parts:
                if o is not None and owner is not None and o != owner:
                    raise TranslateError("nested flags in registration loop")
                for c in chars:
                    regs.append(dict(chars=c, owner=o if o is not None else owner, handler=handler, simple=simple))
        else:
            v = evaluate(a0, mod, "InlineHandlerHelper")
            if not isinstance(v, str) or not v:
                raise TranslateError(f"{rel}:{call.lineno}: registered character is not a non-empty string")
            regs.append(dict(chars=v, owner=owner, handler=handler, simple=simple))

    def class_attr(t):
        return t.attr if isinstance(t, ast.Attribute) and isinstance(t.value, ast.Name) and t.value.id == "InlineHandlerHelper" else None

    def parts_of(e):
        """string-valued expression -> [(chars, owner)] (symbolic for the emphasis set)"""
        if isinstance(e, ast.Call) and ast.unparse(e.func) == "EmphasisHelper.get_inline_emphasis" and not e.args:
            return list(emph)
        if class_attr(e) in sym:
            return list(sym[class_attr(e)])
        v = evaluate(e, mod, "InlineHandlerHelper")
        if not isinstance(v, (str, list, tuple)):
            raise TranslateError(f"{ast.unparse(e)} is not a string")
        return [("".join(v), None)]

    RESET = {"__inline_character_handlers": "{}", "__inline_simple_character_handlers": "{}",
             "valid_inline_text_block_sequence_starts": "ParserHelper.newline_character",
             "__valid_inline_simple_text_block_sequence_starts": "ParserHelper.newline_character"}
    reset_seen = set()

    def go(stmts, known):
        for st in stmts:
            if isinstance(st, ast.Expr) and is_reg(st.value):
                reg(st.value, known)
            elif isinstance(st, ast.Expr) and isinstance(st.value, ast.Call) and ast.unparse(st.value.func) == "EmphasisHelper.initialize":
                pass
            elif isinstance(st, ast.For) and isinstance(st.target, ast.Name) and not st.orelse and len(st.body) == 1 \
                    and isinstance(st.body[0], ast.Expr) and is_reg(st.body[0].value):
                reg(st.body[0].value, known, loop=(st.target.id, parts_of(st.iter)))
            elif isinstance(st, ast.If) and not st.orelse:
                facts = walker_facts.true_facts(st.test)
                if not facts:
                    raise TranslateError(f"{rel}:{st.lineno}: if-test in initialize is not a flag")
                go(st.body, known | facts)
            elif isinstance(st, ast.Assign) and len(st.targets) == 1 and class_attr(st.targets[0]):
                a = class_attr(st.targets[0])
                if a in RESET:
                    if ast.unparse(st.value) != RESET[a] or regs or known:
                        raise TranslateError(f"{rel}:{st.lineno}: {a} is not reset to {RESET[a]} before the registrations")
                    reset_seen.add(a)
                else:
                    if known:
                        raise TranslateError(f"{rel}:{st.lineno}: conditional assignment to {a}")
                    sym[a] = parts_of(st.value)
            elif isinstance(st, ast.AugAssign) and class_attr(st.target) and isinstance(st.op, ast.Add) and class_attr(st.target) in sym:
                o = single_owner(known, rel)
                sym[class_attr(st.target)] += [(c, oo if oo is not None else o) for c, oo in parts_of(st.value)]
            else:
                raise TranslateError(f"{rel}:{st.lineno}: unrecognised statement in InlineHandlerHelper.initialize: {ast.unparse(st)[:80]}")
    go(body_wo_doc(fn), set())
    if reset_seen != set(RESET):
        raise TranslateError(f"handler tables not all reset at the top of initialize: missing {sorted(set(RESET) - reset_seen)}")
    # register_handlers must not be called from anywhere else
    for p in glob.glob(os.path.join(repo, "pymarkdown", "**", "*.py"), recursive=True):
        for n in ast.walk(parse_file(p)):
            if isinstance(n, ast.Call) and isinstance(n.func, ast.Attribute) and n.func.attr == "register_handlers":
                if not (os.path.relpath(p, repo) == rel and n.lineno >= fn.lineno and n.lineno <= fn.end_lineno):
                    raise TranslateError(f"register_handlers called outside InlineHandlerHelper.initialize: {os.path.relpath(p, repo)}:{n.lineno}")
    return regs


# ------------------------------------------------------------------ rendering
def lstr(s):
    return '"' + s.replace("\\", "\\\\").replace('"', '\\"') + '"'


def lchars(s):
    return "[" + ", ".join(f"Char.ofNat 0x{ord(c):x}" for c in s) + "]"


def lopt(e):
    return "none" if e is None else f"some .{e}"


def extract(repo):
    classes = extension_classes(repo)
    wires = manager_wiring(repo, classes)
    field_ext, derived = props_wiring(repo, wires)
    reads, hooks, generic = scan_tree(repo, wires, field_ext, derived, classes)
    flag_attrs = {w["prop"]: w["ext"] for w in wires}
    facts = Walker("<facts>", ast.parse(""), flag_attrs, {}, derived, {}, False, None)
    emph = emphasis_table(repo, facts)
    regs = registration_table(repo, facts, emph)
    return dict(wires=wires, reads=reads, hooks=hooks, generic=generic, emph=emph, regs=regs)


def render(repo):
    t = extract(repo)
    L = ["-- GENERATED by tools/translate/ext_flags.py from /repo — do not edit.", "import Verif.Model.ExtFlags",
         "namespace Verif.Gen.ExtFlags", "open Verif.Model.ExtFlags", ""]
    L.append("/-- Flag wiring: configuration -> ExtensionManager field -> property -> ParseBlockPassProperties. -/")
    L.append("def wires : List Wire :=\n  [" + ",\n   ".join(
        "{ ext := .%s, cls := %s, ident := %s, enabledByDefault := %s, field := %s, fieldExt := .%s, prop := %s, propExt := .%s, props := %s }" % (
            w["ext"], lstr(w["cls"]), lstr(w["ident"]), "true" if w["dflt"] else "false", lstr(w["field"]), w["fieldExt"], lstr(w["prop"]), w["propExt"],
            "none" if w["props"] is None else f"some ({lstr(w['props'][0])}, .{w['props'][1]}, .{w['props'][2]})") for w in t["wires"]) + "]\n")
    L.append("/-- Every read of a flag property under pymarkdown/. -/")
    L.append("def reads : List FlagRead :=\n  [" + ",\n   ".join(
        "⟨%s, %s, %d, .%s, .%s⟩" % (lstr(r["file"]), lstr(r["func"]), r["line"], r["flag"], r["role"]) for r in t["reads"]) + "]\n")
    L.append("/-- Every extension hook site outside the extension packages, with the flags known ON there. -/")
    L.append("def hooks : List Hook :=\n  [" + ",\n   ".join(
        "⟨%s, %s, %d, %s, .%s, [%s], %s⟩" % (lstr(h["file"]), lstr(h["func"]), h["line"], lstr(h["what"]), h["owner"],
                                               ", ".join("." + g for g in sorted(h["guards"])), "true" if h["viaCaller"] else "false") for h in t["hooks"]) + "]\n")
    L.append("/-- Uses of the generic extension-token registry (token-class driven; no flag obligation). -/")
    L.append("def genericUses : List (String × String × Nat × String) :=\n  [" + ",\n   ".join(
        "(%s, %s, %d, %s)" % (lstr(g["file"]), lstr(g["func"]), g["line"], lstr(g["what"])) for g in t["generic"]) + "]\n")
    L.append("/-- `InlineHandlerHelper.initialize`: the register_handlers calls in order. -/")
    L.append("def regs : List Reg :=\n  [" + ",\n   ".join(
        "⟨%s, %s, %s, %s⟩" % (lchars(r["chars"]), lopt(r["owner"]), lstr(r["handler"]), "true" if r["simple"] else "false") for r in t["regs"]) + "]\n")
    L.append("/-- `EmphasisHelper.initialize`: contributions to the emphasis character set. -/")
    L.append("def emph : List Emph :=\n  [" + ",\n   ".join("⟨%s, %s⟩" % (lchars(c), lopt(o)) for c, o in t["emph"]) + "]\n")
    L.append("end Verif.Gen.ExtFlags")
    return "\n".join(L) + "\n"


if __name__ == "__main__":
    print(render(sys.argv[1] if len(sys.argv) > 1 else "/repo"))
