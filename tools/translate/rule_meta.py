"""Translator: rule metadata, code side and documentation side -> Verif/Gen/RuleMeta.lean.

Code side (reflection, every run, from /repo's working tree):
  a real `PluginManager` is initialised on `pymarkdown/plugins/` exactly as `main.py` does; for every
  registered plug-in: id, names (in declaration order), enabled_by_default, supports_fix, fix_level,
  interface version; the configuration items it *reads* (a recording facade logs every typed getter call
  made by `initialize_from_config` on an empty configuration: name, type, default, has-validator) and the
  items it *reports* (`query_config()` under the empty configuration: name, type, value).
Doc side (Markdown, every run):
  `newdocs/src/plugins/rule_<id>.md`: the header table (Aliases / Autofix Available / Enabled By Default),
  the Prefixes table and the "Value Name | Type | Default" table of the Configuration section.
A shape that is not recognised raises TranslateError (reported as a broken tie).
"""
import glob, importlib, os, re, sys

TARGET = "RuleMeta.lean"


class TranslateError(Exception):
    pass


# ------------------------------------------------------------------ code side
def _purge(prefixes):
    for m in [k for k in sys.modules if any(k == p or k.startswith(p + ".") for p in prefixes)]:
        del sys.modules[m]


class _Recorder:
    """Stands in for the ApplicationPropertiesFacade handed to a rule; logs typed getter calls."""

    def __init__(self, facade):
        self._f, self.calls = facade, []

    def _log(self, name, ty, default, valid):
        self.calls.append({"name": name, "type": ty, "default": default, "validated": valid is not None})

    def get_boolean_property(self, property_name, default_value=None, is_required=False):
        self._log(property_name, "boolean", default_value, None)
        return self._f.get_boolean_property(property_name, default_value=default_value, is_required=is_required)

    def get_integer_property(self, property_name, default_value=None, valid_value_fn=None, is_required=False, strict_mode=None):
        self._log(property_name, "integer", default_value, valid_value_fn)
        return self._f.get_integer_property(property_name, default_value=default_value, valid_value_fn=valid_value_fn,
                                            is_required=is_required, strict_mode=strict_mode)

    def get_string_property(self, property_name, default_value=None, valid_value_fn=None, is_required=False, strict_mode=None):
        self._log(property_name, "string", default_value, valid_value_fn)
        return self._f.get_string_property(property_name, default_value=default_value, valid_value_fn=valid_value_fn,
                                           is_required=is_required, strict_mode=strict_mode)

    def get_property(self, property_name, property_type, default_value=None, valid_value_fn=None, is_required=False, strict_mode=None):
        self._log(property_name, {bool: "boolean", int: "integer", str: "string"}.get(property_type, "other"), default_value, valid_value_fn)
        return self._f.get_property(property_name, property_type, default_value=default_value, valid_value_fn=valid_value_fn,
                                    is_required=is_required, strict_mode=strict_mode)

    def __getattr__(self, name):  # property_names, property_names_under …
        return getattr(self._f, name)


def _tyname(v):
    if isinstance(v, bool):
        return "boolean"
    if isinstance(v, int):
        return "integer"
    if isinstance(v, str):
        return "string"
    if v is None:
        return "none"
    return "other"


def code_rules(repo):
    """[{id, names, enabled, fix, fix_level, iface, getters:[…], query:[{name,type,value}]}] sorted by id."""
    import contextlib, io
    with contextlib.redirect_stdout(io.StringIO()):   # the debug rule md999 prints while it is configured
        return _code_rules(repo)


def _code_rules(repo):
    if repo not in sys.path or sys.path[0] != repo:
        sys.path.insert(0, repo)
    import pymarkdown
    if os.path.realpath(os.path.dirname(pymarkdown.__file__)) != os.path.realpath(os.path.join(repo, "pymarkdown")):
        _purge(["pymarkdown"])
    from application_properties import ApplicationProperties, ApplicationPropertiesFacade
    pmm = importlib.import_module("pymarkdown.plugin_manager.plugin_manager")
    pres = importlib.import_module("pymarkdown.general.main_presentation")
    if os.path.realpath(pmm.__file__) != os.path.realpath(os.path.join(repo, "pymarkdown/plugin_manager/plugin_manager.py")):
        raise TranslateError(f"pymarkdown imported from {pmm.__file__}, not from {repo}")
    # rule modules are loaded by file name through the plug-in loader; drop stale copies
    _purge([os.path.basename(f)[:-3] for f in glob.glob(os.path.join(repo, "pymarkdown/plugins/*.py"))])
    props = ApplicationProperties()
    pm = pmm.PluginManager(pres.MainPresentation())
    pm.initialize(os.path.join(repo, "pymarkdown", "plugins"), [], "", "", props, False, False)
    regs = getattr(pm, "_PluginManager__registered_plugins", None)
    if not regs:
        raise TranslateError("PluginManager registered no plug-ins")
    out = []
    for fp in regs:
        inst = fp.plugin_instance
        rec = _Recorder(ApplicationPropertiesFacade(props, f"plugins.{fp.plugin_id}."))
        inst.set_configuration_map(rec)
        inst.initialize_from_config()
        query = []
        if fp.plugin_interface_version == 3 and inst.is_query_config_implemented_in_plugin:
            for q in inst.query_config():
                query.append({"name": q.name, "type": _tyname(q.value), "value": q.value})
        if list(fp.plugin_identifiers) != [fp.plugin_id] + list(fp.plugin_names):
            raise TranslateError(f"{fp.plugin_id}: plugin_identifiers is not id followed by names")
        out.append({"id": fp.plugin_id, "names": list(fp.plugin_names), "enabled": bool(fp.plugin_enabled_by_default),
                    "fix": bool(fp.plugin_supports_fix), "fix_level": int(fp.plugin_fix_level),
                    "iface": int(fp.plugin_interface_version), "getters": rec.calls, "query": query})
    out.sort(key=lambda r: r["id"])
    return out



# ------------------------------------------------------------------ documentation side
def _cells(line):
    line = line.strip()
    if not (line.startswith("|") and line.endswith("|")):
        raise TranslateError(f"not a table row: {line!r}")
    return [c.strip() for c in line[1:-1].split("|")]


def _untick(s):
    s = s.strip()
    m = re.fullmatch(r"`([^`]*)`", s)
    return m.group(1) if m else s


def _tables(lines):
    """[(start_line, [row cells…])] for every pipe table."""
    out, cur, start = [], None, 0
    for n, l in enumerate(lines):
        if l.lstrip().startswith("|"):
            if cur is None:
                cur, start = [], n
            cur.append(_cells(l))
        elif cur is not None:
            out.append((start, cur)); cur = None
    if cur is not None:
        out.append((start, cur))
    return out


def doc_rule(path):
    text = open(path, encoding="utf-8").read()
    lines = text.split("\n")
    m = re.match(r"^# Rule - (\w+)\s*$", lines[0])
    if not m:
        raise TranslateError(f"{path}: first line is not '# Rule - <ID>'")
    title_id = m.group(1).lower()
    tabs = _tables(lines)
    head = next((t for _, t in tabs if t and t[0][:2] == ["Property", "Value"]), None)
    if head is None:
        raise TranslateError(f"{path}: header table not found")
    props = {r[0]: r[1] for r in head[2:] if len(r) == 2}
    for k in ("Aliases", "Autofix Available", "Enabled By Default"):
        if k not in props:
            raise TranslateError(f"{path}: header table lacks {k}")
    idents = [_untick(x) for x in props["Aliases"].split(",") if x.strip()]
    if props["Enabled By Default"] not in ("Yes", "No"):
        raise TranslateError(f"{path}: Enabled By Default = {props['Enabled By Default']!r}")
    try:
        cfg_line = next(i for i, l in enumerate(lines) if re.match(r"^## Configuration\s*$", l))
    except StopIteration:
        raise TranslateError(f"{path}: no '## Configuration' section")
    end = next((i for i in range(cfg_line + 1, len(lines)) if re.match(r"^## ", lines[i])), len(lines))
    prefixes, items, enabled_default = None, None, None
    for start, t in tabs:
        if not (cfg_line < start < end):
            continue
        if t[0] == ["Prefixes"]:
            prefixes = [_untick(r[0]) for r in t[2:]]
        elif t[0][:3] == ["Value Name", "Type", "Default"]:
            items = []
            for r in t[2:]:
                if len(r) < 3:
                    raise TranslateError(f"{path}: short configuration row {r}")
                name, ty, dflt = _untick(r[0]), _untick(r[1].replace("(see below)", "")), r[2].strip()
                if name == "enabled":
                    enabled_default = _untick(dflt)
                    continue
                dv = _untick(dflt)
                items.append({"name": name, "type": ty, "default": "" if dv == '""' else dv})
    if prefixes is None or items is None or enabled_default is None:
        raise TranslateError(f"{path}: Prefixes / Value Name table / `enabled` row not found")
    return {"file": os.path.basename(path), "title_id": title_id, "idents": idents, "autofix": props["Autofix Available"],
            "enabled": props["Enabled By Default"] == "Yes", "prefixes": prefixes, "enabled_row": enabled_default, "items": items}


def doc_rules(repo):
    files = sorted(glob.glob(os.path.join(repo, "newdocs/src/plugins/rule_*.md")))
    if len(files) < 10:
        raise TranslateError("rule documentation pages not found")
    return [doc_rule(f) for f in files]


# ------------------------------------------------------------------ Lean rendering
def lstr(s):
    out = ['"']
    for ch in s:
        if ch == '"':
            out.append('\\"')
        elif ch == "\\":
            out.append("\\\\")
        elif ch == "\n":
            out.append("\\n")
        elif ord(ch) < 32:
            out.append("\\x%02x" % ord(ch))
        else:
            out.append(ch)
    out.append('"')
    return "".join(out)


def llist(xs):
    return "[" + ", ".join(xs) + "]"


def _val_text(v):
    """Canonical text of a default value, shared by both sides: booleans `True`/`False`, integers in decimal,
    strings verbatim, None as `None`."""
    if v is None:
        return "None"
    return str(v)


def render(repo):
    code = code_rules(repo)
    docs = doc_rules(repo)

    def item(name, ty, d):
        return f"⟨{lstr(name)}, {lstr(ty)}, {lstr(d)}⟩"

    crows = []
    for r in code:
        getters = llist([item(g["name"], g["type"], _val_text(g["default"])) for g in r["getters"]])
        query = llist([item(q["name"], q["type"], _val_text(q["value"])) for q in r["query"]])
        validated = llist([lstr(g["name"]) for g in r["getters"] if g["validated"]])
        crows.append(f"  {{ id := {lstr(r['id'])}, names := {llist([lstr(n) for n in r['names']])}, enabledByDefault := {str(r['enabled']).lower()},\n"
                     f"    supportsFix := {str(r['fix']).lower()}, fixLevel := {r['fix_level']}, iface := {r['iface']},\n"
                     f"    getters := {getters},\n    query := {query},\n    validated := {validated} }}")
    drows = []
    for d in docs:
        items = llist([item(i["name"], i["type"], i["default"]) for i in d["items"]])
        drows.append(f"  {{ file := {lstr(d['file'])}, titleId := {lstr(d['title_id'])}, idents := {llist([lstr(x) for x in d['idents']])},\n"
                     f"    autofix := {lstr(d['autofix'])}, enabledByDefault := {str(d['enabled']).lower()},\n"
                     f"    prefixes := {llist([lstr(x) for x in d['prefixes']])}, enabledRow := {lstr(d['enabled_row'])},\n"
                     f"    items := {items} }}")
    return ("-- GENERATED by tools/translate/rule_meta.py from /repo — do not edit.\n"
            "import Verif.Model.RuleMeta\nnamespace Verif.Gen.RuleMeta\nopen Verif.Model.RuleMeta\n\n"
            "/-- Every plug-in registered by a real `PluginManager` (reflection): details, the typed getter calls\n"
            "made by `initialize_from_config`, and `query_config()` under the empty configuration. -/\n"
            "def codeRules : List CodeRule := [\n" + ",\n".join(crows) + "]\n\n"
            "/-- Header table, Prefixes table and Configuration table of every `newdocs/src/plugins/rule_*.md`. -/\n"
            "def docRules : List DocRule := [\n" + ",\n".join(drows) + "]\n\n"
            "end Verif.Gen.RuleMeta\n")


if __name__ == "__main__":
    import json
    repo = sys.argv[1] if len(sys.argv) > 1 else "/repo"
    if "--lean" in sys.argv:
        print(render(repo))
    else:
        for r in code_rules(repo):
            print(json.dumps(r, ensure_ascii=False))
        for r in doc_rules(repo):
            print(json.dumps(r, ensure_ascii=False))
