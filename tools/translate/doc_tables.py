"""Translator: the documented layer order and the code's load / decision order -> Verif/Gen/DocTables.lean.

Doc side  (newdocs/src/advanced_configuration.md)
  * the bullet list under "## Configuration Ordering (Layering)" ("we apply the layers of data in the following order")
  * the sentence giving command-line disable priority over command-line enable
  * the sentence "the rule plugin's id comes first, followed by each alias"
Code side (AST, shape-checked)
  * application_configuration_helper.py: source order of the calls that load pyproject.toml, the default
    files (.pymarkdown, then .yaml, then .yml), the --config file and --set
  * plugin_manager.py: `__determine_if_plugin_enabled` consults the command line first, the configuration only
    `if new_value is None`, the rule default last; `__handle_command_line_settings` tests the disable set first
    and the enable set only `if new_value is None`.
Anything unrecognised raises TranslateError (reported as a broken tie).
"""
import ast, os, re

TARGET = "DocTables.lean"


class TranslateError(Exception):
    pass


DOC_LAYER_KEYS = [
    (r"^default value", ".defaultValue"),
    (r"^alternate configuration file .*pyproject\.toml", ".pyproject"),
    (r"^default configuration file", ".defaultFile"),
    (r"^configuration file specified on the command line .*--config", ".configFile"),
    (r"^specific command line setting .*--set", ".setArg"),
    (r"^general command line settings", ".cmdLine"),
]


def doc_side(repo):
    text = open(os.path.join(repo, "newdocs/src/advanced_configuration.md"), encoding="utf-8").read()
    m = re.search(r"^## Configuration Ordering \(Layering\)\s*$(.*?)^###? ", text, re.M | re.S)
    if not m:
        raise TranslateError("section 'Configuration Ordering (Layering)' not found")
    sec = m.group(1)
    m2 = re.search(r"in the following order:\s*\n((?:\s*\n|- .*\n(?:  .*\n)*)+)", sec)
    if not m2:
        raise TranslateError("ordered bullet list of layers not found")
    bullets = [re.sub(r"\s+", " ", b).strip() for b in re.findall(r"^- (.*(?:\n  .*)*)", m2.group(1), re.M)]
    order = []
    for b in bullets:
        hit = [lean for rx, lean in DOC_LAYER_KEYS if re.search(rx, b)]
        if len(hit) != 1:
            raise TranslateError(f"layer bullet not recognised: {b!r}")
        order.append(hit[0])
    flat = re.sub(r"\s+", " ", text)
    disable_first = bool(re.search(r"command line disables would have priority over command line enables", flat))
    id_first = bool(re.search(r"the rule plugin's id comes first, followed by each alias in the order that they are entered", flat))
    whole = bool(re.search(r"entire hierarchy has precedence, not just individual configuration properties", flat))
    return order, disable_first, id_first, whole


def _func(tree, name):
    for n in ast.walk(tree):
        if isinstance(n, ast.FunctionDef) and n.name == name:
            return n
    raise TranslateError(f"function {name} not found")


def _calls(node, attr):
    return sorted(n.lineno for n in ast.walk(node) if isinstance(n, ast.Call) and isinstance(n.func, ast.Attribute) and n.func.attr == attr)


def _one(xs, what):
    if len(xs) != 1:
        raise TranslateError(f"expected exactly one {what}, found {len(xs)}")
    return xs[0]


def code_load_order(repo):
    src = open(os.path.join(repo, "pymarkdown/application_configuration_helper.py"), encoding="utf-8").read()
    tree = ast.parse(src)
    top = _func(tree, "apply_configuration_layers")
    spec = _func(tree, "__process_project_specific_json_configuration")
    dfl = _func(tree, "__process_default_configuration_files")
    a = _one(_calls(top, "process_standard_python_configuration_files"), "pyproject load")
    b = _one(_calls(top, "__process_project_specific_json_configuration"), "project-specific load")
    strict = [n.lineno for n in ast.walk(top) if isinstance(n, ast.Call) and isinstance(n.func, ast.Attribute) and n.func.attr == "enable_strict_mode"]
    if not (a < b and strict and b < min(strict)):
        raise TranslateError("apply_configuration_layers: pyproject / project-specific / strict order not recognised")
    c = _one(_calls(spec, "__process_default_configuration_files"), "default-file load")
    cfg_if = [n for n in spec.body if isinstance(n, ast.If) and isinstance(n.test, ast.Attribute) and n.test.attr == "configuration_file"]
    set_if = [n for n in spec.body if isinstance(n, ast.If) and isinstance(n.test, ast.Attribute) and n.test.attr == "set_configuration"]
    if len(cfg_if) != 1 or len(set_if) != 1:
        raise TranslateError("--config / --set blocks not recognised")
    loads = [n.lineno for n in ast.walk(cfg_if[0]) if isinstance(n, ast.Call) and isinstance(n.func, ast.Attribute) and n.func.attr == "load_and_set"]
    if len(loads) != 3:
        raise TranslateError("--config block does not hold the three loaders")
    if any(isinstance(k.value, ast.Constant) and k.value.value is not False for n in ast.walk(spec) if isinstance(n, ast.Call)
           for k in n.keywords if k.arg == "clear_property_map"):
        raise TranslateError("a loader is called with clear_property_map != False")
    sets = _calls(set_if[0], "set_manual_property")
    if len(sets) != 1:
        raise TranslateError("--set block does not call set_manual_property once")
    # positions inside `spec` are compared among themselves; pyproject is before all of them (a < b)
    inner = sorted([(c, ".defaultFile"), (cfg_if[0].lineno, ".configFile"), (set_if[0].lineno, ".setArg")])
    seq = [".pyproject"] + [x[1] for x in inner]
    # default files: .pymarkdown, then .yaml, then .yml
    consts = {}
    cls = next(n for n in ast.walk(tree) if isinstance(n, ast.ClassDef) and n.name == "ApplicationConfigurationHelper")
    for st in cls.body:
        if isinstance(st, ast.Assign) and isinstance(st.value, ast.Constant) and isinstance(st.targets[0], ast.Name):
            consts[st.targets[0].id] = st.value.value
    names = []
    for n in sorted((n for n in ast.walk(dfl) if isinstance(n, ast.Call) and isinstance(n.func, ast.Attribute) and n.func.attr == "load_and_set"),
                    key=lambda n: n.lineno):
        loader = n.func.value.id if isinstance(n.func.value, ast.Name) else "?"
        arg = n.args[1]
        names.append((loader, arg.id if isinstance(arg, ast.Name) else "?"))
    exts = []
    for st in ast.walk(dfl):
        if isinstance(st, ast.Assign) and isinstance(st.targets[0], ast.Name) and st.targets[0].id == "new_file_name":
            right = st.value.right if isinstance(st.value, ast.BinOp) else None
            if isinstance(right, ast.Attribute):
                exts.append((st.lineno, consts.get(right.attr.replace("_ApplicationConfigurationHelper", ""), consts.get(right.attr))))
    exts = [e for _, e in sorted(exts)]
    files = [consts.get("__default_configuration_file")] + [str(consts.get("__default_configuration_file")) + str(e) for e in exts]
    if [l for l, _ in names] != ["ApplicationPropertiesJsonLoader", "ApplicationPropertiesYamlLoader", "ApplicationPropertiesYamlLoader"]:
        raise TranslateError(f"default-file loaders not recognised: {names}")
    return seq, files


def code_decision_order(repo):
    src = open(os.path.join(repo, "pymarkdown/plugin_manager/plugin_manager.py"), encoding="utf-8").read()
    tree = ast.parse(src)
    det = _func(tree, "__determine_if_plugin_enabled")
    cmd = _one(_calls(det, "__handle_command_line_settings"), "command-line consultation")
    find = _one(_calls(det, "__find_configuration_for_plugin"), "configuration lookup")
    guard = next((n for n in det.body if isinstance(n, ast.If) and isinstance(n.test, ast.Compare) and isinstance(n.test.left, ast.Name)
                  and n.test.left.id == "new_value" and isinstance(n.test.ops[0], ast.Is) and n.lineno <= find <= n.end_lineno), None)
    ret = det.body[-1]
    ok_ret = (isinstance(ret, ast.Return) and isinstance(ret.value, ast.IfExp) and isinstance(ret.value.body, ast.Attribute)
              and ret.value.body.attr == "plugin_enabled_by_default" and isinstance(ret.value.orelse, ast.Name) and ret.value.orelse.id == "new_value")
    if not (cmd < find and guard is not None and ok_ret):
        raise TranslateError("__determine_if_plugin_enabled: command line / configuration / default order not recognised")
    key = [n for n in ast.walk(guard) if isinstance(n, ast.Call) and isinstance(n.func, ast.Attribute) and n.func.attr == "get_boolean_property"
           and n.args and isinstance(n.args[0], ast.Constant) and n.args[0].value == "enabled"]
    if len(key) != 1:
        raise TranslateError("`enabled` key read not recognised")
    h = _func(tree, "__handle_command_line_settings")
    ifs = [n for n in h.body if isinstance(n, ast.If)]
    if len(ifs) != 2:
        raise TranslateError("__handle_command_line_settings: expected two top-level ifs")
    first_dis = isinstance(ifs[0].test, ast.Name) and ifs[0].test.id == "command_line_disabled_rules"
    second = ifs[1].test
    second_en = (isinstance(second, ast.BoolOp) and isinstance(second.op, ast.And) and isinstance(second.values[0], ast.Compare)
                 and isinstance(second.values[0].left, ast.Name) and second.values[0].left.id == "new_value"
                 and isinstance(second.values[1], ast.Name) and second.values[1].id == "command_line_enabled_rules")
    if not (first_dis and second_en):
        raise TranslateError("__handle_command_line_settings: disable-then-enable shape not recognised")
    f = _func(tree, "__find_configuration_for_plugin")
    loop = next((n for n in f.body if isinstance(n, ast.For)), None)
    it_ok = loop is not None and isinstance(loop.iter, ast.Attribute) and loop.iter.attr == "plugin_identifiers"
    brk = loop is not None and any(isinstance(n, ast.Break) for n in ast.walk(loop))
    names_ok = loop is not None and any(isinstance(n, ast.Attribute) and n.attr == "property_names" for n in ast.walk(loop))
    if not (it_ok and brk and names_ok):
        raise TranslateError("__find_configuration_for_plugin: first-identifier-with-keys loop not recognised")
    return True


def render(repo):
    doc_order, dis_first, id_first, whole = doc_side(repo)
    seq, files = code_load_order(repo)
    code_decision_order(repo)
    code_order = [".defaultValue"] + seq + [".cmdLine"]
    fl = "[" + ", ".join('"%s"' % f for f in files) + "]"
    return f"""-- GENERATED by tools/translate/doc_tables.py from /repo — do not edit.
import Verif.Model.Config
namespace Verif.Gen.DocTables
open Verif.Model.Config

/-- Bullet list under "Configuration Ordering (Layering)" of advanced_configuration.md, least specific first. -/
def docLayerOrder : List LayerName := [{", ".join(doc_order)}]

/-- Source order of the loads in application_configuration_helper.py (AST) framed by the rule default
(the final `plugin_enabled_by_default if new_value is None`) and the command line (consulted first,
configuration only `if new_value is None`) of `__determine_if_plugin_enabled`. -/
def codeLayerOrder : List LayerName := [{", ".join(code_order)}]

/-- Default configuration files in the order they are tried. -/
def defaultFiles : List String := {fl}

/-- "command line disables would have priority over command line enables" is in the documentation; the code
tests the disable set first (AST shape checked by the translator). -/
def docDisableOverEnable : Bool := {str(dis_first).lower()}

/-- "the rule plugin's id comes first, followed by each alias in the order that they are entered". -/
def docIdBeforeAliases : Bool := {str(id_first).lower()}

/-- "the entire hierarchy has precedence, not just individual configuration properties". -/
def docWholeSection : Bool := {str(whole).lower()}

end Verif.Gen.DocTables
"""


if __name__ == "__main__":
    import sys
    print(render(sys.argv[1] if len(sys.argv) > 1 else "/repo"))
