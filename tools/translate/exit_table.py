"""Translator: /repo return-code tables + final-result if-chain -> Verif/Gen/ExitTable.lean.

Sources (all read from /repo's working tree on every run):
 * pymarkdown.return_code_helper: every SchemeDefinition.get_scheme_mapping()  (reflection)
 * newdocs/src/user-guide.md: the "| Category | `default` | `minimal` |" table  (Markdown)
 * pymarkdown/main.py: the if/elif chain in __scan_files_if_no_errors and the
   list-files branch of main()  (AST)
A shape that is not recognised raises TranslateError (reported as a broken tie).
"""
import ast, importlib, os, re, sys

class TranslateError(Exception):
    pass

RESULTS = ["SUCCESS", "NO_FILES_TO_SCAN", "COMMAND_LINE_ERROR", "FIXED_AT_LEAST_ONE_FILE",
           "SCAN_TRIGGERED_AT_LEAST_ONCE", "SYSTEM_ERROR"]
LEAN_RESULT = {"SUCCESS": ".success", "NO_FILES_TO_SCAN": ".noFiles", "COMMAND_LINE_ERROR": ".cmdLine",
               "FIXED_AT_LEAST_ONE_FILE": ".fixed", "SCAN_TRIGGERED_AT_LEAST_ONCE": ".triggered",
               "SYSTEM_ERROR": ".systemError"}

def code_table(repo):
    sys.path.insert(0, repo)
    for m in [k for k in sys.modules if k.startswith("pymarkdown.return_code_helper")]:
        del sys.modules[m]
    rch = importlib.import_module("pymarkdown.return_code_helper")
    names = [r.name for r in rch.ApplicationResult]
    if names != RESULTS:
        raise TranslateError(f"ApplicationResult members changed: {names}")
    out = []
    schemes = getattr(rch.ReturnCodeHelper, "_ReturnCodeHelper__available_schemes", None)
    if not isinstance(schemes, dict) or sorted(schemes) != ["default", "minimal"]:
        raise TranslateError("available schemes not {default, minimal}")
    for sname in ("default", "minimal"):
        mapping = schemes[sname].get_scheme_mapping()
        for r in rch.ApplicationResult:
            if r not in mapping:
                raise TranslateError(f"scheme {sname} has no entry for {r.name}")
            out.append((sname, r.name, int(mapping[r])))
    return out

def doc_table(repo):
    text = open(os.path.join(repo, "newdocs/src/user-guide.md"), encoding="utf-8").read()
    lines = text.split("\n")
    try:
        start = next(i for i, l in enumerate(lines) if re.match(r"^\|\s*Category\s*\|\s*`default`\s*\|\s*`minimal`\s*\|", l))
    except StopIteration:
        raise TranslateError("return code table not found in user-guide.md")
    rows = {}
    for l in lines[start + 2:]:
        m = re.match(r"^\|\s*`(\w+)`\s*\|\s*(\d+)\s*\|\s*(\d+)\s*\|\s*$", l)
        if not m:
            break
        rows[m.group(1)] = (int(m.group(2)), int(m.group(3)))
    out = []
    for i, sname in enumerate(("default", "minimal")):
        for r in RESULTS:
            if r not in rows:
                raise TranslateError(f"documented table lacks {r}")
            out.append((sname, r, rows[r][i]))
    return out

def _result_of(node):
    """ApplicationResult.X -> 'X'"""
    if isinstance(node, ast.Attribute) and isinstance(node.value, ast.Name) and node.value.id == "ApplicationResult":
        return node.attr
    raise TranslateError("expected ApplicationResult.<member>, got " + ast.dump(node))

COND = {"did_fail_any_file": ".anyFail", "did_fix_any_files": ".anyFixed"}

def _cond_of(node):
    if isinstance(node, ast.Name) and node.id in COND:
        return COND[node.id]
    if isinstance(node, ast.Attribute) and node.attr == "number_of_scan_failures":
        return ".anyTriggered"
    raise TranslateError("unrecognised condition in result chain: " + ast.dump(node))

def scan_chain(repo):
    src = open(os.path.join(repo, "pymarkdown/main.py"), encoding="utf-8").read()
    tree = ast.parse(src)
    fn = next((n for n in ast.walk(tree) if isinstance(n, ast.FunctionDef) and n.name == "__scan_files_if_no_errors"), None)
    if fn is None:
        raise TranslateError("__scan_files_if_no_errors not found")
    # initial value
    init = None
    top_if = None
    for st in fn.body:
        if isinstance(st, ast.Assign) and isinstance(st.targets[0], ast.Name) and st.targets[0].id == "scan_result":
            init = _result_of(st.value)
        if isinstance(st, ast.If) and isinstance(st.test, ast.Name) and st.test.id == "did_error_scanning_files":
            top_if = st
    if init is None or top_if is None:
        raise TranslateError("scan_result initialisation / did_error_scanning_files test not found")
    err_res = None
    for st in top_if.body:
        if isinstance(st, ast.Assign) and isinstance(st.targets[0], ast.Name) and st.targets[0].id == "scan_result":
            err_res = _result_of(st.value)
    if err_res is None:
        raise TranslateError("no scan_result assignment in discovery-error branch")
    chain = []
    node = next((s for s in top_if.orelse if isinstance(s, ast.If)), None)
    if node is None:
        raise TranslateError("result if-chain not found")
    # any other assignment to scan_result in the else-branch would escape the model
    n_assign = sum(1 for s in ast.walk(ast.Module(body=top_if.orelse, type_ignores=[]))
                   if isinstance(s, ast.Assign) and isinstance(s.targets[0], ast.Name) and s.targets[0].id == "scan_result")
    while node is not None:
        if len(node.body) != 1 or not isinstance(node.body[0], ast.Assign):
            raise TranslateError("chain arm is not a single assignment")
        chain.append((_cond_of(node.test), _result_of(node.body[0].value)))
        if len(node.orelse) == 1 and isinstance(node.orelse[0], ast.If):
            node = node.orelse[0]
        elif not node.orelse:
            node = None
        else:
            raise TranslateError("chain has a non-if else arm")
    if n_assign != len(chain):
        raise TranslateError("scan_result assigned outside the recognised chain")
    ret = fn.body[-1]
    if not (isinstance(ret, ast.Return) and isinstance(ret.value, ast.Name) and ret.value.id == "scan_result"):
        raise TranslateError("function does not end with `return scan_result`")
    # list-only branch of main()
    mainfn = next((n for n in ast.walk(tree) if isinstance(n, ast.FunctionDef) and n.name == "main"), None)
    list_empty = None
    main_init = None
    for n in ast.walk(mainfn):
        if isinstance(n, ast.If) and isinstance(n.test, ast.Name) and n.test.id == "did_only_list_files":
            inner = n.body[0]
            if (isinstance(inner, ast.If) and isinstance(inner.test, ast.UnaryOp) and isinstance(inner.test.op, ast.Not)
                    and isinstance(inner.test.operand, ast.Name) and inner.test.operand.id == "files_to_scan"):
                list_empty = _result_of(inner.body[0].value)
    for st in mainfn.body:
        if isinstance(st, ast.Assign) and isinstance(st.targets[0], ast.Name) and st.targets[0].id == "scan_result":
            main_init = _result_of(st.value)
    if list_empty is None or main_init is None:
        raise TranslateError("list-files branch of main() not recognised")
    return {"init": init, "discoverError": err_res, "chain": chain, "listEmpty": list_empty, "listNonEmpty": main_init}

def render(repo):
    ct, dt, sc = code_table(repo), doc_table(repo), scan_chain(repo)
    def tab(rows):
        return "[" + ",\n   ".join(f"(.{'dflt' if s=='default' else 'minimal'}, {LEAN_RESULT[r]}, {c})" for s, r, c in rows) + "]"
    chain = "[" + ", ".join(f"({c}, {LEAN_RESULT[r]})" for c, r in sc["chain"]) + "]"
    return f"""-- GENERATED by tools/translate/exit_table.py from /repo — do not edit.
import Verif.Model.ExitCode
namespace Verif.Gen.ExitTable
open Verif.Model.ExitCode

/-- `SchemeDefinition.get_scheme_mapping()` of every registered scheme (reflection). -/
def codeTable : List (Scheme × Result × Nat) :=
  {tab(ct)}

/-- The table under `--return-code-scheme` in newdocs/src/user-guide.md. -/
def docTable : List (Scheme × Result × Nat) :=
  {tab(dt)}

/-- The if/elif chain of `__scan_files_if_no_errors` and the list-files branch of `main`. -/
def flow : Flow :=
  {{ init := {LEAN_RESULT[sc['init']]}, discoverError := {LEAN_RESULT[sc['discoverError']]},
    chain := {chain},
    listEmpty := {LEAN_RESULT[sc['listEmpty']]}, listNonEmpty := {LEAN_RESULT[sc['listNonEmpty']]} }}

end Verif.Gen.ExitTable
"""
