"""Correspondence of the faithful models of nine more scan-only rules (lean/Verif/Model/ScanRules2/*.lean, driver `scanrules2`)
with the REAL rule classes MD011 MD013 MD014 MD018 MD020 MD028 MD032 MD033 MD034 of pymarkdown.

Real side, per (rule, raw configuration, file = token stream + lines): a real `PluginManager` with exactly that rule enabled (or all
nine together: rule `all`), configured from a property dictionary, is driven the way `FileScanHelper.__process_file_scan` drives it —
`starting_new_file()`, `next_token` for every token, `next_line` for every line (numbers from 1), `completed_file` — and the raw report
list of the scan context is read: (line, column, rule, extra information) in the order the reports were made; an exception is observed by
its root class; a configuration the rule refuses (`MD033`: empty element) is observed as `cfgerr`.
Two-file sequences: the SAME manager scans file A (exception or not), then file B; B's reports are compared with the model's `scanAfter`
and with B on rule objects that scanned nothing (the reset theorems `mdX_state_reset`).
Model side: the abstraction of the stream (`abstract`: kind + exactly the fields of `Tk`) and the lines go to `verifdrv scanrules2`.

Files:
  * parsed: the REAL parser's stream (pragma token dropped, end-of-stream token kept, as the scan has it) and `split("\\n")` lines of
    every document of `docs.families()`, `docs.repo_sources()`, `docs.rule_resources()` and the rule-targeted family `extra_docs()`;
  * synthetic: every token list of length ≤ N over a per-rule alphabet of abstract tokens, built into REAL token objects (`build`) —
    shapes the parser never produces — with per-rule line lists.
Thorough = all of it; quick = a `ctx.rng` sample of the same space plus everything short.
CPython tables: the three `re` patterns of MD018/MD020, MD011's pattern (`search(...).span()` on every string ≤ n over a small alphabet,
and its `re._parser` tree against the model's AST), `str.split`, the `find` loop of MD034, `adjust_for_newlines`, `extract_until_spaces`.
On parsed documents every real report is also checked for C07 (line exists, 1 ≤ column ≤ length + 1): `failing_inputs`."""
import itertools, os, re, sys, zlib
import multiprocessing as mp
import vlib, docs, implib
import tokenruleslib as trl
import scanruleslib as srl

H = vlib.hexs
RULE_IDS = ["md011", "md013", "md014", "md018", "md020", "md028", "md032", "md033", "md034"]
DEFAULT = dict(kind="other", line=0, col=0, text="", label=0, aux=())


class Unabstractable(Exception):
    pass


# ------------------------------------------------------------------ abstraction: real token -> Tk
def kind_of(t):
    n = t.token_name
    if t.is_paragraph: return "para"
    if t.is_paragraph_end: return "end-para"
    if t.is_text: return "text"
    if t.is_blank_line: return "BLANK"
    if t.is_atx_heading: return "atx"
    if t.is_atx_heading_end: return "end-atx"
    if t.is_setext_heading: return "setext"
    if t.is_setext_heading_end: return "end-setext"
    if t.is_fenced_code_block: return "fcode-block"
    if t.is_fenced_code_block_end: return "end-fcode-block"
    if t.is_indented_code_block: return "icode-block"
    if t.is_indented_code_block_end: return "end-icode-block"
    if t.is_html_block: return "html-block"
    if t.is_html_block_end: return "end-html-block"
    if t.is_thematic_break: return "tbreak"
    if t.is_link_reference_definition: return "link-ref-def"
    if t.is_block_quote_start: return "block-quote"
    if t.is_block_quote_end: return "end-block-quote"
    if t.is_list_start: return "list"
    if t.is_list_end: return "end-list"
    if t.is_new_list_item: return "li"
    if t.is_end_of_stream: return "end-of-stream"
    if t.is_inline_code_span: return "icode-span"
    if t.is_inline_raw_html: return "raw-html"
    if t.is_inline_link: return "link"
    if t.is_inline_link_end: return "end-link"
    if t.is_inline_image: return "image"
    if t.is_inline_hard_break: return "hard-break"
    if t.is_inline_emphasis: return "emphasis"
    if t.is_inline_emphasis_end: return "end-emphasis"
    if t.is_inline_autolink: return "autolink"
    if t.is_task_list: return "task-list"
    if t.is_leaf: return "leaf-other"
    if t.is_end_token: return "other-end"
    return "other"


_LEAF = {"para", "BLANK", "atx", "setext", "fcode-block", "icode-block", "html-block", "tbreak", "link-ref-def", "leaf-other"}
_END = {"end-para", "end-atx", "end-setext", "end-fcode-block", "end-icode-block", "end-html-block", "end-block-quote", "end-list", "end-link",
        "end-emphasis", "end-of-stream", "other-end"}


def abstract(t):
    k = kind_of(t)
    real = (bool(t.is_blank_line or t.is_leaf), bool(t.is_code_block), bool(t.is_code_block_end), bool(t.is_end_token))
    model = (k in _LEAF, k in ("fcode-block", "icode-block"), k in ("end-fcode-block", "end-icode-block"), k in _END)
    if real != model:
        raise Unabstractable("predicates of %s differ from kind %s: %r" % (t.token_name, k, real))
    d = dict(DEFAULT)
    d["kind"], d["line"], d["col"] = k, t.line_number, t.column_number
    if k == "text":
        d["text"] = t.token_text
    elif k == "raw-html":
        d["text"] = t.raw_tag
    elif k == "para":
        d["text"] = t.extracted_whitespace
    elif k in ("link", "image"):
        d["text"] = t.text_from_blocks
        d["label"] = {"inline": 0, "full": 1}.get(t.label_type, 2)
        d["aux"] = (t.before_link_whitespace, t.before_title_whitespace, t.after_title_whitespace, t.active_link_title, t.ex_label)
    elif k == "icode-span":
        d["aux"] = (t.leading_whitespace, t.span_text, t.trailing_whitespace)
    return d


def enc_tok(d):
    return ",".join([d["kind"], str(d["line"]), str(d["col"]), H(d["text"]), str(d["label"]),
                     "/".join("-" if a is None else "=" + H(a) for a in d["aux"])])


def enc_toks(ds):
    return ";".join(enc_tok(d) for d in ds)


def enc_lines(ls):
    return ";".join("=" + H(l) for l in ls)


# ------------------------------------------------------------------ synthetic: Tk -> real token object
_END_NAME = {"end-para": "para", "end-atx": "atx", "end-setext": "setext", "end-fcode-block": "fcode-block", "end-icode-block": "icode-block",
             "end-html-block": "html-block", "end-block-quote": "block-quote", "end-list": "ulist", "end-link": "link",
             "end-emphasis": "emphasis", "other-end": "table"}


def build(d):
    from pymarkdown.general.position_marker import PositionMarker
    from pymarkdown.tokens.markdown_token import EndMarkdownToken
    from pymarkdown.tokens.atx_heading_markdown_token import AtxHeadingMarkdownToken
    from pymarkdown.tokens.setext_heading_markdown_token import SetextHeadingMarkdownToken
    from pymarkdown.tokens.paragraph_markdown_token import ParagraphMarkdownToken
    from pymarkdown.tokens.blank_line_markdown_token import BlankLineMarkdownToken
    from pymarkdown.tokens.text_markdown_token import TextMarkdownToken
    from pymarkdown.tokens.thematic_break_markdown_token import ThematicBreakMarkdownToken
    from pymarkdown.tokens.fenced_code_block_markdown_token import FencedCodeBlockMarkdownToken
    from pymarkdown.tokens.indented_code_block_markdown_token import IndentedCodeBlockMarkdownToken
    from pymarkdown.tokens.html_block_markdown_token import HtmlBlockMarkdownToken
    from pymarkdown.tokens.unordered_list_start_markdown_token import UnorderedListStartMarkdownToken
    from pymarkdown.tokens.new_list_item_markdown_token import NewListItemMarkdownToken
    from pymarkdown.tokens.block_quote_markdown_token import BlockQuoteMarkdownToken
    from pymarkdown.tokens.link_start_markdown_token import LinkStartMarkdownToken
    from pymarkdown.tokens.image_start_markdown_token import ImageStartMarkdownToken
    from pymarkdown.tokens.emphasis_markdown_token import EmphasisMarkdownToken
    from pymarkdown.tokens.inline_code_span_markdown_token import InlineCodeSpanMarkdownToken
    from pymarkdown.tokens.raw_html_markdown_token import RawHtmlMarkdownToken
    from pymarkdown.tokens.hard_break_markdown_token import HardBreakMarkdownToken
    from pymarkdown.tokens.uri_autolink_markdown_token import UriAutolinkMarkdownToken
    from pymarkdown.tokens.end_of_stream_token import EndOfStreamToken
    from pymarkdown.extensions.front_matter_markdown_token import FrontMatterMarkdownToken
    from pymarkdown.extensions.task_list_items import TaskListToken
    from pymarkdown.extensions.pragma_token import PragmaToken
    x = dict(DEFAULT); x.update(d)
    k, line, col = x["kind"], x["line"], x["col"]
    pm = PositionMarker(line, col - 1, "")
    if k == "para": return ParagraphMarkdownToken(x["text"], pm)
    if k == "text": return TextMarkdownToken(x["text"], "", line_number=line, column_number=col)
    if k == "BLANK": return BlankLineMarkdownToken("", pm)
    if k == "atx": return AtxHeadingMarkdownToken(1, 0, "", pm)
    if k == "setext": return SetextHeadingMarkdownToken("=", 3, "", pm, ParagraphMarkdownToken("", pm))
    if k == "fcode-block": return FencedCodeBlockMarkdownToken("`", 3, "", "", "", "", "", "", pm)
    if k == "icode-block": return IndentedCodeBlockMarkdownToken("    ", line, col)
    if k == "html-block": return HtmlBlockMarkdownToken(pm, "")
    if k == "tbreak": return ThematicBreakMarkdownToken("-", "", "---", pm)
    if k == "link-ref-def":
        import copy
        t = copy.copy(srl._lrd(pm))
        return t
    if k == "leaf-other": return FrontMatterMarkdownToken("---", "---", [], {}, pm)
    if k == "block-quote": return BlockQuoteMarkdownToken("", pm)
    if k == "list": return UnorderedListStartMarkdownToken("-", 2, 0, "", None, pm)
    if k == "li": return NewListItemMarkdownToken(2, pm, "", "")
    if k == "end-of-stream": return EndOfStreamToken(line)
    if k == "icode-span":
        a = x["aux"]
        return InlineCodeSpanMarkdownToken(a[1], "`", a[0], a[2], line, col)
    if k == "raw-html": return RawHtmlMarkdownToken(x["text"], line, col)
    if k in ("link", "image"):
        from pymarkdown.links.link_helper_properties import LinkHelperProperties
        a = x["aux"]
        lhp = LinkHelperProperties()
        lhp.label_type = {0: "inline", 1: "full"}.get(x["label"], "shortcut")
        lhp.inline_link, lhp.pre_inline_link, lhp.pre_inline_title, lhp.bounding_character = "/u", "", "", '"'
        lhp.before_link_whitespace, lhp.before_title_whitespace, lhp.after_title_whitespace, lhp.inline_title, lhp.ex_label = a
        if k == "link":
            return LinkStartMarkdownToken(x["text"], line, col, lhp)
        return ImageStartMarkdownToken("alt", x["text"], line, col, lhp)
    if k == "hard-break": return HardBreakMarkdownToken("  ", line, col)
    if k == "emphasis": return EmphasisMarkdownToken(1, "*", line, col)
    if k == "autolink": return UriAutolinkMarkdownToken("http://a.b", line, col)
    if k == "task-list": return TaskListToken("x", line, col)
    if k == "other": return PragmaToken({})
    if k in _END_NAME:
        return EndMarkdownToken(_END_NAME[k], "", None, ParagraphMarkdownToken("", pm), False)
    raise Unabstractable("build " + k)


def _build_checked(ds):
    full = []
    for d in ds:
        x = dict(DEFAULT, **d)
        if x["kind"] in ("link-ref-def",):
            pass
        full.append(x)
    toks = [build(d) for d in full]
    abst = [abstract(t) for t in toks]
    for a, b in zip(abst, full):
        if b["kind"] in _END_NAME or b["kind"] in ("other", "leaf-other"):
            b = dict(b, line=a["line"], col=a["col"])
        if b["kind"] == "end-of-stream":
            b = dict(b, col=a["col"])
        if dict(a, aux=tuple(a["aux"])) != dict(b, aux=tuple(b["aux"])):
            raise Unabstractable("abstract(build(d)) != d: %r vs %r" % (a, b))
    return toks, abst


# ------------------------------------------------------------------ the real rules
_PM = {}


def _key(rule, cfg):
    return (rule, repr(sorted((k, repr(v)) for k, v in cfg.items())))


def manager(rule, cfg):
    """A real PluginManager with exactly `rule` (or the nine rules: `all`, cfg = {rule: {key: value}}) enabled and configured; `None`
    when the rule's `initialize_from_config` refuses the configuration."""
    key = _key(rule, cfg)
    if key not in _PM:
        trl._fast_inspect()
        from application_properties import ApplicationProperties
        from pymarkdown.general.main_presentation import MainPresentation
        from pymarkdown.plugin_manager.plugin_manager import PluginManager
        import pymarkdown, enginelib
        ids, _ = enginelib.builtin_meta()
        on = RULE_IDS if rule == "all" else [rule]
        props = ApplicationProperties()
        d = {r: dict(c) for r, c in cfg.items() if c} if rule == "all" else ({rule: dict(cfg)} if cfg else {})
        if d:
            props.load_from_dict({"plugins": d}, clear_map=False)
        pm = PluginManager(MainPresentation())
        pdir = os.path.join(os.path.dirname(pymarkdown.__file__), "plugins")
        pm.initialize(pdir, [], ",".join(on), ",".join(i.lower() for i in ids if i.lower() not in on), props, False, False)
        try:
            pm.apply_configuration(props)
            assert [p.plugin_id.lower() for p in pm.enabled_plugins] == on, (rule, [p.plugin_id for p in pm.enabled_plugins])
            _PM[key] = pm
        except Exception as e:      # noqa: BLE001
            if srl._root(e) != "ValueError":
                raise
            _PM[key] = None
    return _PM[key]


def fresh_manager(rule, cfg):
    key = _key(rule, cfg)
    saved = _PM.pop(key, None)
    try:
        return manager(rule, cfg)
    finally:
        if saved is not None:
            _PM[key] = saved
        else:
            _PM.pop(key, None)


def real_scan(pm, toks, lines, with_rule):
    if pm is None:
        return "cfgerr"
    try:
        ctx = pm.starting_new_file("f.md")
        for t in toks:
            pm.next_token(ctx, t)
        n = 1
        for i, l in enumerate(lines):
            pm.next_line(ctx, n, l, i == len(lines) - 1, False)
            n += 1
        pm.completed_file(ctx, n)
        reps = ctx._PluginScanContext__reported
        return "ok " + ",".join((("%d:" % int(r.rule_id[2:])) if with_rule else "") +
                                "%d:%d:%s" % (r.line_number, r.column_number, srl._opt(r.extra_error_information)) for r in reps)
    except Exception as e:          # noqa: BLE001 — the exception class IS the observation
        return "err " + srl._root(e)


def real_answer(rule, cfg, toks, lines, before=None):
    pm = manager(rule, cfg)
    if before is not None and pm is not None:
        real_scan(pm, before[0], before[1], rule == "all")
    return real_scan(pm, toks, lines, rule == "all")


def real_cfg(rule, cfg):
    pm = manager(rule, cfg)
    if pm is None:
        return "cfgerr"
    out = []
    for it in pm.enabled_plugins[0].plugin_instance.query_config():
        v = it.value
        out.append(("1" if v else "0") if isinstance(v, bool) else str(v) if isinstance(v, int) else H(v))
    return "|".join(out)


# ------------------------------------------------------------------ rules: raw configurations, synthetic alphabets, line lists
def _t(kind, line=1, col=1, **kw):
    return dict(kind=kind, line=line, col=col, **kw)


def _e(kind):
    return dict(kind=kind)


_LEAFS = [_t("para", line=1), _t("BLANK", line=2), _t("atx", line=2), _t("setext", line=3), _t("fcode-block", line=2), _t("icode-block", line=3),
          _t("html-block", line=1), _t("tbreak", line=3), _t("link-ref-def", line=1), _t("leaf-other", line=1), _t("text", line=1), _e("end-para"),
          _t("block-quote", line=1), _t("para", line=0)]
_L = lambda n, tail="": "a" * n + tail       # noqa: E731
_LINK_AUX = ("", "", "", "", "")

RULES = {
    "md011": dict(
        cfgs=[{}],
        alphabet=_LEAFS, maxlen=3,
        lines=[[], [""], ["(a)[b]"], ["x", "(a)[b]", "(a)[^b] (c)[ d]"], ["()[]", "(a)[ ]", "(a)[x]"], ["(", "[", "(a)[b]", "a(b)[c]d]e"]],
    ),
    "md013": dict(
        cfgs=[{}, {"line_length": 10}, {"line_length": 10, "heading_line_length": 12, "code_block_line_length": 8},
              {"line_length": 10, "strict": True}, {"line_length": 10, "stern": True}, {"line_length": 10, "stern": True, "strict": True},
              {"line_length": 10, "code_blocks": False}, {"line_length": 10, "headings": False}, {"line_length": 0}, {"line_length": "10"},
              {"line_length": True}, {"heading_line_length": 5, "code_block_line_length": -1}, {"code_block_line_length": 5, "strict": 1},
              {"line_length": 12, "heading_line_length": 10, "code_block_line_length": 11, "headings": False, "code_blocks": False},
              {"line_length": 100000, "code_blocks": False}],
        alphabet=_LEAFS, maxlen=3,
        lines=[[], [_L(9), _L(10), _L(11)], [_L(11), _L(10, " b"), _L(8, " bbbb"), _L(11, "\tb")], [_L(12, " "), _L(4, " " * 8), _L(13)],
               [_L(81), _L(80), _L(70, " " + "b" * 20), ""], [_L(6), _L(9), _L(12)], [_L(99999), _L(100000), _L(100001, " x")]],
    ),
    "md014": dict(
        cfgs=[{}],
        alphabet=[_t("fcode-block"), _t("icode-block", line=3), _e("end-fcode-block"), _e("end-icode-block"), _t("text", text="$ a", line=2, col=1),
                  _t("text", text="$ a\n  $b\n$", line=4, col=5), _t("text", text="$ a\nb", line=2), _t("text", text="", line=6), _t("text", text="$\n", line=7),
                  _t("text", text=" \t$", line=8), _t("para"), _t("html-block")],
        maxlen=3, lines=[[]],
    ),
    "md018": dict(
        cfgs=[{}],
        alphabet=[_t("para", col=1, text="\n \n"), _t("para", line=4, col=3, text="  "), _e("end-para"), _t("text", text="#a", line=1, col=1),
                  _t("text", text="x\n#a\n##b #", line=1, col=2), _t("text", text="\n#a", line=2, col=5), _t("text", text="a\n#", line=2, col=5),
                  _t("icode-span", line=1, col=3, aux=("", "a\nb", "")), _t("raw-html", text="b\nc", col=4), _t("hard-break", col=6),
                  _t("link", text="a\nb", label=0, aux=("\n", "", "", "t", ""), col=7), _e("end-link"), _t("image", text="a", label=1, aux=("", "", "", "", "x\ny"), col=8),
                  _t("link", text="a", label=2, aux=("", "", "", "", ""), col=7), _t("emphasis", col=2), _t("BLANK", line=3), _t("atx")],
        maxlen=4, lines=[[]], sample_len4=True,
    ),
    "md020": dict(
        cfgs=[{}],
        alphabet=[_t("para", col=1, text="\n "), _e("end-para"), _t("text", text="#a#", line=1, col=1), _t("text", text="x\n#a #\n##b", line=1, col=2),
                  _t("atx", line=5), _e("end-atx"), _t("text", text="a#", line=5, col=3), _t("text", text="a \\\b#", line=5, col=3),
                  _t("text", text="##", line=5, col=3), _t("text", text="a", line=5, col=3), _t("emphasis", line=5, col=4), _t("hard-break", col=6)],
        maxlen=4, lines=[[]],
    ),
    "md028": dict(
        cfgs=[{}],
        alphabet=[_t("block-quote", line=1), _e("end-block-quote"), _t("BLANK", line=2), _t("BLANK", line=3), _t("para", line=4), _e("end-para")],
        maxlen=6, lines=[[]],
    ),
    "md032": dict(
        cfgs=[{}],
        alphabet=[_t("list", line=2, col=1), _t("list", line=4, col=3), _e("end-list"), _t("li", line=3), _t("block-quote", line=2), _t("block-quote", line=1),
                  _e("end-block-quote"), _t("BLANK", line=3), _t("para", line=1), _e("end-para"), _t("end-of-stream", line=9, col=0), _t("tbreak", line=5)],
        maxlen=4, lines=[[]], sample_len5=True,
    ),
    "md033": dict(
        cfgs=[{}, {"allowed_elements": ""}, {"allowed_elements": "b, i ,h1"}, {"allowed_elements": "a,,b"}, {"allowed_elements": " "}, {"allowed_elements": 5},
              {"allow_first_image_element": False}, {"allow_first_image_element": "no"}, {"allowed_elements": "B", "allow_first_image_element": True},
              {"allowed_elements": ","}],
        alphabet=[_t("html-block", line=1), _t("html-block", line=5), _e("end-html-block"), _t("text", text="<h1><img src=x></h1>", line=1),
                  _t("text", text="<H1 a><IMG></H1>", line=1), _t("text", text="<h1 </h1>", line=1), _t("text", text="<h1>x</h1>", line=1),
                  _t("text", text="<b>", line=5), _t("text", text="</b>", line=5), _t("text", text="<!-- c", line=5), _t("text", text="", line=5),
                  _t("raw-html", text="b x", col=3), _t("raw-html", text="/b", col=4), _t("raw-html", text="![CDATA[x]]", col=5), _t("raw-html", text="!DOCTYPEx", col=6),
                  _t("raw-html", text="B/", col=7), _t("raw-html", text="h1><img></h1", col=8), _t("para", line=3)],
        maxlen=3, lines=[[]],
    ),
    "md034": dict(
        cfgs=[{}],
        alphabet=[_t("text", text="http://a", col=1), _t("text", text="a http://b\nhttps://c ftp://d\n ftps://e", line=2, col=3), _t("text", text="xhttp://a http:// b http://", col=2),
                  _t("text", text="http:http://a", col=1), _t("text", text="\nhttp://\nb", col=4), _t("fcode-block"), _t("icode-block"), _e("end-fcode-block"),
                  _e("end-icode-block"), _t("html-block"), _e("end-html-block"), _t("link", aux=_LINK_AUX), _e("end-link"), _t("para")],
        maxlen=3, lines=[[]],
    ),
    "all": dict(
        cfgs=[{}, {"md013": {"line_length": 10, "heading_line_length": 8}, "md033": {"allowed_elements": "b"}},
              {"md013": {"line_length": 10, "strict": True}, "md033": {"allowed_elements": "", "allow_first_image_element": False}},
              {"md033": {"allowed_elements": "a,"}}],
        alphabet=[_t("para", col=1, text="\n"), _e("end-para"), _t("text", text="#a http://b\n#c#", col=1), _t("html-block", line=1), _t("text", text="<h1 </h1>", line=1),
                  _t("block-quote", line=1), _e("end-block-quote"), _t("BLANK", line=2), _t("list", line=3), _e("end-list"), _t("fcode-block", line=3),
                  _t("raw-html", text="i", col=2), _t("atx", line=4), _e("end-atx")],
        maxlen=3,
        lines=[[], [_L(11), "(a)[b]"]],
    ),
}


def jobs_of(rules):
    return [(r, c) for r in rules for c in RULES[r]["cfgs"]]


def enc_jobs(jobs):
    return "&".join("%s~%s" % (r, srl.enc_cfg(r, c)) for r, c in jobs)


# ------------------------------------------------------------------ document spaces
def extra_docs():
    """Closed family of rule-targeted documents."""
    out = []
    # MD013: lines of length limit-1 / limit / limit+1 with and without trailing words, under every leaf kind
    for n in (9, 10, 11, 79, 80, 81):
        for tail in ("", " b", " bb bb", "\tb", " "):
            l = "a" * n + tail
            out += [l + "\n", "# " + l[2:] + "\n", "```\n" + l + "\n```\n", "    " + l[4:] + "\n", l + "\n===\n", "x\n\n" + l + "\n---\n", "<div>\n" + l + "\n</div>\n",
                    "> " + l[2:] + "\n", "- " + l[2:] + "\n", "[a]: /" + l[6:] + "\n", "text\n" + l + "\n", l + "\n\n" + l + "\n", "~~~\n" + l]
    out += ["a\n===\nb\n", "---\ntitle: " + "a" * 90 + "\n---\n\ntext\n", "<!-- pyml disable-next-line md013-->\n" + "a" * 90 + "\n", "a" * 100, "\n" * 3 + "a" * 90,
            "| a | b |\n|---|---|\n| " + "c" * 90 + " | d |\n", "- a\n\n  " + "b" * 90 + "\n", "1. a\n   ```\n   " + "c" * 90 + "\n   ```\n"]
    # MD034: URLs at the very end of a text token / before emphasis / in headings / continuation lines
    for u in ("http://a.b", "https://a.b", "ftp://a", "ftps://a", "http:/a", "http://", "http:// a", "HTTP://a", "xhttp://a", "mailto:a@b"):
        out += [u + "\n", "see " + u + "\n", u + " *e*\n", "*" + u + "*\n", "# " + u + "\n", "a\n" + u + "\n", "a\n  " + u + " b\n", "> a\n> " + u + "\n", "- a\n  " + u + "\n",
                "<" + u + ">\n", "[a](" + u + ")\n", "[" + u + "](/u)\n", "`" + u + "`\n", "```\n" + u + "\n```\n", "    " + u + "\n", "<div>\n" + u + "\n</div>\n", u + "\n===\n",
                "a " + u, "a\\\n" + u + "\n", "a  \n" + u + "\n", "&amp; " + u + "\n", "a\n\n" + u + " " + u + "\n", "[a]: /u\n" + u + "\n", "![" + u + "](/u)\n", "a " + u + " `c\nd` " + u + "\n"]
    # MD018 / MD020: `#text` paragraphs, code spans spanning lines, links, hard breaks
    for h in ("#a", "##a", "#######a", "#\ta", "#a#", "#a #", "##a##", "# a#", "#a\\#", "#", "#a ", "#a  #  ", "\\#a", "#&amp;"):
        out += [h + "\n", "x\n" + h + "\n", " " + h + "\n", "   " + h + "\n", "x\n   " + h + "\n", "  x\n" + h + "\n", "x `a\nb`\n" + h + "\n", "x `a\nb` y\n" + h + "\n", "x <b\nc>\n" + h + "\n",
                "x  \n" + h + "\n", "x\\\n" + h + "\n", "x [a\nb](/u)\n" + h + "\n", "x [a](/u\n\"t\")\n" + h + "\n", "x ![a\nb][c]\n" + h + "\n\n[c]: /u\n", "*e*\n" + h + "\n",
                "x [l\n" + h + "](/u)\n", "> x\n> " + h + "\n", "- x\n  " + h + "\n", "- x\n" + h + "\n", h + "\n" + h + "\n", "x\n" + h + " *e*\n", "x\n" + h + "\ny\n", "x <http://a>\n" + h + "\n",
                "# " + h + "\n", "# a " + h + "\n", "# a" + h + "\n", "## a ##" + "\n"]
    # MD028: quotes separated by blank lines
    for b in range(3):
        for sep in ("", "text\n", "---\n"):
            out += ["> a\n" + "\n" * b + sep + "> b\n", "> a\n" + ">\n" * b + "> b\n", "> a\n" + "\n" * b + sep + "\n" * b + "> b\n\n> c\n", "- > a\n" + "\n" * b + "  > b\n",
                    "> > a\n" + "\n" * b + "> b\n", "> a\n" + "\n" * b + sep]
    # MD032: lists next to every leaf kind
    leafs = ["text\n", "# h\n", "h\n===\n", "```\nc\n```\n", "    c\n", "<div>\n", "---\n", "[a]: /u\n", "\n", "> q\n", ""]
    for a in leafs:
        for z in leafs:
            for lst in ("- a\n", "1. a\n", "- a\n- b\n", "- a\n  - b\n", "* a\n\n"):
                out.append(a + lst + z)
    out += ["- a\n\ntext\n- b\n", "> - a\n> text\n", "> text\n> - a\n", "- a\n> - b\n", "> - a\n\n- b\ntext\n", "- a\n\n  text\n  - b\n", "1. a\n\ntext\n1. b\ntext\n"]
    # MD033: inline HTML tag forms
    for tag in ("<b>", "</b>", "<b/>", "<b x=1>", "<!-- c -->", "<![CDATA[x]]>", "<!DOCTYPE html>", "<?php ?>", "<B>", "<h1>", "<img src=x>", "<a\nb>"):
        out += ["x " + tag + " y\n", tag + "\n", "# " + tag + "\n", "- " + tag + "\n", "> " + tag + "\n", "x\n\n" + tag + "\n"]
    for first in ("<h1><img src=x></h1>", "<h1 align=c><img src=x></h1>", "<H1><IMG></H1>", "<h1>x</h1>", "<h1><img></h1>x", "<h1 </h1>", "<h1\t</h1>", "<h1><img>x</h1>", "<h1></h1>",
                  "<h1/></h1>", "<h2><img></h2>", "<h1>\n<img>\n</h1>"):
        out += [first + "\n", "\n" + first + "\n", "x\n\n" + first + "\n", first + "\n\n" + first + "\n", "x <i>\n\n" + first + "\n"]
    # MD014
    for body in ("$ a", "$ a\n$ b", "$ a\nout", "  $ a", "$", "", "a", "$ a\n\n$ b", "\t$ a"):
        out += ["```\n" + body + "\n```\n", "    " + body.replace("\n", "\n    ") + "\n", "```sh\n" + body + "\n", "> ```\n> " + body.replace("\n", "\n> ") + "\n> ```\n"]
    # MD011
    for l in ("(a)[b]", "x (a)[b] y", "(a)[^b]", "(a)[ b ]", "(a) [b]", "[b](a)", "(a)[b](c)[d]", "((a)[b]", "(a)[]", "(a)[]]", "()[\t]", "a(b)c)[d]e]f"):
        out += [l + "\n", "```\n" + l + "\n```\n", "    " + l + "\n", "<div>\n" + l + "\n</div>\n", "# " + l + "\n", "> " + l + "\n", "x\n" + l + "\n===\n", "`" + l + "`\n"]
    seen, res = set(), []
    for d in out:
        if d not in seen:
            seen.add(d); res.append(d)
    return res


def parse_file(src, front_matter=False):
    toks = srl.parse(src, front_matter)
    if toks and toks[-1].is_pragma:
        toks = toks[:-1]
    return toks, src.split("\n")


def doc_space(quick, rng):
    fam, corpus, res, extra = docs.families(), docs.repo_sources(), [t for _, t in docs.rule_resources()], extra_docs()
    if quick:
        fam, corpus, res, extra = docs.sample(rng, fam, 100), docs.sample(rng, corpus, 100), docs.sample(rng, res, 120), docs.sample(rng, extra, 420)
    seen, out = set(), []
    for tag, ds in (("families", fam), ("corpus", corpus), ("resources", res), ("extra", extra)):
        for d in ds:
            if d not in seen:
                seen.add(d)
                out.append((tag, d))
    return out


# ------------------------------------------------------------------ line coverage of the nine rule modules
_COV = {"on": False, "hit": set()}
_TOOL = 4


def cov_start():
    if _COV["on"]:
        return
    mon = sys.monitoring
    vlib.claim_tool(_TOOL, "scanrules2lib")
    wanted = tuple("rule_md_%s.py" % r[2:] for r in RULE_IDS)

    def on_line(code, line):
        if code.co_filename.endswith(wanted):
            _COV["hit"].add((os.path.basename(code.co_filename), line))
        return mon.DISABLE
    mon.register_callback(_TOOL, mon.events.LINE, on_line)
    mon.set_events(_TOOL, mon.events.LINE)
    _COV["on"] = True


def cov_lines():
    import importlib
    skip = {"get_details", "query_config", "__init__", "<module>"}
    out = set()

    def walk(code, fname):
        for _, _, ln in code.co_lines():
            if ln is not None and ln != code.co_firstlineno:
                out.add((fname, ln))
        for c in code.co_consts:
            if hasattr(c, "co_lines"):
                walk(c, fname)
    for r in RULE_IDS:
        m = importlib.import_module("pymarkdown.plugins.rule_md_%s" % r[2:])
        fname = os.path.basename(m.__file__)
        top = compile(open(m.__file__, encoding="utf-8").read(), m.__file__, "exec")
        for c in top.co_consts:
            if hasattr(c, "co_lines"):
                for f in c.co_consts:
                    if hasattr(f, "co_lines") and f.co_name not in skip:
                        walk(f, fname)
    return out


# ------------------------------------------------------------------ workers
SPEC_RULES = ("md011", "md013", "md014", "md028", "md033", "md034")


def _file_jobs(toks, abst, lines, rules, tag, src, out):
    jobs = jobs_of(rules)
    enc = enc_toks(abst) + "|" + enc_lines(lines)
    req = "scan|" + enc_jobs(jobs) + "|" + enc
    real = "&".join(real_answer(r, c, toks, lines) for r, c in jobs)
    sjobs = [(r, c) for r, c in jobs if r in SPEC_RULES]
    spec = ("spec|" + enc_jobs(sjobs) + "|" + enc) if sjobs else None
    out.append((tag, src, req, real, None, spec))


def _work_docs(args):
    chunk, rules = args
    cov_start()
    out = []
    for tag, src in chunk:
        for fmx in ((False, True) if src.startswith("---") else (False,)):
            try:
                toks, lines = parse_file(src, fmx)
            except Exception as e:      # noqa: BLE001 — parser failures are C01's business
                out.append((tag, src, None, "parse " + type(e).__name__))
                continue
            try:
                abst = [abstract(t) for t in toks]
            except Exception as e:      # noqa: BLE001
                out.append((tag, src, None, "ABSTRACT " + type(e).__name__ + " " + str(e)))
                continue
            _file_jobs(toks, abst, lines, rules, tag, src, out)
    return out, set(_COV["hit"])


def _work_synth(args):
    rule, files = args
    cov_start()
    out = []
    for ds, lines in files:
        try:
            toks, abst = _build_checked(ds)
        except Exception as e:          # noqa: BLE001
            out.append(("synthetic", ds, None, "build " + type(e).__name__ + " " + str(e)[:200]))
            continue
        _file_jobs(toks, abst, lines, [rule], "synthetic", (ds, lines), out)
    return out, set(_COV["hit"])


def _work_pairs(args):
    rule, pairs = args
    cov_start()
    out = []
    jobs = jobs_of([rule])
    for (a, la), (b, lb) in pairs:
        try:
            ta, aa = _build_checked(a)
            tb, ab = _build_checked(b)
        except Exception as e:          # noqa: BLE001
            out.append(("pair", (a, b), None, "build " + type(e).__name__ + " " + str(e)[:200]))
            continue
        req = "after|" + enc_jobs(jobs) + "|" + enc_toks(ab) + "|" + enc_lines(lb) + "|" + enc_toks(aa) + "|" + enc_lines(la)
        real = "&".join(real_answer(r, c, tb, lb, before=(ta, la)) for r, c in jobs)
        alone = None
        if zlib.crc32(req.encode()) % 8 == 0:
            alone = "&".join(real_scan(fresh_manager(r, c), tb, lb, r == "all") for r, c in jobs)
        out.append(("pair", ((a, la), (b, lb)), req, real, alone, None))
    return out, set(_COV["hit"])


def _work_docpairs(args):
    pairs, rules = args
    cov_start()
    out = []
    jobs = jobs_of(rules)
    for a, b in pairs:
        try:
            (ta, la), (tb, lb) = parse_file(a), parse_file(b)
            aa, ab = [abstract(t) for t in ta], [abstract(t) for t in tb]
        except Exception as e:          # noqa: BLE001
            out.append(("docpair", (a, b), None, "parse " + type(e).__name__))
            continue
        req = "after|" + enc_jobs(jobs) + "|" + enc_toks(ab) + "|" + enc_lines(lb) + "|" + enc_toks(aa) + "|" + enc_lines(la)
        real = "&".join(real_answer(r, c, tb, lb, before=(ta, la)) for r, c in jobs)
        alone = "&".join(real_scan(fresh_manager(r, c), tb, lb, r == "all") for r, c in jobs)
        out.append(("docpair", (a, b), req, real, alone, None))
    return out, set(_COV["hit"])


def _dispatch(w):
    return {"D": _work_docs, "S": _work_synth, "P": _work_pairs, "Q": _work_docpairs}[w[0]](w[1:])


def synth_files(rule, quick, rng):
    spec = RULES[rule]
    alpha, n = spec["alphabet"], spec["maxlen"]
    lists = [list(p) for k in range(n + 1) for p in itertools.product(alpha, repeat=k)]
    if spec.get("sample_len5"):
        more = [list(p) for p in itertools.product(alpha, repeat=5)]
        lists += [l for i, l in enumerate(more) if i % 9 == 0]
    files = [(l, ls) for l in lists for ls in spec["lines"] if len(l) <= 1 or sum(map(len, ls)) < 5000]
    cap = 600 if quick else 60000
    if len(files) > cap:
        short = [f for f in files if len(f[0]) <= 2]
        if len(short) > cap // 2:
            short = rng.sample(short, cap // 2)
        files = short + rng.sample([f for f in files if len(f[0]) > 2], cap - len(short))
    return files


def pair_files(rule, quick, rng):
    spec = RULES[rule]
    alpha = spec["alphabet"]
    A = [list(p) for k in range(3) for p in itertools.product(alpha, repeat=k)]
    B = [list(p) for k in range(1, 3) for p in itertools.product(alpha, repeat=k)]
    LA, LB = spec["lines"][:3], spec["lines"][:4]
    pairs = [((a, la), (b, lb)) for a in A for b in B for la in LA[-1:] for lb in LB[-1:]]
    cap = 300 if quick else 8000
    if len(pairs) > cap:
        pairs = rng.sample(pairs, cap)
    return pairs


def doc_pairs(quick, rng):
    A = ["x\n#a", "x\n#a\n", "> a\n", "> a\n\n", "- a\n", "- a\n\n", "```\n$ a", "<div>\n", "[a](/u", "x [a\n#b](/u)\n", "# a#\n", "# a#", "x  \n#a *b", "<h1>\n", "a" * 90 + "\n\n" * 3]
    B = ["#a\n", "x\n#a\n", "> b\n", "\n> b\n", "text\n- b\n", "- b\ntext\n", "$ a\n", "http://a.b\n", "<h1><img></h1>\n", "#a#\n", "# b#\n", "(a)[b]\n", "b" * 90 + "\n", "x\n\n```\n" + "c" * 90 + "\n```\n", ""]
    pairs = [(a, b) for a in A for b in B]
    return docs.sample(rng, pairs, 40) if quick else pairs


# ------------------------------------------------------------------ CPython tables
def _re_ser(pattern):
    """`re._parser.parse(pattern)` in the syntax of `Verif.Model.ScanRules2.Re.ser`"""
    import re._parser as P
    from re._constants import LITERAL, NOT_LITERAL, ANY, IN, CATEGORY, NEGATE, MAX_REPEAT, MAXREPEAT, CATEGORY_SPACE

    def one(op, av):
        if op is LITERAL:
            return "lit%d" % av
        if op is NOT_LITERAL:
            return "not%d" % av
        if op is ANY:
            return "any"
        if op is IN:
            if len(av) == 1 and av[0][0] is CATEGORY and av[0][1] is CATEGORY_SPACE:
                return "space"
            if len(av) == 2 and av[0][0] is NEGATE and av[1][0] is LITERAL:
                return "not%d" % av[1][1]
            raise ValueError("IN %r" % (av,))
        if op is MAX_REPEAT:
            lo, hi, sub = av
            if lo == 0 and hi is MAXREPEAT and len(sub) == 1:
                return "star(" + one(*sub[0]) + ")"
        raise ValueError("%r %r" % (op, av))
    return " ".join(one(op, av) for op, av in P.parse(pattern))


def _strings(alpha, n):
    return ["".join(p) for k in range(n + 1) for p in itertools.product(alpha, repeat=k)]


def cpython_tables(quick):
    import importlib
    from pymarkdown.general.parser_helper import ParserHelper
    m11 = importlib.import_module("pymarkdown.plugins.rule_md_011")
    rx11 = m11.RuleMd011()._RuleMd011__reverse_link_syntax
    reqs, want = ["re|ser"], [_re_ser(rx11.pattern)]
    for s in _strings("()[]^ a\t", 5 if quick else 6) + ["(a)[\xa0b]", "(a)[\x0b]", "( )[x]", "(a)[\x1c^]", "(a)[\x85x]x]", "((()[[a]]]", "(a)[b] (c)[^d]"]:
        m = rx11.search(s)
        reqs.append("re|011|" + H(s)); want.append("%d:%d" % m.span() if m else "-")
    for s in _strings(" #a\t", 6 if quick else 8) + ["    #a", "#\xa0", "#a\\#", "######", "#######", "####### ", "#a \t#", "#a#\n"[:-1]]:
        reqs.append("re|start|" + H(s)); want.append("1" if re.search(r"^[ ]{0,3}#{1,6}[^ ]", s) else "0")
        reqs.append("re|end|" + H(s)); want.append("1" if re.search(r"#[ ]*$", s) else "0")
        reqs.append("re|closed|" + H(s)); want.append("1" if re.search(r"^[ ]{0,3}#{1,6}.*#+[ ]*$", s) else "0")
        if s.endswith("#"):
            reqs.append("re|hashes|" + H(s)); want.append(str(re.search(r"\#+$", s).start()))
    for s in _strings("a\n", 5) + ["", "\n\n", "a\r\nb"]:
        reqs.append("split|" + H(s)); want.append(";".join("=" + H(x) for x in s.split("\n")))
    for p in ("http:", "https:", "ftp:", "ftps:", "aa", "aba"):
        for s in _strings("htps:fa"[:4] if p in ("aa", "aba") else "htp:s", 5) + ["http:http:", "ftps:ftp:ftps:", "https://a http://b", "aaaa", "ababa", "aaa"]:
            found, start, res = s.find(p, 0), 0, []
            while found != -1:
                res.append(found)
                start = found + len(p)
                found = s.find(p, start)
            reqs.append("occ|%s|%s" % (H(p), H(s))); want.append(",".join(map(str, res)))
    for s in _strings("a\n", 5):
        for n in range(len(s) + 1):
            c, l = ParserHelper.adjust_for_newlines(s, 0, n)
            reqs.append("adjust|%d|%s" % (n, H(s))); want.append("%d:%d" % (c, l))
    for s in _strings("a \t", 5):
        for n in range(len(s) + 1):
            reqs.append("until|%d|%s" % (n, H(s))); want.append(str(ParserHelper.extract_until_spaces(s, n)[0]))
    got = vlib.Driver("scanrules2").run(reqs)
    bad = [dict(request=r, cpython=w, model=g) for r, w, g in zip(reqs, want, got) if w != g]
    return len(reqs), bad


def config_check():
    reqs, want, where = [], [], []
    for r in ("md013", "md033"):
        for c in RULES[r]["cfgs"]:
            reqs.append("cfg|%s~%s" % (r, srl.enc_cfg(r, c))); want.append(real_cfg(r, c)); where.append((r, c))
    got = vlib.Driver("scanrules2").run(reqs)
    bad = [dict(rule=w[0], cfg=w[1], real=a, model=b) for w, a, b in zip(where, want, got) if a != b]
    return len(reqs), bad


WITNESSES = [
    ("md033_excluded (assert in __look_for_html_start)", "md033", {}, "<h1 </h1>\n", "AssertionError: `</h1>` at the end but no `>` before it"),
    ("md032 stack not popped after a blank line", "md032", {}, "- a\n\ntext\n- b\n", "no report for the list on line 4: the ended list is still on the container stack"),
    ("md013_setext_text_differs", "md013", {"line_length": 20, "heading_line_length": 10}, "x\n\n" + "a" * 15 + "\n===\n", "no report: the text line of a SetExt heading is governed by the token before it"),
    ("md018_col_out_of_range", "md018", {}, "   x\n#a\n", "column = paragraph column + white space of the line: 4 on a line of 2 characters"),
    ("md018_seven_hashes", "md018", {}, "#######a\n", "reported although the page says 1 to 6 hash characters"),
    ("md034 continuation line", "md034", {}, "> a\n> http://a.b\n", "column 1: the column on a later line of a text token ignores what precedes the text on that line"),
    ("md011 in code span", "md011", {}, "`(a)[b]`\n", "reported: only code blocks and HTML blocks are skipped"),
]


def witnesses():
    out = []
    for name, rule, cfg, doc, expect in WITNESSES:
        try:
            toks, lines = parse_file(doc)
            out.append(dict(theorem=name, rule=rule, document=doc, real=real_answer(rule, cfg, toks, lines), note=expect))
        except Exception as e:          # noqa: BLE001
            out.append(dict(theorem=name, rule=rule, document=doc, real="parse " + type(e).__name__, note=expect))
    return out


def _range_failures(src, job, real):
    """C07 on a parsed document: every report's line exists and 1 <= column <= len(line) + 1"""
    if not real.startswith("ok ") or real == "ok ":
        return []
    lines = src.split("\n")
    if lines and lines[-1] == "":
        lines = lines[:-1] or [""]
    bad = []
    for rep in real[3:].split(","):
        parts = rep.split(":")
        if job.startswith("all"):
            parts = parts[1:]
        ln, col = int(parts[0]), int(parts[1])
        if not (1 <= ln <= len(lines)) or not (1 <= col <= len(lines[ln - 1]) + 1):
            bad.append((ln, col))
    return bad


def run(ctx, quick, rules=None):
    """Correspondence real rule classes <-> model.  Returns coverage counts (+ `disagreements`, `failing_inputs`)."""
    import time as _t
    rules = list(rules or RULES)
    rng = ctx.rng
    cov = {"rules": rules, "jobs": len(jobs_of(rules))}
    space = doc_space(quick, rng)
    work = [("D", c, rules) for c in srl._chunks(space, 24)]
    for r in rules:
        files = synth_files(r, quick, rng)
        cov["synthetic " + r] = len(files)
        work += [("S", r, c) for c in srl._chunks(files, 64)]
        pairs = pair_files(r, quick, rng)
        cov["pairs " + r] = len(pairs)
        work += [("P", r, c) for c in srl._chunks(pairs, 64)]
    dpairs = doc_pairs(quick, rng)
    cov["document pairs"] = len(dpairs)
    work += [("Q", c, rules) for c in srl._chunks(dpairs, 12)]
    t0 = _t.time()
    with mp.Pool(8) as pool:
        parts = pool.map(_dispatch, work, chunksize=1)
    cov["seconds real side"] = round(_t.time() - t0, 1)
    results, hit = [], set()
    for p, h in parts:
        results += p
        hit |= h
    parse_fail = [(x[0], x[1], x[3]) for x in results if x[2] is None and str(x[3]).startswith("parse ")]
    bad_harness = [(x[0], x[1], x[3]) for x in results if x[2] is None and not str(x[3]).startswith("parse ")]
    good = [x for x in results if x[2] is not None]
    t0 = _t.time()
    answers = vlib.Driver("scanrules2").run([x[2] for x in good])
    with_spec = [x for x in good if x[5]]
    spec_answers = dict(zip([id(x) for x in with_spec], vlib.Driver("scanrules2").run([x[5] for x in with_spec])))
    cov["seconds model side"] = round(_t.time() - t0, 1)
    spec_cmp = {"parsed: spec = real": 0, "synthetic: spec = real": 0, "synthetic: spec differs (outside the guards)": 0}
    disagreements, failing, n_cmp, n_reports, errs, per_rule, reset_cmp, range_bad = [], [], 0, 0, {}, {}, 0, {}
    for x, ans in zip(good, answers):
        tag, src, req, real = x[0], x[1], x[2], x[3]
        jobs = req.split("|")[1].split("&")
        m_parts, r_parts = ans.split("&"), real.split("&")
        if len(m_parts) != len(jobs) or len(r_parts) != len(jobs):
            disagreements.append(dict(space=tag, input=src, job="*", real=real[:300], model=ans[:300]))
            continue
        alone = x[4].split("&") if x[4] is not None else None
        if id(x) in spec_answers:
            sp = spec_answers[id(x)].split("&")
            sj = [(j, r) for j, r in zip(jobs, r_parts) if j.split("~")[0] in SPEC_RULES]
            for (job, r), s_ans in zip(sj, sp):
                if r.startswith("err") or r == "cfgerr":
                    continue
                if s_ans == r:
                    spec_cmp["parsed: spec = real" if tag != "synthetic" else "synthetic: spec = real"] += 1
                elif tag == "synthetic":
                    spec_cmp["synthetic: spec differs (outside the guards)"] += 1
                else:
                    disagreements.append(dict(space=tag, input=src, job=job, real=r, spec=s_ans,
                                              what="the right-hand side of mdX_scan_iff differs on a PARSED stream: its guard is not true of every real stream"))
        for k, (job, m, r) in enumerate(zip(jobs, m_parts, r_parts)):
            n_cmp += 1
            rule = job.split("~")[0]
            if r.startswith("err"):
                errs[rule + " " + r[4:]] = errs.get(rule + " " + r[4:], 0) + 1
                if tag not in ("synthetic", "pair"):
                    failing.append(dict(space=tag, document=src, job=job, real=r, property="C07"))
            elif r not in ("ok ", "cfgerr"):
                n = r.count(",") + 1
                n_reports += n
                per_rule[rule] = per_rule.get(rule, 0) + n
                if tag in ("families", "corpus", "resources", "extra"):
                    rb = _range_failures(src, job, r)
                    if rb:
                        range_bad[rule] = range_bad.get(rule, 0) + 1
                        if range_bad[rule] <= 3:
                            failing.append(dict(space=tag, document=src, job=job, real=r, out_of_range=rb, property="C07"))
            if m != r:
                disagreements.append(dict(space=tag, input=src, job=job, real=r, model=m))
            if alone is not None:
                reset_cmp += 1
                if alone[k] != r:
                    failing.append(dict(space=tag, document=src, job=job, real_after=r, real_alone=alone[k], property="C13"))
    n_tab, bad_tab = cpython_tables(quick)
    n_cfg, bad_cfg = config_check()
    for b in bad_tab:
        disagreements.append(dict(space="cpython-table", **b))
    for b in bad_cfg:
        disagreements.append(dict(space="config", **b))
    want = cov_lines()
    unreached = sorted(want - hit)
    cov.update({"documents": len(space), "files": len(good), "comparisons": n_cmp, "real reports": n_reports, "reports per rule": per_rule,
                "real exception answers": errs, "two-file comparisons (B after A = B on fresh rule objects, real side)": reset_cmp,
                "scan_iff right-hand sides": spec_cmp, "documents with a report outside the file (C07), per rule": range_bad,
                "witness documents (real rule)": witnesses(),
                "cpython table entries": n_tab, "configuration checks": n_cfg, "harness skips": len(bad_harness), "skips": bad_harness[:20],
                "documents the parser fails on (C01's business)": len(parse_fail),
                "rule lines reachable": len(want), "rule lines reached": len(want & hit),
                "unreached": ["%s:%d" % u for u in unreached],
                "disagreements": disagreements, "failing_inputs": failing})
    if disagreements:
        ctx.broken.append("correspondence scanrules2: %d disagreements, first %r" % (len(disagreements), disagreements[0]))
    if bad_harness:
        ctx.broken.append("scanrules2 harness could not abstract/build %d inputs, first %r" % (len(bad_harness), bad_harness[0]))
    return cov


if __name__ == "__main__":
    import json, random, time

    class _C:
        rng = random.Random(int(os.environ.get("VERIF_SEED", "1")))
        broken = []
    t0 = time.time()
    quick = "--thorough" not in sys.argv
    rules = [a for a in sys.argv[1:] if a in RULES] or None
    cov = run(_C, quick, rules)
    for a in sys.argv:
        if a.startswith("--dump="):
            json.dump(cov, open(a[7:], "w"), default=str)
    dis, fail = cov.pop("disagreements"), cov.pop("failing_inputs")
    print(json.dumps(cov, indent=1, default=str))
    print("disagreements", len(dis), "failing_inputs", len(fail), "time %.1fs" % (time.time() - t0))
    for d in dis[:10]:
        print(json.dumps(d, default=str)[:1500])
    for d in fail[:12]:
        print("FAIL", json.dumps(d, default=str)[:500])
