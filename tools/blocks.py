"""Adapters for the function-level building blocks (tie libraries written by builder sessions): each runs the library, stores its
coverage under evidence coverage.building_blocks[key], and turns disagreeing requests into reports with the request as replay.
A disagreement (model != real code) is a broken correspondence: the library has already appended it to ctx.broken; the request on
which the real function and the proved-against-the-specification model differ is reported as the failing input of the function-level
statement.  Property failures the library sees on REAL outputs (e.g. an emphasis stream that is not well nested) carry the document."""
import time

P = "pymarkdown/"
SRC = {
    "emphasis": [P + "inline/emphasis_helper.py", P + "tokens/special_text_markdown_token.py", P + "general/constants.py"],
    "linkrecog": [P + "links/link_parse_helper.py", P + "links/link_reference_definition_parse_helper.py", P + "general/parser_helper.py",
                  P + "inline/inline_backslash_helper.py", P + "inline/inline_character_reference_helper.py", P + "inline/inline_helper.py",
                  P + "tokens/link_start_markdown_token.py", P + "links/link_create_helper.py", P + "resources/entities.json"],
    "inlinerecog": [P + "html/html_raw_helper.py", P + "html/html_helper.py", P + "inline/inline_autolink_helper.py",
                    P + "inline/inline_character_reference_helper.py", P + "inline/inline_backslash_helper.py", P + "inline/inline_backtick_helper.py",
                    P + "general/parser_helper.py", P + "resources/entities.json"],
    "gfm": [P + "transform_gfm/*.py", P + "tokens/*.py", P + "general/parser_helper.py"],
    "tokenrules": [P + "plugins/rule_md_0%s.py" % n for n in ("01", "04", "19", "21", "29", "30", "35", "38", "39", "48")]
                  + [P + "tokens/*.py", P + "plugin_manager/plugin_scan_context.py", P + "plugin_manager/plugin_manager.py", P + "file_scan_helper.py",
                     P + "plugin_manager/fix_token_record.py"],
    "scanrules": [P + "plugins/rule_md_0%s.py" % n for n in ("03", "22", "24", "25", "26", "36", "40", "41", "42", "45")]
                 + [P + "tokens/markdown_token.py", P + "tokens/setext_heading_markdown_token.py", P + "plugin_manager/rule_plugin.py",
                    P + "plugin_manager/plugin_scan_context.py", P + "plugin_manager/plugin_manager.py", P + "general/constants.py"],
    "coalesce": [P + "coalesce/coalesce_processor.py", P + "tokens/text_markdown_token.py"],
    "leafpos": [P + "leaf_blocks/*.py", P + "general/position_marker.py", P + "container_blocks/container_block_leaf_processor.py",
                P + "container_blocks/container_block_processor.py", P + "general/tab_helper.py", P + "tokens/markdown_token.py"],
    "bqcount": [P + "block_quotes/block_quote_count_helper.py"],
    "regenleaf": [P + "transform_markdown/transform_to_markdown.py", P + "transform_markdown/markdown_transform_context.py", P + "tokens/*.py",
                  P + "general/parser_helper.py", P + "extensions/front_matter_markdown_token.py", P + "extensions/pragma_token.py"],
    "liststarts": [P + "list_blocks/list_block_starts_helper.py", P + "list_blocks/list_block_pre_list_helper.py", P + "list_blocks/list_block_can_close_helper.py",
                   P + "general/tab_helper.py", P + "general/parser_helper.py", P + "tokens/stack_token.py"],
    "leafblocks2": [P + "html/html_helper.py", P + "leaf_blocks/leaf_block_helper.py", P + "leaf_blocks/fenced_leaf_block_processor.py",
                    P + "leaf_blocks/indented_leaf_block_processor.py", P + "general/tab_helper.py", P + "general/parser_helper.py"],
    "scanrules2": [P + "plugins/rule_md_0%s.py" % n for n in ("11", "13", "14", "18", "20", "28", "32", "33", "34")]
                  + [P + "plugins/utils/*.py", P + "tokens/markdown_token.py", P + "plugin_manager/rule_plugin.py", P + "plugin_manager/plugin_scan_context.py",
                     P + "plugin_manager/plugin_manager.py", P + "general/constants.py"],
    "tokenrules2": [P + "plugins/rule_md_0%s.py" % n for n in ("23", "29", "30", "37", "44", "46")]
                   + [P + "plugins/utils/list_tracker.py", P + "plugins/utils/container_token_manager.py", P + "tokens/*.py", P + "extensions/pragma_token.py",
                      P + "plugin_manager/plugin_scan_context.py", P + "plugin_manager/plugin_manager.py", P + "plugin_manager/rule_plugin.py",
                      P + "file_scan_helper.py", P + "plugin_manager/fix_token_record.py", P + "plugin_manager/replace_tokens_record.py",
                      P + "general/parser_helper.py"],
    "listrules": [P + "plugins/rule_md_006.py", P + "plugins/rule_md_007.py", P + "plugins/utils/container_token_manager.py", P + "tokens/*.py",
                  P + "plugin_manager/plugin_scan_context.py", P + "plugin_manager/plugin_manager.py", P + "plugin_manager/rule_plugin.py", P + "file_scan_helper.py"],
    "inlineloop": [P + "inline/inline_processor.py", P + "inline/inline_text_block_helper.py", P + "inline/inline_line_end_helper.py",
                   P + "inline/inline_handler_helper.py", P + "inline/inline_request.py", P + "inline/inline_response.py", P + "inline/inline_helper.py",
                   P + "inline/inline_backslash_helper.py", P + "inline/inline_backtick_helper.py", P + "inline/inline_character_reference_helper.py",
                   P + "inline/inline_autolink_helper.py", P + "general/parser_helper.py"],
}


def _store(ctx, key, cov, t0):
    cov["wall_s"] = round(time.time() - t0, 1)
    ctx.__dict__.setdefault("blocks", {})[key] = cov


def _small(d, drop=()):
    return {k: v for k, v in d.items() if k not in drop}


def emphasis(ctx):
    import emphlib
    t0 = time.time()
    r = emphlib.run(ctx, ctx.block_quick(SRC["emphasis"]))
    for d in (r.get("disagree") or [])[:3] + (r.get("property_failure_samples") or [])[:3]:
        case = {"doc": d["document"]} if isinstance(d, dict) and d.get("document") is not None else {"emph_request": str(d)[:400]}
        ctx.report(case, "emphasis-" + ",".join(d.get("violated", ["model-mismatch"])) if isinstance(d, dict) else "emphasis-model-mismatch",
                   {"detail": d, "oracle": "real EmphasisHelper.resolve_inline_emphasis == Verif.Model.Emphasis.resolve; real outputs well nested / conserving (Verif.Props.Emphasis)"})
    _store(ctx, "emphasis", _small(r, ("disagree", "property_failure_samples", "bad")) | {"disagreements": r.get("disagreements", 0)}, t0)
    return r


def linkrecog(ctx):
    import linkrecoglib as LR
    t0 = time.time()
    st = LR.run(ctx, quick=ctx.block_quick(SRC["linkrecog"]))
    n = 0
    for fam, s in st.items():
        if isinstance(s, dict) and s.get("bad") and fam != "tables":
            for q, real, model in s["bad"][:2]:
                n += 1
                if n <= 3:
                    ctx.report({"linkrecog_request": list(q)}, "recogniser-mismatch",
                               {"family": fam, "real": real, "model": model, "oracle": "real link recogniser == Verif.Model.LinkRecog on the same arguments"})
    _store(ctx, "linkrecog", {f: (_small(s, ("bad",)) if isinstance(s, dict) else s) for f, s in st.items()}, t0)
    return st


def inlinerecog(ctx):
    import inlinerecoglib as IR
    t0 = time.time()
    r = IR.run(ctx, ctx.block_quick(SRC["inlinerecog"]))
    for b in r["bad"][:3]:
        ctx.report({"inline_request": b["request"]}, "recogniser-mismatch",
                   {"real": b["real"], "model": b["model"], "oracle": "real inline recogniser == Verif.Model.InlineRecog on the same arguments"})
    fam = {f: _small(s, ("bad",)) for f, s in r["families"].items()}
    _store(ctx, "inlinerecog", {"families": fam, "email_regex_tie": r["email_regex_tie"], "requests": r["requests"], "mismatches": r["mismatches"]}, t0)
    return r


def gfm(ctx):
    import gfmlib
    t0 = time.time()
    r = gfmlib.run(ctx, ctx.block_quick(SRC["gfm"]))
    for d in (r["disagree"] + r["synthetic_disagree"] + r["illformed_disagree"])[:3]:
        case = {"doc": d["doc"], "extensions": d.get("exts", [])} if isinstance(d, dict) and "doc" in d else {"gfm_request": str(d)[:400]}
        ctx.report(case, "gfm-model-mismatch", {"detail": d, "oracle": "real TransformToGfm().transform(tokens) == Verif.Model.GfmRender.transform on the same serialised stream (HTML byte for byte, is_loose per list)"})
    for d in r["balance"]["unbalanced"][:2]:
        ctx.report({"doc": d["doc"]}, "html-unbalanced", {"pool": d["pool"], "oracle": "render_balanced: HTML of a well-formed stream is tag-balanced"})
    for d in r["escapes"]["unsafe_output_with_hypothesis"][:2]:
        ctx.report({"doc": d["doc"]}, "html-unescaped", {"pool": d["pool"], "oracle": "render_escapes: escaped payloads give escaped output"})
    for d in r["tightness"]["departures_flat"][:2]:
        ctx.report({"doc": d["doc"]}, "paragraph-tightness", {"detail": d, "oracle": "paragraph_tightness_partial on a real stream satisfying QuoteInListFlat"})
    cov = _small(r, ("disagree", "synthetic_disagree", "illformed_disagree"))
    cov["looseness_vs_spec"] = dict(r["looseness_vs_spec"], departures=len(r["looseness_vs_spec"]["departures"]),
                                    departure_samples=[x["doc"] for x in r["looseness_vs_spec"]["departures"][:4]],
                                    note="departures of the real looseness algorithm from the CommonMark definition on real documents: known family F-C03-LOOSE "
                                         "(root causes F-LOOSE-LISTENDS / -BQSTART / -LRD1 / -LRD2, F-TIGHT-QUOTE-IN-LIST in known_findings.json); the document-level "
                                         "refinement oracle of C03 decides them on its own pools")
    cov["balance"] = dict(r["balance"], unbalanced=len(r["balance"]["unbalanced"]))
    cov["tightness"] = dict(r["tightness"], departures_flat=len(r["tightness"]["departures_flat"]))
    cov["escapes"] = dict(r["escapes"], unsafe_output_with_hypothesis=len(r["escapes"]["unsafe_output_with_hypothesis"]))
    _store(ctx, "gfm", cov, t0)
    return r


def scanrules(ctx):
    """Faithful models of ten scan-only token rules MD003 MD022 MD024 MD025 MD026 MD036 MD040 MD041 MD042 MD045 and their joint pass
    (Verif.Props.ScanRules: scan_iff, reports_in_range, state_reset, scan_reads, faithful_eq_spec) vs the real rule classes."""
    import scanruleslib
    t0 = time.time()
    cov = dict(scanruleslib.run(ctx, ctx.block_quick(SRC["scanrules"])))
    dis, fail = cov.pop("disagreements"), cov.pop("failing_inputs")
    for d in dis[:3]:
        ctx.report({"scanrules_input": d.get("input"), "job": d.get("job")}, "scanrules-disagreement",
                   {"detail": {k: str(v)[:400] for k, v in d.items()},
                    "oracle": "real rule class through a real PluginManager (reports in order: line, column, rule, extra; exception kind; configuration; "
                              "file B after file A) == Verif.Model.ScanRules on the abstraction of the same token stream"})
    for d in fail[:3]:
        ctx.report({"doc": d.get("document"), "job": d.get("job")}, "scanrules-" + str(d.get("property", "C07")).lower(),
                   {"detail": {k: str(v)[:400] for k, v in d.items()},
                    "oracle": "C13: the reports of file B after file A are the reports of B on rule objects that scanned nothing; C07: no exception on a parsed stream"})
    cov["disagreements"], cov["failing_inputs"] = len(dis), len(fail)
    _store(ctx, "scanrules", cov, t0)
    return cov


def tokenrules(ctx):
    """Faithful models of nine token-driven fix-capable rules + the joint pass (Verif.Props.TokenRules) vs the real rule classes."""
    import tokenruleslib
    t0 = time.time()
    cov = dict(tokenruleslib.run(ctx, ctx.block_quick(SRC["tokenrules"])))
    dis, nwf = cov.pop("disagreements"), cov.pop("not_wf")
    gaps, retr = cov.pop("transfer_gaps"), cov.pop("transfer_retrigger")
    for d in (dis + nwf)[:3]:
        ctx.report({"tokenrules_input": d.get("input"), "job": d.get("job")}, "tokenrules-disagreement",
                   {"detail": {k: str(v)[:400] for k, v in d.items()},
                    "oracle": "real rule class (scan reports, fix requests, tokens after the fix, exception kind) == Verif.Model.TokenRules on the abstraction of the same token stream"})
    cov["disagreements"], cov["not_wf"] = len(dis), len(nwf)
    cov["transfer_note"] = ("measured, not part of the agreement: after the real regenerator and a re-parse, does the fixed stream come back and is the re-scan clean; "
                            "documents that re-trigger are decided by the document-level convergence oracle of C09 (findings/C09.inputs.json), root causes "
                            "F-MD038-ONE-SPACE-PER-PASS, F-MD004-TBREAK, F-MD035-TBREAK, F-MD029-INDENTED in known_findings.json")
    cov["transfer_retrigger"], cov["transfer_gaps"] = len(retr), len(gaps)
    cov["transfer_retrigger_samples"] = [{"rule": d.get("rule"), "doc": d.get("input")} for d in retr[:4]]
    _store(ctx, "tokenrules", cov, t0)
    return cov


def inlineloop(ctx):
    """Faithful model of the inline dispatcher (InlineProcessor.__process_inline_text_block and the line-end / text-block helpers it calls), loop
    theorems for EVERY handler table that meets the contract (Verif.Props.InlineLoop: terminates, total, conservation, positions_partial, order) vs
    the real loop with the real handler table; every recorded real loop turn must be a legal model transition."""
    import inlinelooplib
    t0 = time.time()
    cov = dict(inlinelooplib.run(ctx, ctx.block_quick(SRC["inlineloop"])))
    dis, docs_ = cov.pop("disagreements"), cov.pop("failing_inputs")
    for d in dis[:3]:
        case = {"doc": d["document"]} if d.get("document") is not None else {"inlineloop_request": str(d.get("request", d.get("text", d)))[:400]}
        ctx.report(case, "inlineloop-" + str(d.get("kind", "disagree")),
                   {"detail": {k: str(v)[:400] for k, v in d.items()},
                    "oracle": "real InlineProcessor text-block loop (tokens with kind / text fields / line / column, exception kind, every loop turn) == "
                              "Verif.Model.InlineLoop instantiated with the recogniser models; real handler answers satisfy the contract RespOK"})
    cov["disagreements"] = len(dis)
    cov["excluded_point_documents"] = [{"doc": d["document"], "what": d["what"]} for d in docs_]
    cov["excluded_point_note"] = ("documents on which the REAL positions are wrong for the reasons the excluded hypotheses of inline_loop_positions_partial name "
                                  "(positions_excluded_multiline / positions_excluded_setext): root causes of the known family F-C05-INLINECOL; decided at document level by C05's own oracle")
    _store(ctx, "inlineloop", cov, t0)
    return cov


def regenleaf(ctx):
    """Faithful model of the container-free Markdown regenerator (TransformToMarkdown.transform main loop, final-newline correction, every leaf /
    inline rehydrate handler) vs the real transform on serialised real and field-mutated token streams (Verif.Props.RegenLeaf)."""
    import regenleaflib
    t0 = time.time()
    cov = dict(regenleaflib.run(ctx, ctx.block_quick(SRC["regenleaf"])))
    dis, fail = cov.pop("disagreements"), cov.pop("failing_inputs")
    for d in dis[:3]:
        case = {"doc": d["doc"]} if isinstance(d, dict) and d.get("doc") is not None else {"regenleaf_request": str(d)[:400]}
        ctx.report(case, "regenleaf-disagreement",
                   {"detail": {k: str(v)[:400] for k, v in d.items()} if isinstance(d, dict) else str(d)[:800],
                    "oracle": "real TransformToMarkdown().transform(tokens) (whole text, per-token contributions, exception kind and call site) == "
                              "Verif.Model.RegenLeaf on the same serialised stream; WF streams do not raise"})
    cov["disagreements"] = len(dis)
    cov["real_roundtrip_failures_container_free"] = len(fail)
    cov["real_roundtrip_failure_samples"] = [str(f)[:200] for f in fail[:6]]
    cov["real_roundtrip_note"] = ("container-free documents whose regenerated text differs from the source: pinned-tree families F-THORN, F-SETEXT-TRAILWS, F-FENCE-TRAILWS, "
                                  "F-RT-EMAIL-NEWLINE, F-RT-EMPTY-TITLE, F-RT-INPUTS (each reproduced by the model: stream-level witnesses in Verif.Props.RegenLeaf); decided at "
                                  "document level by C02's own round-trip oracle and its listed inputs")
    _store(ctx, "regenleaf", cov, t0)
    return cov


def liststarts(ctx):
    """Faithful model of list-item start recognition for an ARBITRARY stack (list_block_starts_helper, list_block_pre_list_helper,
    list_block_can_close_helper incl. the close_open_blocks pop) vs the real functions on real stack / token objects (Verif.Props.ListStarts)."""
    import liststartslib
    t0 = time.time()
    cov = dict(liststartslib.run(ctx, ctx.block_quick(SRC["liststarts"])))
    dis, fail = cov.pop("disagreements"), cov.pop("failing_inputs")
    for d in (dis[:3] + fail[:2]):
        case = {"doc": d["doc"]} if isinstance(d, dict) and d.get("doc") is not None else {"liststarts_request": {k: d.get(k) for k in ("line", "index", "stack", "fn") if isinstance(d, dict) and k in d}}
        ctx.report(case, "liststarts-disagreement" if d in dis else "liststarts-spec",
                   {"detail": {k: str(v)[:400] for k, v in d.items()} if isinstance(d, dict) else str(d)[:800],
                    "oracle": "real is_ulist_start / is_olist_start / pre_list / can_close on real stack tokens == Verif.Model.ListStarts; start verdict == the CommonMark "
                              "marker sentence outside the classes the *_partial theorems exclude"})
    cov["disagreements"], cov["spec_departures_outside_excluded_classes"] = len(dis), len(fail)
    _store(ctx, "liststarts", cov, t0)
    return cov


def leafblocks2(ctx):
    """Faithful models of the HTML-block start / end conditions (html_helper.is_html_block, special / normal checks, end checks), fenced-code content
    lines and indented-code content lines vs the real functions and whole 2-3 line documents (Verif.Props.LeafBlocks2)."""
    import leafblocks2lib
    t0 = time.time()
    cov = dict(leafblocks2lib.run(ctx, ctx.block_quick(SRC["leafblocks2"])))
    dis, wit = cov.pop("disagreements"), cov.pop("failing_inputs")
    for d in dis[:3]:
        case = {"doc": d["doc"]} if isinstance(d, dict) and d.get("doc") is not None else {"leafblocks2_request": str(d.get("request", d) if isinstance(d, dict) else d)[:400]}
        ctx.report(case, "leafblocks2-disagreement",
                   {"detail": {k: str(v)[:400] for k, v in d.items()} if isinstance(d, dict) else str(d)[:800],
                    "oracle": "real html_helper / fenced / indented functions and real block-pass tokens of short documents == Verif.Model.LeafBlocks2; type-6 tag table of the source == model's"})
    cov["disagreements"] = len(dis)
    cov["excluded_point_documents"] = [{"doc": w.get("document"), "property": w.get("property"), "symptom": str(w.get("symptom"))[:160]} for w in wit]
    cov["excluded_point_note"] = ("documents at the points the *_partial / *_excluded statements name, run through the REAL parser: pinned-tree defects recorded as "
                                  "documented-only entries F-LB2-* in known_findings.json (tab after a fence opener inside an indented fence, case-sensitive end tags, lenient type-7 tags)")
    _store(ctx, "leafblocks2", cov, t0)
    return cov


def scanrules2(ctx):
    """Faithful models of nine more scan-only rules incl. the two remaining line rules — MD011 MD013 MD014 MD018 MD020 MD028 MD032 MD033 MD034 — and
    their joint pass (Verif.Props.ScanRules2) vs the real rule classes through a real PluginManager."""
    import scanrules2lib
    t0 = time.time()
    cov = dict(scanrules2lib.run(ctx, ctx.block_quick(SRC["scanrules2"])))
    dis, fail = cov.pop("disagreements"), cov.pop("failing_inputs")
    for d in dis[:3]:
        ctx.report({"scanrules2_input": d.get("input"), "job": d.get("job")}, "scanrules2-disagreement",
                   {"detail": {k: str(v)[:400] for k, v in d.items()},
                    "oracle": "real rule class through a real PluginManager (reports in order: line, column, rule, extra; exception kind; configuration; file B after "
                              "file A) == Verif.Model.ScanRules2 on the abstraction of the same token stream and lines"})
    crashes = [d for d in fail if str(d.get("property")) == "C07"]
    fail = [d for d in fail if str(d.get("property")) != "C07"]
    for d in fail[:3]:
        ctx.report({"doc": d.get("document"), "job": d.get("job")}, "scanrules2-" + str(d.get("property", "C13")).lower(),
                   {"detail": {k: str(v)[:400] for k, v in d.items()},
                    "oracle": "C13: the reports of file B after file A are the reports of B on rule objects that scanned nothing"})
    cov["disagreements"], cov["failing_inputs"] = len(dis), len(fail)
    cov["real_rule_crashes_on_parsed_documents"] = len(crashes)
    cov["real_rule_crash_samples"] = [{"doc": d.get("document"), "job": d.get("job"), "real": d.get("real")} for d in crashes[:4]]
    cov["real_rule_crash_note"] = ("the model reproduces each of them as an explicit Err (agreement); whether a crash is a known finding is decided by C07's own oracle "
                                   "(call-site signature AND listed input), e.g. F-CRASH-MD018-next_token_paragraph_text_inline")
    _store(ctx, "scanrules2", cov, t0)
    return cov


def tokenrules2(ctx):
    """Faithful models of five more token fixers over the extended token (MD023 MD030-fix MD037 MD044 MD046, replacement records, the
    joint passes md029+md030 / md023+md030; Verif.Props.TokenRules2) vs the real rule classes."""
    import tokenrules2lib
    t0 = time.time()
    cov = dict(tokenrules2lib.run(ctx, ctx.block_quick(SRC["tokenrules2"])))
    dis, nwf, fail = cov.pop("disagreements"), cov.pop("not_wf"), cov.pop("failing_inputs")
    for d in (dis + nwf)[:3]:
        ctx.report({"tokenrules2_input": d.get("input"), "job": d.get("job")}, "tokenrules2-disagreement",
                   {"detail": {k: str(v)[:400] for k, v in d.items()},
                    "oracle": "real rule class (scan reports, fix requests, replacement records, tokens after the fix, exception kind) == "
                              "Verif.Model.TokenRules (Basic2) on the abstraction of the same token stream"})
    cov["disagreements"], cov["not_wf"] = len(dis), len(nwf)
    cov["failing_inputs"] = len(fail)
    seen, samples = set(), []
    for d in fail:
        k = (d.get("rule"), str(d.get("real", d.get("verdict", "")))[:60])
        if k not in seen and len(samples) < 12:
            seen.add(k)
            samples.append({"rule": d.get("rule"), "doc": d.get("document"), "what": str(d.get("real", d.get("verdict", "")))[:120]})
    cov["failing_input_samples"] = samples
    cov["failing_note"] = ("real-code failures on parsed documents (the real rule raises, or its fix does not transfer to the document): root causes recorded as "
                           "documented-only entries F-TR2-* in known_findings.json; decided at document level by the C07 / C08 / C09 oracles")
    _store(ctx, "tokenrules2", cov, t0)
    return cov


def listrules(ctx):
    """Faithful models of ContainerTokenManager, MD007 and MD006 (scan + fix) vs the real rule classes (Verif.Props.ListRules)."""
    import listruleslib
    t0 = time.time()
    cov = dict(listruleslib.run(ctx, ctx.block_quick(SRC["listrules"])))
    dis, fail = cov.pop("disagreements"), cov.pop("failing_inputs")
    for d in dis[:3]:
        ctx.report({"listrules_input": d.get("input"), "job": d.get("job")}, "listrules-disagreement",
                   {"detail": {k: str(v)[:400] for k, v in d.items()},
                    "oracle": "real MD006 / MD007 / ContainerTokenManager through a real PluginManager (reports, fix requests, tokens after the fix, exception kind, "
                              "second file on the same objects) == Verif.Model.ListRules; the guard of md007_total_partial implies the real scan does not raise"})
    cov["disagreements"] = len(dis)
    cov["real_rule_crashes_on_parsed_documents"] = len(fail)
    cov["real_rule_crash_samples"] = [{"doc": d.get("document"), "rule": d.get("rule"), "exception": d.get("exception")} for d in fail[:4]]
    cov["real_rule_crash_note"] = ("each reproduced by the model as an explicit Err outside the guard of md007_total_partial (md007_total_excluded_known_crash); "
                                   "known finding F-CRASH-MD007-calculate_base_column_block_quote, decided by C07's own oracle (call site AND listed input)")
    _store(ctx, "listrules", cov, t0)
    return cov
