"""Correspondence of the leaf-position model (lean/Verif/Model/LeafPos.lean, driver `leafpos`) with the REAL block pass.

For every document of the closed space below the real parser runs in-process with two observers (no source change):
  * the first function of the leaf dispatch, `FencedLeafBlockProcessor.handle_fenced_code_block`, is wrapped to record the
    `PositionMarker` every leaf processor receives for the line (`line_number`, `index_number`, `index_indent`, `text_to_parse`)
    and `parser_state.original_line_to_parse` (the tab-expanded physical line);
  * `TokenizedMarkdown.__parse_blocks_pass` is wrapped to read the tokens BEFORE the coalesce / inline passes.
For each leaf start token of the kinds the model covers (atx, tbreak, fcode-block, setext, icode-block, para) the request
`kind|line|index_indent|physical line[|…]` goes to the model; compared: the tab-expanded line `D`, `text_to_parse`, and the
token's `(line, column)` (setext: also `original_line/column_number`).  A real token for which the model answers `none` is a
disagreement.
Direct oracle, independent of the model: the character at `column-1` of the tab-expanded physical line (expanded here with
`str.expandtabs(4)`) is the element's own opening character.

Space: all strings of length <= 6 over each recogniser alphabet of tools/recoglib.py (tabs included) as a top-level line, and all of
length <= 5 behind one container prefix (`> `, `- `, `1. `) or three spaces; a setext candidate is the second line after `a`, with the
continuation prefix of the container.  A document the parser fails on (C01's findings: tabs after container markers …) is counted
as `not_tokenized` and skipped."""
import itertools, multiprocessing as mp, signal
import vlib, implib
import recoglib as RG

H = vlib.hexs
KIND = {"atx": "atx", "tbreak": "tb", "fcode-block": "fopen", "setext": "setext", "icode-block": "icode", "para": "para"}
OPENERS = {"atx": "#", "tbreak": "*-_", "fcode-block": "`~", "setext": "=-"}

PREFIXES = [("", ""), ("> ", "> "), ("- ", "  "), ("1. ", "   "), ("   ", "   ")]
ALPHA = {
    "atx": RG.FAMILIES["atx"][0],
    "thematic": RG.FAMILIES["thematic"][0],
    "fence": RG.FAMILIES["fence"][0],
    "setext": RG.FAMILIES["setext"][0],
    "indent": " \ta>-",
}
EXTRA = ["####### h", "###### h", "    # a", "   # a", "\t# a", " \t# a", "  \t#", "- - - -", "*\t*\t*", "``` a`b", "~~~ a`b", "````", "===   ", "  ==",
         "      a", "\t\ta", "  \ta", "a\tb", ">\t# a", ">  \t---", "-\t```", "1.\ta"]

_INST = {}
_MARK = []
_SNAP = []


class _Timeout(BaseException):
    pass


def _alarm(*_):
    raise _Timeout()


def install():
    if _INST:
        return _INST["tk"]
    from pymarkdown.leaf_blocks.fenced_leaf_block_processor import FencedLeafBlockProcessor as F
    orig = F.__dict__["handle_fenced_code_block"].__func__

    def spy(parser_state, position_marker, *a, **k):
        _MARK.append((position_marker.line_number, position_marker.index_number, position_marker.index_indent,
                      position_marker.text_to_parse, parser_state.original_line_to_parse,
                      bool(parser_state.token_stack[-1].is_paragraph)))
        return orig(parser_state, position_marker, *a, **k)
    F.handle_fenced_code_block = staticmethod(spy)
    tk = implib.parser()
    o2 = tk._TokenizedMarkdown__parse_blocks_pass

    def wrapped(*a, **k):
        r = o2(*a, **k)
        out = []
        for t in r:
            if t.is_end_token:
                continue
            e = [t.token_name, t.line_number, t.column_number]
            if t.is_setext_heading:
                e += [t.original_line_number, t.original_column_number]
            out.append(tuple(e))
        _SNAP[:] = out
        return r
    tk._TokenizedMarkdown__parse_blocks_pass = wrapped
    _INST["tk"] = tk
    return tk


def observe(doc):
    """-> None (parser failed) or [(request, real position string, oracle_ok, marker_ok)] for the leaf tokens of the document"""
    tk = install()
    del _MARK[:]
    del _SNAP[:]
    signal.setitimer(signal.ITIMER_PROF, 3.0)
    try:
        try:
            tk.transform(doc, show_debug=False)
        except _Timeout:
            return None
        except Exception:
            return None
    finally:
        signal.setitimer(signal.ITIMER_PROF, 0)
    lines = doc.split("\n")
    marks = {}
    for m in _MARK:
        marks.setdefault(m[0], m)          # the first leaf dispatch of a line (a requeued line is dispatched again)
    paras = {}
    out = []
    for e in _SNAP:
        name, ln, col = e[0], e[1], e[2]
        if name == "para":
            paras[ln] = (ln, col)
        if name not in KIND:
            continue
        m = marks.get(ln)
        if m is None or not (1 <= ln <= len(lines)):
            out.append(("nomark|%s|%d" % (name, ln), "", True, False))
            continue
        _, idx, indent, text, origd, in_para = m
        phys = lines[ln - 1]
        req = "%s|%d|%d|%s" % (KIND[name], ln, indent, H(phys))
        real = "=%s|=%s|%d|%d" % (H(origd), H(text), ln, col)
        if name == "setext":
            req += "|%d|%d" % (e[3], e[4])
            real += "|%d|%d" % (e[3], e[4])
        if name == "icode-block":
            req += "|0|0"
        vis = phys.expandtabs(4)
        if name in OPENERS:
            ok = 1 <= col <= len(vis) and vis[col - 1] in OPENERS[name]
        elif name == "para":
            ok = 1 <= col <= len(vis) and vis[col - 1] not in " \t"
        else:                                   # icode: four columns of indentation end right before the column
            ok = 5 <= col <= len(vis) and vis[col - 5:col - 1] == "    "
        out.append((req, real, ok, origd[indent:] == text and origd == vis))
    return out


def _init():
    signal.signal(signal.SIGPROF, _alarm)
    install()


def _work(chunk):
    return [(d, observe(d)) for d in chunk]


def strings(alpha, n):
    alpha = alpha.replace("\n", "")
    for k in range(n + 1):
        for t in itertools.product(alpha, repeat=k):
            yield "".join(t)


def docs_of(fam, s, pre, cont):
    if fam == "setext":
        return pre + "a\n" + cont + s
    return pre + s


def space(fam, top_len=6, inner_len=5):
    a = ALPHA[fam]
    for pre, cont in PREFIXES:
        n = top_len if pre == "" else inner_len
        for s in itertools.chain(strings(a, n), EXTRA if pre == "" or True else ()):
            yield docs_of(fam, s, pre, cont)


def pool_map(fn, items, chunk=500, procs=16, init=None):
    items = list(items)
    if not items:
        return []
    chunks = [items[i:i + chunk] for i in range(0, len(items), chunk)]
    with mp.Pool(min(procs, max(1, len(chunks))), initializer=init) as p:
        out = []
        for part in p.imap(fn, chunks):
            out += part
    return out


def run(ctx, quick):
    from collections import Counter
    counts = Counter()
    diffs = []
    failing = []          # inputs on which the PROPERTY (column points at the opener) fails on the real code: for the caller to triage
    cov = {}
    drv = vlib.Driver("leafpos")
    for fam in ALPHA:
        docs_all = sorted(set(space(fam)))
        total = len(docs_all)
        if quick:
            short = [d for d in docs_all if len(d) <= 5]
            rest = [d for d in docs_all if len(d) > 5]
            docs_run = short + (rest if len(rest) <= 5000 else ctx.rng.sample(rest, 5000))
        else:
            docs_run = docs_all
        res = pool_map(_work, docs_run, init=_init)
        reqs = []
        for d, obs in res:
            counts["documents"] += 1
            if obs is None:
                counts["not_tokenized"] += 1
                continue
            for req, real, ok, mk in obs:
                if req.startswith("nomark|"):
                    counts["token_without_marker"] += 1
                    if len(diffs) < 20:
                        diffs.append({"doc": d, "nomark": req})
                    continue
                reqs.append((d, req, real, ok, mk))
        ans = drv.run([r[1] for r in reqs])
        kinds = Counter()
        for (d, req, real, ok, mk), a in zip(reqs, ans):
            counts["tokens"] += 1
            kinds[req.split("|")[0]] += 1
            if int(req.split("|")[2]):
                counts["tokens_with_indent"] += 1
            if "9" in req.split("|")[3].split():
                counts["tokens_on_tabbed_lines"] += 1
            if a != real:
                counts["disagree"] += 1
                if len(diffs) < 20:
                    diffs.append({"doc": d, "request": req, "real": real, "model": a})
            if not ok:
                counts["oracle_fail"] += 1
                failing.append({"doc": d, "request": req, "real": real})
            if not mk:
                counts["suffix_hypothesis_fails"] += 1
        cov[fam] = {"space": total, "run": len(docs_run), "tokens": dict(kinds)}
    cov["counts"] = dict(counts)
    if counts["disagree"] or counts["token_without_marker"]:
        ctx.broken.append("correspondence leafpos: %d disagreements (first: %r)" % (counts["disagree"] + counts["token_without_marker"], diffs[0] if diffs else None))
    cov["failing_inputs"] = failing
    cov["disagreements"] = diffs
    return cov


if __name__ == "__main__":
    import random, sys, time, json

    class _C:
        rng = random.Random(1)
        broken = []
    t0 = time.time()
    r = run(_C, quick=(len(sys.argv) < 2 or sys.argv[1] != "thorough"))
    print(json.dumps({k: v for k, v in r.items() if k not in ("disagreements", "failing_inputs")}, indent=1))
    for d in r["disagreements"][:12]:
        print(d)
    print("failing inputs:", len(r["failing_inputs"]), sorted(set(x["doc"] for x in r["failing_inputs"]))[:40])
    print("broken:", _C.broken, "time %.1fs" % (time.time() - t0))
