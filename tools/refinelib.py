"""Refinement map and oracles shared by C03 (structure / HTML) and C05 (positions).

  abs_impl(tokens)  : pymarkdown tokens  -> abstract events          (DESIGN §6 C03 `abs`)
  abs_ref(events)   : LeanMark events    -> the same vocabulary
  norm_html(h)      : white space between block tags is insignificant
  pos_ok(src, toks) : the direct C05 oracle on the implementation (independent of LeanMark)
  run_impl(docs)    : real parser + real HTML renderer in forked workers, each call under a CPU alarm

Abstract events (tuples, JSON-able):
  ("O", kind, line, col, extra)          kind = quote | ul | ol | li      extra = bullet | [delim, start] | None
  ("C", kind)
  ("L", kind, line, col, extra, inlines) kind = para | heading | hr | fence | icode | html
                                         extra = [level, setext] | first word of the raw info string | None
  inline events (inside "inlines"):
  ("I", kind, line, col)                 kind = emph | strong | link | image | code | rawhtml | autolink | hard
  ("i", kind)                            kind = emph | strong | link
Dropped on both sides: blank lines, link reference definitions, end of stream, pragma, and text / soft-break runs (their
segmentation is not structure; their content is compared through the HTML).  An image is one leaf inline event on both
sides (pymarkdown flattens the description into the token; the reference's events between image open and close are dropped).
"""
import hashlib, multiprocessing as mp, os, re, resource, signal, sys
import vlib, implib

CPU_LIMIT = 5.0   # seconds of CPU per parser / renderer call


# ------------------------------------------------------------------ html normalisation
BLOCK = r"(?:/?(?:p|h[1-6]|ul|ol|li|blockquote|pre|hr|table|thead|tbody|tr|th|td|div)\b[^>]*>)"
_N1 = re.compile(r">\s+<(" + BLOCK + ")")
_N2 = re.compile(r"(<" + BLOCK + r")\s+<")
_N3 = re.compile(r"(<" + BLOCK + r")\n")
_N4 = re.compile(r"\n(<" + BLOCK + r")")


def norm_html(h):
    """white space between block tags is insignificant (same normalisation as tools/props/leanmark_validate.py)."""
    h = h.strip("\n")
    h = _N1.sub(r"><\1", h)
    h = _N2.sub(r"\1<", h)
    h = _N3.sub(r"\1", h)
    h = _N4.sub(r"\1", h)
    return h


_TAG = re.compile(r"<(/?[a-zA-Z][a-zA-Z0-9]*)")


def html_signature(a, b):
    """`html-differs:<first differing tag pair>` — the tag sequences of the two normalised HTML texts are compared;
    if they agree the difference is in the text / attributes."""
    ta, tb = _TAG.findall(a), _TAG.findall(b)
    for x, y in zip(ta, tb):
        if x != y:
            return f"html-differs:{x}|{y}"
    if len(ta) != len(tb):
        x = ta[len(tb)] if len(ta) > len(tb) else "-"
        y = tb[len(ta)] if len(tb) > len(ta) else "-"
        return f"html-differs:{x}|{y}"
    return "html-differs:text"


# ------------------------------------------------------------------ abs on the implementation
class _Timeout(BaseException):
    pass


def _alarm(*_):
    raise _Timeout()


_INFO_WORD = re.compile(r"[^ \t\n\x0b\x0c\r]*")


def abs_impl(tokens):
    out, stack = [], []          # stack: open container kinds ("quote" | "ul" | "ol"), list ⇒ an item is open inside it
    cur = None                   # the leaf being filled with inline events
    for ti, t in enumerate(tokens):
        n = t.token_name
        if n in ("BLANK", "link-ref-def", "end-of-stream", "pragma", "text", "front-matter"):
            continue
        if n == "block-quote":
            out.append(("O", "quote", t.line_number, t.column_number, None)); stack.append("quote")
        elif n == "ulist":
            out.append(("O", "ul", t.line_number, t.column_number, t.list_start_sequence))
            out.append(("O", "li", t.line_number, t.column_number, None)); stack.append("ul")
        elif n == "olist":
            out.append(("O", "ol", t.line_number, t.column_number, [t.list_start_sequence, int(t.list_start_content)]))
            out.append(("O", "li", t.line_number, t.column_number, None)); stack.append("ol")
        elif n == "li":
            out.append(("C", "li"))
            out.append(("O", "li", t.line_number, t.column_number, None))
        elif n == "end-block-quote":
            out.append(("C", "quote"))
            if stack: stack.pop()
        elif n in ("end-ulist", "end-olist"):
            out.append(("C", "li")); out.append(("C", n[4:6]))
            if stack: stack.pop()
        elif n == "para":
            cur = []; out.append(("L", "para", t.line_number, t.column_number, None, cur))
        elif n == "atx":
            cur = []; out.append(("L", "heading", t.line_number, t.column_number, [t.hash_count, False], cur))
        elif n == "setext":
            cur = []
            out.append(("L", "heading", t.original_line_number, t.original_column_number,
                        [1 if t.heading_character == "=" else 2, True], cur))
        elif n == "tbreak":
            out.append(("L", "hr", t.line_number, t.column_number, None, []))
        elif n == "fcode-block":
            raw = t.pre_extracted_text or t.extracted_text
            out.append(("L", "fence", t.line_number, t.column_number, raw, []))
            cur = None
        elif n == "icode-block":
            out.append(("L", "icode", t.line_number, t.column_number, None, [])); cur = None
        elif n == "html-block":
            out.append(("L", "html", t.line_number, t.column_number, None, [])); cur = None
        elif n in ("end-para", "end-atx", "end-setext", "end-fcode-block", "end-icode-block", "end-html-block"):
            cur = None
        else:
            if cur is None:
                cur = []
                out.append(("L", "?stray-inline", 0, 0, None, cur))
            if n == "emphasis":
                cur.append(("I", "emph" if t.emphasis_length == 1 else "strong", t.line_number, t.column_number, ti))
            elif n == "end-emphasis":
                cur.append(("i", "emph" if t.start_markdown_token.emphasis_length == 1 else "strong"))
            elif n == "link":
                cur.append(("I", "link", t.line_number, t.column_number, ti))
            elif n == "end-link":
                cur.append(("i", "link"))
            elif n == "image":
                cur.append(("I", "image", t.line_number, t.column_number, ti))
            elif n == "icode-span":
                cur.append(("I", "code", t.line_number, t.column_number, ti))
            elif n == "raw-html":
                cur.append(("I", "rawhtml", t.line_number, t.column_number, ti))
            elif n in ("uri-autolink", "email-autolink"):
                cur.append(("I", "autolink", t.line_number, t.column_number, ti))
            elif n == "hard-break":
                cur.append(("I", "hard", t.line_number, t.column_number, ti))
            else:
                cur.append(("I", "?" + n, t.line_number, t.column_number, ti))
    return out


# ------------------------------------------------------------------ abs on the reference
def _abs_inlines(inl):
    out, depth = [], 0
    for e in inl:
        k = e["kind"]
        if depth:                      # inside an image description
            if e["t"] == "iopen" and k == "image":
                depth += 1
            elif e["t"] == "iclose" and k == "image":
                depth -= 1
            continue
        if k in ("text", "soft"):
            continue
        if e["t"] == "iopen":
            out.append(("I", k, e["line"], e["col"]))
            if k == "image":
                depth = 1
        elif e["t"] == "iclose":
            out.append(("i", k))
        else:
            out.append(("I", k, e["line"], e["col"]))
    return out


def abs_ref(events):
    out = []
    for e in events:
        if e["t"] == "open":
            k = e["kind"]
            extra = e["bullet"] if k == "ul" else [e["delim"], e["start"]] if k == "ol" else None
            out.append(("O", k, e["line"], e["col"], extra))
        elif e["t"] == "close":
            out.append(("C", e["kind"]))
        else:
            k = e["kind"]
            if k == "lrd":
                continue
            extra = None
            if k == "heading":
                extra = [e["level"], e["setext"]]
            elif k == "fence":
                extra = _INFO_WORD.match(e["info"]).group(0)
            out.append(("L", k, e["line"], e["col"], extra, _abs_inlines(e.get("inlines", []))))
    return out


def strip_pos(evs):
    """structure only: kinds and structural fields, no positions."""
    out = []
    for e in evs:
        if e[0] == "O":
            out.append(("O", e[1], e[4] if not isinstance(e[4], list) else tuple(e[4])))
        elif e[0] == "C":
            out.append(("C", e[1]))
        else:
            out.append(("L", e[1], tuple(e[4]) if isinstance(e[4], list) else e[4],
                        tuple((i[0], i[1]) for i in e[5])))
    return out


def events_signature(a, b):
    """`events-differ:<kind>` — kinds of the first differing abstract events (implementation|reference)."""
    sa, sb = strip_pos(a), strip_pos(b)
    for x, y in zip(sa, sb):
        if x != y:
            if x[:2] == y[:2] and x[0] == "L" and x[2] == y[2]:
                for p, q in zip(x[3], y[3]):
                    if p != q:
                        return f"events-differ:{x[1]}/{p[0]}{p[1]}|{q[0]}{q[1]}"
                p = x[3][len(y[3])] if len(x[3]) > len(y[3]) else ("-", "")
                q = y[3][len(x[3])] if len(y[3]) > len(x[3]) else ("-", "")
                return f"events-differ:{x[1]}/{p[0]}{p[1]}|{q[0]}{q[1]}"
            if x[:2] == y[:2]:
                return f"events-differ:{x[0]}{x[1]}-field"
            return f"events-differ:{x[0]}{x[1]}|{y[0]}{y[1]}"
    x = sa[len(sb)] if len(sa) > len(sb) else ("-", "")
    y = sb[len(sa)] if len(sb) > len(sa) else ("-", "")
    return f"events-differ:{x[0]}{x[1]}|{y[0]}{y[1]}"


def positions(evs):
    """flat list of (path, kind, line, col, token index or None) of every positioned abstract event."""
    out = []
    for i, e in enumerate(evs):
        if e[0] == "O":
            out.append((str(i), e[1], e[2], e[3], None))
        elif e[0] == "L":
            out.append((str(i), e[1], e[2], e[3], None))
            for j, x in enumerate(e[5]):
                if x[0] == "I":
                    out.append((f"{i}.{j}", x[1], x[2], x[3], x[4] if len(x) > 4 else None))
    return out


# ------------------------------------------------------------------ direct position oracle (C05)
def detab(line):
    out, col = [], 0
    for c in line:
        if c == "\t":
            w = 4 - col % 4
            out.append(" " * w); col += w
        else:
            out.append(c); col += 1
    return "".join(out)


def src_lines(src):
    ls = src.split("\n")
    if ls and ls[-1] == "":
        ls.pop()
    return ls


BLOCK_NAMES = {"block-quote", "ulist", "olist", "li", "para", "atx", "setext", "tbreak", "fcode-block", "icode-block",
               "html-block", "link-ref-def", "BLANK"}
OPENER = {
    "atx": "#", "block-quote": ">", "fcode-block": "`~", "tbreak": "*-_", "setext": "=-", "ulist": "-+*", "olist": "0123456789",
    "emphasis": "*_", "link": "[", "image": "!", "icode-span": "`", "uri-autolink": "<", "email-autolink": "<", "raw-html": "<",
    "link-ref-def": "[", "hard-break": " \\",
}


INLINE_NAMES = {"emphasis", "link", "image", "icode-span", "raw-html", "uri-autolink", "email-autolink", "hard-break"}


def token_records(tokens):
    """position-carrying tokens as plain records (index, name, line, col, extra, ctx).
    extra: list kind for li, [original line, original column] for setext.
    ctx (inline tokens only): [first line of the enclosing leaf block, kind of the innermost open container ("l" | "q" | None),
    indent_level of the innermost open list (its latest item) or 0]."""
    recs, lists, conts, leaf_line = [], [], [], 0
    for i, t in enumerate(tokens):
        n = t.token_name
        if n in ("ulist", "olist"):
            lists.append(n)
            conts.append(["l", t.indent_level])
        elif n == "li":
            for c in reversed(conts):
                if c[0] == "l":
                    c[1] = t.indent_level
                    break
        elif n == "block-quote":
            conts.append(["q", 0])
        elif n in ("end-ulist", "end-olist"):
            if lists: lists.pop()
            if conts: conts.pop()
        elif n == "end-block-quote":
            if conts: conts.pop()
        elif n in ("para", "atx"):
            leaf_line = t.line_number
        elif n == "setext":
            leaf_line = t.original_line_number
        if n.startswith("end-") or n in ("end-of-stream", "pragma", "front-matter"):
            continue
        extra, ctx = None, None
        if n == "li":
            extra = lists[-1] if lists else None
        elif n == "setext":
            extra = [t.original_line_number, t.original_column_number]
        elif n == "text":
            continue
        elif n in INLINE_NAMES:
            inner = conts[-1] if conts else [None, 0]
            ind = next((c[1] for c in reversed(conts) if c[0] == "l"), 0)
            ctx = [leaf_line, inner[0], ind]
        recs.append((i, n, t.line_number, t.column_number, extra, ctx))
    return recs


def pos_ok(src, recs):
    """The C05 statement evaluated on the implementation's own tokens.  Returns a list of (index, name, line, col, why)."""
    ls = [detab(l) for l in src_lines(src)]
    bad, last_block = [], 0

    def at(line, col):
        l = ls[line - 1]
        return l[col - 1] if col - 1 < len(l) else ""

    for (i, n, line, col, extra, _ctx) in recs:
        def fail(why):
            bad.append((i, n, line, col, why))
        if n == "BLANK":
            # a blank line's token: the line exists (or is the virtual line after a final newline-less end) and column in range
            if not (1 <= line <= len(ls) + 1):
                fail("line-missing")
            elif line <= len(ls) and not (1 <= col <= len(ls[line - 1]) + 1):
                fail("col-range")
            elif line < last_block:
                fail("block-order")
            else:
                last_block = line
            continue
        if not (1 <= line <= len(ls)):
            fail("line-missing"); continue
        if not (1 <= col <= len(ls[line - 1]) + 1):
            fail("col-range"); continue
        if n in BLOCK_NAMES:
            # block tokens appear in non-decreasing line order (a setext token is emitted at its underline; its text start
            # is `original_*`, checked below)
            key = extra[0] if n == "setext" else line
            if key < last_block:
                fail("block-order")
            last_block = max(last_block, key)
        ch = at(line, col)
        if n in OPENER:
            if n == "hard-break":
                ok = ch in (" ", "\\") and ch != ""
            else:
                ok = ch != "" and ch in OPENER[n]
            if not ok:
                fail("opener")
        elif n == "li":
            ok = ch != "" and ch in (OPENER["ulist"] if extra == "ulist" else OPENER["olist"] if extra == "olist" else "-+*0123456789")
            if not ok:
                fail("opener")
        elif n == "para":
            # first non-space character of the text
            if ch == "" or ch == " ":
                fail("opener")
        elif n == "icode-block":
            # the column just after the block's 4 columns of indentation: those 4 columns are white space, some text follows
            if col < 5 or ls[line - 1][col - 5:col - 1] != "    " or ch == "":
                fail("opener")
        elif n == "html-block":
            # `<` after optional ≤ 3 columns of indentation (the token's column is that of the indentation's start)
            l = ls[line - 1][col - 1:]
            k = len(l) - len(l.lstrip(" "))
            if not (k <= 3 and l[k:k + 1] == "<"):
                fail("opener")
        if n == "setext":
            ol, oc = extra
            if not (1 <= ol <= len(ls)) or not (1 <= oc <= len(ls[ol - 1]) + 1):
                fail("setext-original-range")
            else:
                c2 = at(ol, oc)
                if c2 == "" or c2 == " ":
                    fail("setext-original-opener")
                if ol >= line:
                    fail("setext-original-order")
    return bad


# ------------------------------------------------------------------ running the implementation
def parse_tokens(text, exts=()):
    """(tokens, error name).  Tokenisation under a CPU alarm."""
    from pymarkdown.general.source_providers import InMemorySourceProvider
    tk = implib.parser(exts)
    old = signal.signal(signal.SIGVTALRM, _alarm)
    signal.setitimer(signal.ITIMER_VIRTUAL, CPU_LIMIT)
    try:
        return tk.transform_from_provider(InMemorySourceProvider(text), do_add_end_of_stream_token=True), None
    except _Timeout:
        return None, "timeout"
    except Exception as e:   # BadTokenizationError and friends: C01's subject
        return None, type(e).__name__
    finally:
        signal.setitimer(signal.ITIMER_VIRTUAL, 0)
        signal.signal(signal.SIGVTALRM, old)


def render_html(tokens):
    from pymarkdown.transform_gfm.transform_to_gfm import TransformToGfm
    old = signal.signal(signal.SIGVTALRM, _alarm)
    signal.setitimer(signal.ITIMER_VIRTUAL, CPU_LIMIT)
    try:
        return TransformToGfm().transform(tokens), None
    except _Timeout:
        return None, "timeout"
    except Exception as e:
        return None, type(e).__name__
    finally:
        signal.setitimer(signal.ITIMER_VIRTUAL, 0)
        signal.signal(signal.SIGVTALRM, old)


def impl_one(text, want_html=True, want_recs=True):
    """{'err': stage:name} or {'abs': [...], 'html': str, 'recs': [...]}"""
    toks, err = parse_tokens(text)
    if toks is None:
        return {"err": "tokenize:" + err}
    res = {}
    try:
        res["abs"] = abs_impl(toks)
    except Exception as e:
        return {"err": "abs:" + type(e).__name__}
    if want_recs:
        res["recs"] = token_records(toks)
    if want_html:
        h, err = render_html(toks)
        if h is None:
            return {"err": "render:" + err}
        res["html"] = h
    return res


def _work(chunk):
    return [impl_one(t) for t in chunk]


def run_impl(texts, procs=16, chunk=200):
    """real parser + renderer over `texts` in forked workers (order preserved)."""
    if not texts:
        return []
    chunks = [texts[i:i + chunk] for i in range(0, len(texts), chunk)]
    if len(chunks) == 1:
        return _work(chunks[0])
    with mp.get_context("fork").Pool(min(procs, len(chunks))) as pl:
        res = pl.map(_work, chunks, chunksize=1)
    return [r for c in res for r in c]


# ------------------------------------------------------------------ seed-independent slices
def doc_hash(text):
    return int.from_bytes(hashlib.sha1(text.encode("utf-8", "surrogatepass")).digest()[:8], "big")


def hash_slice(texts, k):
    """the k documents with the smallest content hash: a fixed, seed-independent subset of a big pool."""
    texts = list(texts)
    if len(texts) <= k:
        return texts
    return sorted(texts, key=doc_hash)[:k]


# ------------------------------------------------------------------ reference side and judgement
PRAGMA = re.compile(r"(?im)^<!---?[ \t]*pyml[ \t]")


def in_scope_extra(text):
    """harness-level scope: pragma lines are an implementation feature (C11), not Markdown."""
    return not PRAGMA.search(text)


def reference(texts):
    """per document: {"scope": bool, "amb": str, "readings": {r: (html, abstract events)}}.
    Reading 0 (the model's default) is always present; readings 1..3 only where their event stream deviates."""
    import leanmarklib as LM
    scope = LM.in_scope(texts)
    amb = LM.ambiguity(texts)
    h0, e0 = LM.html(texts), LM.events(texts)
    out = [{"scope": s and in_scope_extra(t), "amb": a, "readings": {0: (h, abs_ref(e))}}
           for t, s, a, h, e in zip(texts, scope, amb, h0, e0)]
    for r in (1, 2, 3):
        idx = [i for i, a in enumerate(amb) if str(r) in a]
        if idx:
            sub = [texts[i] for i in idx]
            for i, h, e in zip(idx, LM.html(sub, r), LM.events(sub, r)):
                out[i]["readings"][r] = (h, abs_ref(e))
    return out


def refine_sigs(im, rh, ra):
    """signatures of the disagreements between one implementation result and one reading of the reference."""
    sigs = []
    if strip_pos(im["abs"]) != strip_pos(ra):
        sigs.append(events_signature(im["abs"], ra))
    a, b = norm_html(im["html"]), norm_html(rh)
    if a != b:
        sigs.append(html_signature(a, b))
    return sigs


def judge(ref, im):
    """(reading that the implementation refines or None, signatures w.r.t. the default reading)"""
    first = None
    for r in sorted(ref["readings"]):
        rh, ra = ref["readings"][r]
        sigs = refine_sigs(im, rh, ra)
        if not sigs:
            return r, []
        if first is None:
            first = sigs
    return None, first


ABS_OPENER = {"quote": ">", "ul": "-+*", "ol": "0123456789", "li": "-+*0123456789", "hr": "*-_", "fence": "`~",
              "emph": "*_", "strong": "*_", "link": "[", "image": "!", "code": "`", "rawhtml": "<", "autolink": "<", "hard": " \\"}


def pos_ok_abs(src, evs):
    """the opener table applied to abstract events (either side); returns [(path, kind, line, col, why)]."""
    ls = [detab(l) for l in src_lines(src)]
    bad = []
    for (path, k, line, col, _ti) in positions(evs):
        if not (1 <= line <= len(ls)):
            bad.append((path, k, line, col, "line-missing")); continue
        l = ls[line - 1]
        if not (1 <= col <= len(l) + 1):
            bad.append((path, k, line, col, "col-range")); continue
        ch = l[col - 1] if col - 1 < len(l) else ""
        if k in ABS_OPENER:
            ok = ch != "" and ch in ABS_OPENER[k]
        elif k == "heading":
            ok = ch != "" and ch != " "          # '#' for ATX, first text character for setext (kind-specific check below)
        elif k == "para":
            ok = ch != "" and ch != " "
        elif k == "icode":
            ok = col >= 5 and l[col - 5:col - 1] == "    " and ch != ""
        elif k == "html":
            r = l[col - 1:]
            n = len(r) - len(r.lstrip(" "))
            ok = n <= 3 and r[n:n + 1] == "<"
        else:
            ok = True
        if not ok:
            bad.append((path, k, line, col, "opener"))
    return bad
