"""Footprint predicates of the C02 findings (DESIGN §2.5).

A footprint is a decidable predicate over (source, outcome) that pins one defect family of the Markdown
regenerator exactly: which construct is involved AND what the wrong output looks like.  A round-trip failure
that no predicate accepts is a VIOLATION.  Each predicate is deliberately narrow (it reconstructs the expected
wrong output from the source and compares for equality) so that a new defect in the same area does not hide in it.

classify(src, kind, out, err, pragma_lines) -> finding id | None
    kind: "diff" (out != src) | "regen-error" (the regenerator raised; err = "Type:message@file:function")
"""
import itertools, re

SENTINELS = "þ艨艩"
MARKERS = "\b\a\x03\x05"
LIST_MARK = r"(?:[-+*]|\d{1,9}[.)])"


def strip_sentinels(s):
    return s.replace("艨", "").replace("艩", "").replace("þ", "")


def _only_deletes(src, out, chars):
    """out is src with a non-empty set of characters, all of them in `chars`, deleted"""
    if len(out) >= len(src):
        return False
    i = 0
    for c in src:
        if i < len(out) and out[i] == c:
            i += 1
        elif c not in chars:
            return False
    return i == len(out)


def _site(err):
    return err.split("@", 1)[1] if err and "@" in err else ""


def _etype(err):
    return err.split(":", 1)[0] if err else ""


def _lines(s):
    return s.split("\n")


# ---------------------------------------------------------------- individual footprints
def f_thorn(src, kind, out, err):
    """the document contains U+00FE / U+8268 / U+8269 and the output is exactly the document without them
    (= Verif.Model.Codec.stripSentinels, theorem sentinel_collision)"""
    return kind == "diff" and any(c in src for c in SENTINELS) and out == strip_sentinels(src)


def f_marker_raw(src, kind, out, err):
    """a marker character (\\b \\a U+0003 U+0005) of the document sits where the tokenizer stores text raw
    (HTML block, after a backslash, link title …): regeneration drops it, or `str.index` fails inside the
    marker resolution of parser_helper.py"""
    if not any(c in src for c in MARKERS):
        return False
    if kind == "diff":
        return _only_deletes(src, out, MARKERS)
    return _etype(err) in ("ValueError", "AssertionError") and "parser_helper.py" in _site(err) and "\x05" not in src


def f_x05(src, kind, out, err):
    """U+0005 directly before a character that gets a replacement marker (theorem codec_collision_x05): ValueError
    from str.index inside parser_helper.py's marker resolution"""
    return kind == "regen-error" and "\x05" in src and _etype(err) in ("ValueError", "AssertionError") and "parser_helper.py" in _site(err)


CHARREF = re.compile(r"&#(?:0*[78]|[xX]0*[78]);")


def f_charref_marker(src, kind, out, err):
    """a numeric character reference to U+0007 / U+0008: the replacement text is the raw marker character"""
    return kind == "regen-error" and CHARREF.search(src) is not None and _etype(err) in ("ValueError", "AssertionError") \
        and "parser_helper.py" in _site(err)


FENCE_WS = re.compile(r"^(.*?)(`{3,}|~{3,})([ \t\x0b\x0c]+)$")


def f_fence_trailws(src, kind, out, err):
    """an opening code fence without info string but with trailing white space: the white space is emitted twice"""
    if kind != "diff":
        return False
    sl, ol = _lines(src), _lines(out)
    if len(sl) != len(ol):
        return False
    hit = False
    for a, b in zip(sl, ol):
        if a == b:
            continue
        m = FENCE_WS.match(a)
        if not m or b != m.group(1) + m.group(2) + m.group(3) * 2:
            return False
        hit = True
    return hit


SETEXT_UL = re.compile(r"^[ >]*(-+|=+)[ \t]*$")


def f_setext_trailws(src, kind, out, err):
    """a setext heading of three or more lines with trailing white space on a middle line: the regenerator's
    assertion 'This must match with the line below.' fails"""
    if kind != "regen-error" or "This must match with the line below" not in (err or ""):
        return False
    ls = _lines(src)
    for i, l in enumerate(ls):
        if SETEXT_UL.match(l) and i >= 3:
            j = i - 1
            while j > 0 and ls[j].strip(" >\t") != "":
                j -= 1
            start = j + 1 if ls[j].strip(" >\t") == "" else j
            if any(ls[k].rstrip(" \t") != ls[k] for k in range(start + 1, i - 1)):
                return True
    return False


def f_bs(src, kind, out, err):
    """backslash hard break after an inline element, next line starts with a link/image: a `\\` is regenerated
    inside the label, directly after the `[`"""
    if kind != "diff" or len(out) <= len(src):
        return False
    cands = []
    pos = 0
    ls = _lines(src)
    for i, l in enumerate(ls):
        if i > 0 and ls[i - 1].endswith("\\"):
            st = l.lstrip(" >")
            off = pos + (len(l) - len(st))
            if st.startswith("["):
                cands.append(off + 1)
            elif st.startswith("!["):
                cands.append(off + 2)
        pos += len(l) + 1
    for k in range(1, min(len(cands), 4) + 1):
        for sub in itertools.combinations(cands, k):
            t, last = [], 0
            for p in sub:
                t.append(src[last:p]); t.append("\\"); last = p
            t.append(src[last:])
            if "".join(t) == out:
                return True
    return False


LRD_IN_ITEM = re.compile(r"^([ >]*)(" + LIST_MARK + r")([ ]+)\[[^\]]*\]:")
LRD_CONT = re.compile(r"^[ >]*[ ]{2,}\[[^\]]*\]:")


def f_lrd_trail(src, kind, out, err):
    """a link reference definition inside a list item, followed without a blank line by more content of the item:
    the item's indentation (spaces, or the enclosing quote prefix) is emitted once more at the start of the first
    blank line after it / after the final newline"""
    if kind != "diff" or len(out) <= len(src):
        return False
    sl = _lines(src)
    lrd_at = [i for i, l in enumerate(sl) if LRD_IN_ITEM.match(l) or (i > 0 and LRD_CONT.match(l))]
    if not lrd_at:
        return False
    ol = _lines(out)
    if len(ol) != len(sl):
        return False
    diffs = [i for i in range(len(sl)) if sl[i] != ol[i]]
    if len(diffs) != 1:
        return False
    i = diffs[0]
    return i > min(lrd_at) and sl[i] == "" and re.fullmatch(r"[ >]{1,12}", ol[i]) is not None


OUTDENT = re.compile(r"^( {1,3})(" + LIST_MARK + r")(?:[ ]|$)")


def f_bqlist_outdent(src, kind, out, err):
    """a list inside a block quote, then an un-quoted line indented 1-3 spaces that starts a new list:
    the new list's indentation comes back one or two spaces short"""
    if kind != "diff":
        return False
    sl, ol = _lines(src), _lines(out)
    if len(sl) != len(ol):
        return False
    diffs = [i for i in range(len(sl)) if sl[i] != ol[i]]
    if len(diffs) != 1 or diffs[0] == 0:
        return False
    i = diffs[0]
    m = OUTDENT.match(sl[i])
    if not m:
        return False
    quoted_list_before = any(re.match(r"^ {0,3}>[ >]*" + LIST_MARK + r"(?:[ ]|$)", sl[j]) for j in range(i))
    return quoted_list_before and ol[i] in (sl[i][1:], sl[i][2:]) and ol[i].lstrip(" ") == sl[i].lstrip(" ")


NEST2 = re.compile(r"^[ >]*(" + LIST_MARK + r")[ ]+(" + LIST_MARK + r")(?:[ ]|$)")


def f_sublist_marker(src, kind, out, err):
    """`- + x` (a list opened inside a list item on the same line), later a line that starts a new list of the
    inner kind at a shallower indent: its marker character is regenerated as the outer list's"""
    if kind != "diff":
        return False
    sl, ol = _lines(src), _lines(out)
    if len(sl) != len(ol):
        return False
    diffs = [i for i in range(len(sl)) if sl[i] != ol[i]]
    if len(diffs) != 1 or diffs[0] == 0:
        return False
    i = diffs[0]
    a, b = sl[i], ol[i]
    if len(a) != len(b):
        return False
    pos = [k for k in range(len(a)) if a[k] != b[k]]
    if len(pos) != 1:
        return False
    k = pos[0]
    m = re.match(r"^[ >]*(" + LIST_MARK + r")(?:[ ]|$)", a)
    if not m or k != m.end(1) - 1:
        return False
    for j in range(i):
        n = NEST2.match(sl[j])
        if n and b[k] == n.group(1)[-1] and a[k] == n.group(2)[-1]:
            return True
    return False


BQ_TAB_BLANK = re.compile(r"^[ ]{0,3}>[ \t]*\t[ \t]*$")


def f_bqtab_blank(src, kind, out, err):
    """a block-quote line that holds only white space with a tab after the `>`: the tab comes back as spaces"""
    if kind != "diff":
        return False
    sl, ol = _lines(src), _lines(out)
    if len(sl) != len(ol):
        return False
    hit = False
    for a, b in zip(sl, ol):
        if a == b:
            continue
        if not BQ_TAB_BLANK.match(a) or b != a.expandtabs(4):
            return False
        hit = True
    return hit


ORDER = [("F-THORN", f_thorn), ("F-X05", f_x05), ("F-MARKER-RAW", f_marker_raw), ("F-CHARREF-MARKER", f_charref_marker),
         ("F-FENCE-TRAILWS", f_fence_trailws), ("F-SETEXT-TRAILWS", f_setext_trailws), ("F-BS", f_bs),
         ("F-LRD-TRAIL", f_lrd_trail), ("F-BQLIST-OUTDENT", f_bqlist_outdent), ("F-SUBLIST-MARKER", f_sublist_marker),
         ("F-BQTAB-BLANK", f_bqtab_blank)]


def classify_plain(src, kind, out, err):
    for fid, fn in ORDER:
        try:
            if fn(src, kind, out, err):
                return fid
        except Exception:
            continue
    return None


def classify(src, kind, out, err, pragma_lines=None):
    """pragma_lines: {1-based line number: text} as recorded by the tokenizer (None / {} = no pragma)"""
    if pragma_lines:
        nums = sorted(int(k) for k in pragma_lines)
        sl = _lines(src)
        rest = [l for i, l in enumerate(sl, 1) if i not in nums]
        # F-PRAGMA-FINALNL: every line but the empty last one is a pragma: the final newline is lost
        if kind == "diff" and rest == [""] and out == src[:-1]:
            return "F-PRAGMA-FINALNL"
        if kind == "diff":
            ol = _lines(out)
            if len(ol) == len(sl) and all(ol[n - 1] == sl[n - 1].expandtabs(4) for n in nums):
                orest = [l for i, l in enumerate(ol, 1) if i not in nums]
                if orest == rest:
                    # only pragma lines differ, each by tab expansion (detabify_string in __handle_pragma_processing)
                    return "F-PRAGMA-TAB" if any("\t" in sl[n - 1] for n in nums) else None
                return classify_plain("\n".join(rest), kind, "\n".join(orest), err)
            return None
        return classify_plain("\n".join(rest), kind, out, err)
    return classify_plain(src, kind, out, err)
