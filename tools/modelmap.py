#!/usr/bin/env python3
"""modelmap -- machine-checked map "Lean model  <->  Python function" for the /verif framework.

Stand-alone (stdlib only).  The map itself is ``modelmap.json`` next to this file: a list of entries

    {"block": "BqCount", "lean_file": "lean/Verif/Model/BqCount.lean", "lean_defs": [...],
     "python_file": "pymarkdown/block_quotes/block_quote_count_helper.py",
     "python_qualname": "BlockQuoteCountHelper.count_block_quote_starts",
     "kind": "faithful" | "reference" | "generated-table", "properties": ["C01", ...],
     "tie": "tools/bqcountlib.py"}

Optional per entry: ``"partial": true`` (the Lean definition mirrors only a stated part / special case of the function:
a fixed argument, one branch, the stack effect ...) and ``"note"`` (which part).  A function counts as *fully* modelled
when at least one of its entries is not partial; check() reports both totals.

``python_qualname`` is the name as ``ast`` sees it: ``Class.method`` (nested classes and nested
functions joined by "."), leading double underscores kept as written in the source (no name mangling).

    check(repo_root, map_path)          -> dict   (every qualname resolved, coverage numbers)
    fingerprint(repo_root, map_path)    -> {"file::qualname": sha1 of ast.dump(body without docstrings)}
    changed(repo_root, baseline, map)   -> {"changed": [...], "missing": [...], "new": [...]}

CLI:
    python modelmap.py [repo_root]                           print check() as JSON; exit 1 when entries are missing
    python modelmap.py --write-baseline <path> [repo_root]   write fingerprint() to <path>
    python modelmap.py --changed <baseline> [repo_root]      print changed() as JSON; exit 1 when anything differs
    python modelmap.py --list-functions [repo_root]          print every file::qualname of the package (authoring aid)
"""
import ast
import copy
import hashlib
import json
import os
import sys

HERE = os.path.dirname(os.path.abspath(__file__))
DEFAULT_MAP = os.path.join(HERE, "modelmap.json")
PACKAGE_DIR = "pymarkdown"
_FUNC = (ast.FunctionDef, ast.AsyncFunctionDef)


# ----------------------------------------------------------------------------------------------
# source side
# ----------------------------------------------------------------------------------------------
def _read(path):
    with open(path, "rb") as handle:
        data = handle.read()
    return data.decode("utf-8", errors="replace")


def _index_functions(tree):
    """{qualname: node} for every function / method / nested function of a module.

    Order of first definition wins when a name is defined twice in one scope (e.g. under
    ``if TYPE_CHECKING`` / property setters keep the first)."""
    found = {}

    def visit(node, prefix):
        for child in ast.iter_child_nodes(node):
            if isinstance(child, _FUNC):
                qual = prefix + child.name
                found.setdefault(qual, child)
                visit(child, qual + ".")
            elif isinstance(child, ast.ClassDef):
                visit(child, prefix + child.name + ".")
            else:
                # functions defined under if / try / with at the same naming level
                visit(child, prefix)

    visit(tree, "")
    return found


def _is_outermost(qual, index):
    """A function that is not nested inside another *function* (classes do not count)."""
    parts = qual.split(".")
    for i in range(1, len(parts)):
        if ".".join(parts[:i]) in index:
            return False
    return True


def _code_lines(text):
    """Lines that are neither blank nor comment-only."""
    total = 0
    for line in text.splitlines():
        stripped = line.strip()
        if stripped and not stripped.startswith("#"):
            total += 1
    return total


def _code_line_numbers(text):
    """1-based numbers of the lines that are neither blank nor comment-only (same definition as _code_lines)."""
    return {i for i, line in enumerate(text.splitlines(), 1) if line.strip() and not line.strip().startswith("#")}


def _span(node):
    return node.end_lineno - node.lineno + 1


class _Source:
    def __init__(self, repo_root):
        self.repo_root = repo_root
        self.cache = {}

    def get(self, rel):
        if rel not in self.cache:
            path = os.path.join(self.repo_root, rel)
            if not os.path.isfile(path):
                self.cache[rel] = None
            else:
                text = _read(path)
                try:
                    tree = ast.parse(text, filename=path)
                except SyntaxError:
                    self.cache[rel] = None
                else:
                    self.cache[rel] = (text, tree, _index_functions(tree))
        return self.cache[rel]


def _package_files(repo_root):
    base = os.path.join(repo_root, PACKAGE_DIR)
    result = []
    for dirpath, dirnames, filenames in os.walk(base):
        dirnames[:] = sorted(d for d in dirnames if d != "__pycache__")
        for name in sorted(filenames):
            if name.endswith(".py"):
                result.append(os.path.relpath(os.path.join(dirpath, name), repo_root).replace(os.sep, "/"))
    return sorted(result)


def load_map(map_path=DEFAULT_MAP):
    with open(map_path, encoding="utf-8") as handle:
        entries = json.load(handle)
    if isinstance(entries, dict):
        entries = entries["entries"]
    return entries


def _covered_lines(nodes, only=None):
    """Number of distinct source lines covered by a set of function nodes (nested ones not double counted);
    with `only` (a set of line numbers) just those lines are counted."""
    lines = set()
    for node in nodes:
        lines.update(range(node.lineno, node.end_lineno + 1))
    if only is not None:
        lines &= only
    return len(lines)


# ----------------------------------------------------------------------------------------------
# check
# ----------------------------------------------------------------------------------------------
def check(repo_root="/repo", map_path=DEFAULT_MAP):
    entries = load_map(map_path)
    src = _Source(repo_root)
    missing = []
    resolved = {}  # (file, qual) -> node
    full = set()  # (file, qual) with at least one entry that is not marked "partial"
    by_block = {}
    by_property = {}
    for entry in entries:
        rel, qual = entry["python_file"], entry["python_qualname"]
        got = src.get(rel)
        node = got[2].get(qual) if got else None
        if node is None:
            reason = "file not found or not parseable" if got is None else "qualname not found"
            missing.append(dict(entry, reason=reason))
            continue
        resolved[(rel, qual)] = node
        if not entry.get("partial"):
            full.add((rel, qual))
        by_block.setdefault(entry["block"], set()).add((rel, qual))
        for prop in entry.get("properties", []):
            by_property.setdefault(prop, set()).add((rel, qual))

    def tally(keys):
        per_file = {}
        for rel, qual in keys:
            per_file.setdefault(rel, []).append(resolved[(rel, qual)])
        return {"functions": len(keys), "lines": sum(_covered_lines(nodes) for nodes in per_file.values())}

    def lines_of(keys):
        return tally(keys)["lines"]

    per_file = {}
    files = sorted({rel for rel, _ in resolved})
    for rel in files:
        text, _tree, index = src.get(rel)
        code = _code_line_numbers(text)
        modelled = sorted(q for (r, q) in resolved if r == rel)
        outer = [q for q in index if _is_outermost(q, index)]
        # a function nested in a modelled function is inside the model; one nested in an unmodelled
        # function is listed with its parent only
        covered = set(modelled)
        unmodelled = sorted(q for q in outer if q not in covered)
        per_file[rel] = {
            "functions_total": len(outer),
            "functions_modelled": len(modelled),
            "lines_total": _code_lines(text),
            # code lines (non-blank, non-comment: the unit of lines_total) inside the mapped functions
            "lines_in_modelled_functions": _covered_lines([resolved[(rel, q)] for q in modelled], code),
            "lines_in_fully_modelled_functions": _covered_lines(
                [resolved[(rel, q)] for q in modelled if (rel, q) in full], code
            ),
            "partially_modelled_functions": [q for q in modelled if (rel, q) not in full],
            "unmodelled_functions": unmodelled,
        }

    package_files = _package_files(repo_root)
    package_lines = 0
    for rel in package_files:
        package_lines += _code_lines(_read(os.path.join(repo_root, rel)))
    touched = [rel for rel in files if rel.startswith(PACKAGE_DIR + "/")]
    in_modelled = sum(per_file[rel]["lines_in_modelled_functions"] for rel in touched)
    total_lines_modelled = lines_of(set(resolved))  # source lines: end_lineno - lineno + 1, nested spans counted once
    in_full = sum(per_file[rel]["lines_in_fully_modelled_functions"] for rel in touched)

    return {
        "repo_root": repo_root,
        "entries": len(entries),
        "missing": missing,
        "functions_modelled": len(resolved),
        "lines_modelled": total_lines_modelled,
        "functions_fully_modelled": len(full),
        "functions_partially_modelled": len(resolved) - len(full),
        "lines_fully_modelled": lines_of(full),
        "per_file": per_file,
        "package": {
            "files_total": len(package_files),
            "lines_total": package_lines,
            "files_touched": len(touched),
            "lines_in_modelled_functions": in_modelled,
            "share": round(in_modelled / package_lines, 4) if package_lines else 0.0,
            "lines_in_fully_modelled_functions": in_full,
            "share_fully_modelled": round(in_full / package_lines, 4) if package_lines else 0.0,
        },
        "by_block": {block: tally(keys) for block, keys in sorted(by_block.items())},
        "by_property": {prop: tally(keys) for prop, keys in sorted(by_property.items())},
    }


# ----------------------------------------------------------------------------------------------
# fingerprints
# ----------------------------------------------------------------------------------------------
class _StripDocstrings(ast.NodeTransformer):
    def _strip(self, node):
        self.generic_visit(node)
        body = node.body
        if (
            body
            and isinstance(body[0], ast.Expr)
            and isinstance(body[0].value, ast.Constant)
            and isinstance(body[0].value.value, str)
        ):
            node.body = body[1:] or [ast.Pass()]
        return node

    visit_FunctionDef = _strip
    visit_AsyncFunctionDef = _strip
    visit_ClassDef = _strip


def _function_sha(node):
    """sha1 of the function's behaviour-relevant AST: arguments, decorators, body; docstrings,
    comments, formatting and line numbers do not matter."""
    clone = _StripDocstrings().visit(copy.deepcopy(node))
    dumped = ast.dump(clone, annotate_fields=True, include_attributes=False)
    return hashlib.sha1(dumped.encode("utf-8")).hexdigest()


def fingerprint(repo_root="/repo", map_path=DEFAULT_MAP):
    src = _Source(repo_root)
    result = {}
    for entry in load_map(map_path):
        rel, qual = entry["python_file"], entry["python_qualname"]
        key = rel + "::" + qual
        if key in result:
            continue
        got = src.get(rel)
        node = got[2].get(qual) if got else None
        result[key] = _function_sha(node) if node is not None else None
    return dict(sorted(result.items()))


def changed(repo_root="/repo", baseline_json_path=None, map_path=DEFAULT_MAP):
    """Functions whose fingerprint differs from the baseline (with the blocks / properties that model them)."""
    if baseline_json_path is None:
        baseline_json_path = os.path.join(HERE, "modelmap_baseline.json")
    with open(baseline_json_path, encoding="utf-8") as handle:
        baseline = json.load(handle)
    baseline = baseline.get("fingerprints", baseline)
    current = fingerprint(repo_root, map_path)
    owners = {}
    for entry in load_map(map_path):
        key = entry["python_file"] + "::" + entry["python_qualname"]
        slot = owners.setdefault(key, {"blocks": set(), "properties": set()})
        slot["blocks"].add(entry["block"])
        slot["properties"].update(entry.get("properties", []))

    def describe(key):
        slot = owners.get(key, {"blocks": set(), "properties": set()})
        return {"function": key, "blocks": sorted(slot["blocks"]), "properties": sorted(slot["properties"])}

    differs, gone, new = [], [], []
    for key, sha in current.items():
        if key not in baseline:
            new.append(describe(key))
        elif sha is None:
            gone.append(describe(key))
        elif sha != baseline[key]:
            differs.append(describe(key))
    dropped = sorted(k for k in baseline if k not in current)
    return {
        "changed": differs,
        "missing": gone,
        "new_in_map": new,
        "not_in_map_any_more": dropped,
        "blocks_affected": sorted({b for d in differs + gone for b in d["blocks"]}),
        "properties_affected": sorted({p for d in differs + gone for p in d["properties"]}),
    }


# ----------------------------------------------------------------------------------------------
def _list_functions(repo_root):
    src = _Source(repo_root)
    for rel in _package_files(repo_root):
        got = src.get(rel)
        if not got:
            continue
        for qual, node in got[2].items():
            print("%s::%s\t%d" % (rel, qual, _span(node)))


def main(argv):
    args = list(argv)
    map_path = DEFAULT_MAP
    if "--map" in args:
        i = args.index("--map")
        map_path = args[i + 1]
        del args[i : i + 2]
    if args and args[0] == "--write-baseline":
        path = args[1]
        repo_root = args[2] if len(args) > 2 else "/repo"
        prints = fingerprint(repo_root, map_path)
        with open(path, "w", encoding="utf-8") as handle:
            json.dump(prints, handle, indent=0, sort_keys=True)
            handle.write("\n")
        unresolved = [k for k, v in prints.items() if v is None]
        print(json.dumps({"written": path, "functions": len(prints), "unresolved": unresolved}))
        return 1 if unresolved else 0
    if args and args[0] == "--changed":
        path = args[1]
        repo_root = args[2] if len(args) > 2 else "/repo"
        result = changed(repo_root, path, map_path)
        print(json.dumps(result, indent=1))
        return 1 if (result["changed"] or result["missing"]) else 0
    if args and args[0] == "--list-functions":
        _list_functions(args[1] if len(args) > 1 else "/repo")
        return 0
    repo_root = args[0] if args else "/repo"
    result = check(repo_root, map_path)
    print(json.dumps(result, indent=1))
    return 1 if result["missing"] else 0


if __name__ == "__main__":
    sys.exit(main(sys.argv[1:]))
