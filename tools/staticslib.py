"""Dynamic cross-check of the parser / shell statics table (Verif.Gen.ParserStatics) for C13.

A worker PROCESS (fresh interpreter: class-level state is really at its import-time value) builds the application's
long-lived objects exactly as `PyMarkdownLint.main` does (the real `main` runs up to the point where
`FileScanHelper.process_files_to_scan` would start the loop over the files), then feeds documents one by one through the
real per-document functions `FileScanHelper.__scan_specific_file` / `__fix_specific_file`.

A snapshot of ALL long-lived state is taken right after each of the two per-document initialisations:
  "tokenizer": at the first `get_next_line()` of every tokenization — after `__transform`'s initialisers and the start of
               `__parse_blocks_pass`, before the first line of the new document is looked at;
  "plugins":   when `PluginManager.starting_new_file` returns
(the application calls them in either order — scan: plug-ins first, fix: tokenizer first — so a row that is reset by the
other group may legitimately still hold the previous document's value at that moment; the caller skips exactly those).
A snapshot holds:
  * the `__dict__` of every object of an in-scope class reachable from the application object, the file-scan helper and
    from any module global / class attribute of the in-scope modules (tokenizer, parse properties, plug-in manager,
    extension manager and its extensions, presentation, parser loggers, …), deep and canonicalised;
  * every class-level attribute of every in-scope class and every module global of every in-scope module
    (link definitions, inline handler tables, emphasis characters, entity map, return-code scheme, …).
Loggers, functions, compiled patterns and objects of foreign classes are canonicalised by name only; rule instances are
covered by `snapshot_check` (Verif.Gen.RuleFields); the source provider IS the current document and is skipped.

The first snapshot of the fresh process is the reference.  Any key whose value differs in a later snapshot (after
documents from the pool, including documents whose tokenization fails midway and documents on which rules crash, in scan
and fix mode, and on a second application stack built in the same process = reuse of one API object) is reported; the
caller (tools/props/c13.py) accepts it only when it is a baseline exception of Verif/Model/ParserStaticsTable.lean.
"""
import contextlib, io, json, os, re, subprocess, sys, tempfile

HERE = os.path.dirname(os.path.abspath(__file__))


# ------------------------------------------------------------------------------------------------ table access
def parse_keys(block):
    out = []
    for a, b, ws in re.findall(r'\("([^"]+)",\s*"([^"]+)",\s*\[([^\]]*)\]\)', block):
        out.append((a, b, re.findall(r'"([^"]*)"', ws)))
    return out


def baseline(lean_dir):
    src = open(os.path.join(lean_dir, "Verif", "Model", "ParserStaticsTable.lean"), encoding="utf-8").read()
    exc = parse_keys(src[src.index("def exceptions"):src.index("def configurationWritten")])
    cfg = parse_keys(src[src.index("def configurationWritten"):src.index("def keyOwners")])
    return exc, cfg


def table(lean_dir):
    """Rows of the generated Verif/Gen/ParserStatics.lean as dicts."""
    src = open(os.path.join(lean_dir, "Verif", "Gen", "ParserStatics.lean"), encoding="utf-8").read()
    rows = []
    pat = re.compile(r'⟨"([^"]*)", "([^"]*)", "([^"]*)", "([^"]*)", \[([^\]]*)\],\s*\[([^\]]*)\], (true|false), (true|false)⟩')
    for m in pat.finditer(src):
        rows.append(dict(owner=m.group(1), name=m.group(2), kind=m.group(3), value=m.group(4),
                         writers=re.findall(r'"([^"]*)"', m.group(5)), docWriters=re.findall(r'"([^"]*)"', m.group(6)),
                         resetOnDocPath=m.group(7) == "true", constant=m.group(8) == "true"))
    grp = {(a, b): g for a, b, g in re.findall(r'\("([^"]*)", "([^"]*)", "([^"]*)"\)', src[src.index("def resetBy"):src.index("def entryCallers")])}
    for r in rows:
        r["resetBy"] = grp.get((r["owner"], r["name"]), "")
    return rows


# ------------------------------------------------------------------------------------------------ worker side
def scope_modules(repo):
    sys.path.insert(0, os.path.join(HERE, "translate"))
    import parser_statics as P
    root = os.path.join(repo, "pymarkdown")
    names = []
    for d in P.SCOPE_DIRS:
        for f in sorted(os.listdir(os.path.join(root, d))):
            if f.endswith(".py"):
                names.append(f"pymarkdown.{d}" if f == "__init__.py" else f"pymarkdown.{d}.{f[:-3]}")
    for f in P.SCOPE_FILES:
        names.append("pymarkdown." + f[:-3])
    names += ["pymarkdown." + f[:-3] for f in sorted(os.listdir(root)) if re.match(r"application_\w+\.py$", f)]
    return names


class Snapshotter:
    def __init__(self, mods):
        import logging, types, threading, enum
        self.mods = mods
        self.scope = set(mods)
        self.t = types
        self.logging = logging
        self.local = type(threading.local())
        self.enum = enum
        self.skip_nodes = ("FileSourceProvider", "InMemorySourceProvider")
        self.fn_types = (types.FunctionType, types.BuiltinFunctionType, types.MethodType, staticmethod, classmethod, property,
                         types.MethodDescriptorType, types.WrapperDescriptorType, types.GetSetDescriptorType,
                         types.MemberDescriptorType)

    @staticmethod
    def unmangle(k):
        return re.sub(r"^_[A-Za-z0-9]+?(__\w)", r"\1", k) if re.match(r"^_[A-Za-z][A-Za-z0-9]*__\w", k) else k

    def is_node(self, v):
        t = type(v)
        return t.__module__ in self.scope and not isinstance(v, (type, self.enum.Enum)) and hasattr(v, "__dict__")

    def canon(self, v, depth=0):
        if isinstance(v, (bool, int, float, str, type(None))):
            return v
        if isinstance(v, bytes):
            return repr(v)
        if depth > 8:
            return "…"
        if isinstance(v, (list, tuple)):
            return [self.canon(x, depth + 1) for x in v]
        if isinstance(v, (set, frozenset)):
            return sorted(json.dumps(self.canon(x, depth + 1), sort_keys=True, default=str) for x in v)
        if isinstance(v, dict):
            return {json.dumps(self.canon(k, depth + 1), default=str): self.canon(x, depth + 1) for k, x in
                    sorted(v.items(), key=lambda kv: repr(kv[0]))}
        if isinstance(v, self.fn_types):
            f = getattr(v, "__func__", v)
            return "<fn %s>" % getattr(f, "__qualname__", getattr(f, "__name__", "?"))
        if isinstance(v, type):
            return "<class %s>" % v.__name__
        if isinstance(v, self.enum.Enum):
            return "<enum %s>" % v
        if isinstance(v, self.local):
            return {"<thread-local>": self.canon(dict(v.__dict__), depth + 1)}
        if self.is_node(v):
            self.pending.append(v)
            return "<%s>" % type(v).__name__
        return "<%s.%s>" % (type(v).__module__, type(v).__name__)     # foreign object (logger, pattern, argparse, rule …)

    def take(self, roots, skip=()):
        """{key: value}  with key = 'Owner.name';  self.owners[key] = candidate owner classes (MRO names).
        Keys in `skip` are neither recorded nor descended into."""
        snap, self.owners, self.pending, seen = {}, {}, [], set()
        for name in self.mods:
            m = sys.modules.get(name)
            if m is None:
                continue
            tail = name.split(".", 1)[1] if "." in name else name
            for k, v in list(vars(m).items()):
                if k.startswith("__") and k.endswith("__"):
                    continue
                if isinstance(v, type):
                    if v.__module__ != name or issubclass(v, self.enum.Enum):
                        continue
                    for a, x in list(vars(v).items()):
                        if (a.startswith("__") and a.endswith("__")) or a.startswith("_abc_") or isinstance(x, self.fn_types):
                            continue
                        key = f"{v.__name__}.{self.unmangle(a)}"
                        if key in skip:
                            continue
                        snap[key] = self.canon(x)
                        self.owners[key] = [c.__name__ for c in v.__mro__]
                elif isinstance(v, (self.t.ModuleType,) + self.fn_types) or type(v).__module__ in ("typing", "abc", "__future__"):
                    continue
                else:
                    key = f"{tail}.{k}"
                    if key in skip:
                        continue
                    snap[key] = self.canon(v)
                    self.owners[key] = [tail]
        for r in roots:
            self.canon(r)
        while self.pending:
            o = self.pending.pop()
            if id(o) in seen or type(o).__name__ in self.skip_nodes:
                continue
            seen.add(id(o))
            cname = type(o).__name__
            for a, x in sorted(vars(o).items()):
                m = re.match(r"^_([A-Za-z][A-Za-z0-9]*)(__\w+)$", a)
                key = f"{m.group(1)}.{m.group(2)}" if m else f"{cname}.{a}"
                if key in skip or (not m and any(f"{c.__name__}.{a}" in skip for c in type(o).__mro__)):
                    continue
                snap.setdefault(key, []).append(self.canon(x))
                self.owners[key] = [m.group(1)] if m else [c.__name__ for c in type(o).__mro__]
        return snap


def build_stack(doc_path, extra):
    """The application's long-lived objects, configured by the real `main`, stopped before the first document."""
    from pymarkdown.main import PyMarkdownLint
    from pymarkdown.file_scan_helper import FileScanHelper
    got = {}
    orig = FileScanHelper.process_files_to_scan

    def hook(self, args, use_standard_in, files_to_scan, string_to_scan):
        got["fsh"], got["args"] = self, args
        self._FileScanHelper__continue_on_error = args.continue_on_error      # the one statement before the loop
        return False, False
    FileScanHelper.process_files_to_scan = hook
    lint = PyMarkdownLint()
    try:
        with contextlib.redirect_stdout(io.StringIO()), contextlib.redirect_stderr(io.StringIO()):
            lint.main(["--continue-on-error"] + extra + ["scan", doc_path])
    except SystemExit:
        pass
    finally:
        FileScanHelper.process_files_to_scan = orig
    if "fsh" not in got:
        raise RuntimeError("application stack could not be built")
    return lint, got["fsh"]


def worker(payload):
    repo = payload["repo"]
    sys.path.insert(0, repo)
    import importlib
    mods = scope_modules(repo)
    for m in mods:
        importlib.import_module(m)
    from pymarkdown.general.tokenized_markdown import TokenizedMarkdown
    from pymarkdown.general import source_providers as SP
    S = Snapshotter(mods)
    skip = {k: set(v) for k, v in payload["skip"].items()}
    from pymarkdown.main import PyMarkdownLint
    from pymarkdown.file_scan_helper import FileScanHelper
    from pymarkdown.api import PyMarkdownApi, PyMarkdownApiException
    state = {"armed": False, "snaps": [], "tag": None, "lint": None, "fsh": None, "api": PyMarkdownApi()}

    def roots():
        return [state["lint"], state["fsh"], state["api"]]

    def wrap_init(cls, slot):
        orig = cls.__init__

        def __init__(self, *a, **k):
            state[slot] = self            # the application object / file-scan helper currently in use
            return orig(self, *a, **k)
        cls.__init__ = __init__
    wrap_init(PyMarkdownLint, "lint")
    wrap_init(FileScanHelper, "fsh")

    def wrap_entry(name):
        orig = getattr(TokenizedMarkdown, name)

        def entry(self, *a, **k):
            state["armed"] = True
            try:
                return orig(self, *a, **k)
            finally:
                state["armed"] = False
        setattr(TokenizedMarkdown, name, entry)

    def wrap_next(cls):
        orig = cls.get_next_line

        def get_next_line(self):
            if state["armed"]:
                state["armed"] = False
                state["snaps"].append(("tokenizer", state["tag"], S.take(roots(), skip["tokenizer"]), dict(S.owners)))
            return orig(self)
        cls.get_next_line = get_next_line

    def wrap_start():
        from pymarkdown.plugin_manager.plugin_manager import PluginManager
        orig = PluginManager.starting_new_file

        def starting_new_file(self, *a, **k):
            res = orig(self, *a, **k)
            state["snaps"].append(("plugins", state["tag"], S.take(roots(), skip["plugins"]), dict(S.owners)))
            return res
        PluginManager.starting_new_file = starting_new_file

    wrap_entry("transform_from_provider")
    wrap_next(SP.FileSourceProvider)
    wrap_next(SP.InMemorySourceProvider)
    wrap_start()

    ws = tempfile.mkdtemp(prefix="verif-statics-")
    path = os.path.join(ws, "doc.md")

    def put(text):
        with open(path, "w", encoding="utf-8", newline="") as fh:
            fh.write(text)

    def run_doc(fsh, mode, text, tag):
        put(text)
        state["tag"] = tag
        with contextlib.redirect_stdout(io.StringIO()), contextlib.redirect_stderr(io.StringIO()):
            try:
                if mode == "api":
                    try:
                        state["api"].scan_string(text)      # a new PyMarkdownLint + FileScanHelper inside, same process
                    except PyMarkdownApiException:
                        pass                                # empty string / system error result (rule crash, tokenizer failure)
                elif mode == "scan":
                    fsh._FileScanHelper__scan_specific_file(path, "doc.md")
                else:
                    fsh._FileScanHelper__fix_specific_file(path, "doc.md", False, False, False)
            except SystemExit:
                pass
            except Exception as e:       # must not happen with --continue-on-error; reported to the caller
                return f"{type(e).__name__}: {e}"
        return None

    docs = payload["docs"]
    results, errors = [], []
    references = {}
    evaluations = 0
    put("x\n")
    for stack_no, (mode, order) in enumerate(payload["passes"]):
        fsh = None
        if mode != "api":
            lint, fsh = build_stack(path, payload.get("extra", []))
            state["lint"], state["fsh"] = lint, fsh
        seq = [None] + [docs[i] for i in order] + [None]      # neutral first / last document
        for pos, t in enumerate(seq):
            tag = {"stack": stack_no, "mode": mode, "pos": pos, "doc": t, "prev": seq[pos - 1] if pos else None}
            n0 = len(state["snaps"])
            err = run_doc(fsh, mode, "x\n" if t is None else t, tag)
            if err:
                errors.append({"tag": tag, "error": err})
            for kind, tg, snap, owners in state["snaps"][n0:]:
                # command-line stacks and API stacks are configured differently (presentation object, string to scan),
                # so each family has its own reference: the first snapshot of its kind in this fresh process
                fam = (kind, "api" if mode == "api" else "cli")
                if mode == "api":
                    snap.pop("PyMarkdownLint.__string_to_scan", None)      # the document itself (the input of this scan)
                if fam not in references:
                    references[fam] = snap
                    continue
                reference = references[fam]
                evaluations += len(snap)
                for key in sorted(set(snap) | set(reference)):
                    if snap.get(key, "<absent>") != reference.get(key, "<absent>"):
                        results.append({"key": key, "owners": owners.get(key, []), "tag": tg, "at": kind,
                                        "reference": json.dumps(reference.get(key, "<absent>"), default=str)[:300],
                                        "now": json.dumps(snap.get(key, "<absent>"), default=str)[:300]})
            del state["snaps"][n0:]
    import shutil
    shutil.rmtree(ws, ignore_errors=True)
    ref = references.get(("tokenizer", "cli"), {})
    return {"diffs": results, "errors": errors, "evaluations": evaluations, "keys": len(ref),
            "key_list": sorted(set().union(*[set(v) for v in references.values()]))}


def skip_sets(rows):
    """Per snapshot moment, the rows that the OTHER per-document initialisation re-binds (they may still hold the previous
    document's value at that moment)."""
    return {"tokenizer": sorted(f"{r['owner']}.{r['name']}" for r in rows if r["resetBy"] == "plugins"),
            "plugins": sorted(f"{r['owner']}.{r['name']}" for r in rows if r["resetBy"] == "tokenizer")}


def run_worker(repo, docs, passes, skip, extra=()):
    """passes: [(mode, [doc indices in processing order])], mode = scan | fix (one application stack per pass, built by the
    real `main`) | api (one PyMarkdownApi object for the whole worker; every `scan_string` builds a new stack); all passes
    run in ONE fresh process."""
    payload = json.dumps({"repo": repo, "docs": docs, "passes": passes, "extra": list(extra), "skip": skip})
    env = dict(os.environ, PYTHONDONTWRITEBYTECODE="1")
    p = subprocess.run([sys.executable, os.path.abspath(__file__), "--worker"], input=payload, capture_output=True, text=True, env=env)
    if p.returncode != 0:
        raise RuntimeError("statics worker failed: " + p.stderr[-800:])
    return json.loads(p.stdout.strip().splitlines()[-1])


if __name__ == "__main__" and "--worker" in sys.argv:
    out = worker(json.loads(sys.stdin.read()))
    sys.stdout.write("\n" + json.dumps(out) + "\n")
