"""Function-level correspondence of the LINK recogniser models (lean/Verif/Model/LinkRecog.lean, driver `linkrecog`)
with the REAL pymarkdown functions, called in-process (private ones through name mangling).

A *request* is a tuple (op, arg, ...) with str / int / bool args; `encode` gives the driver line, `real` the
implementation's answer in the driver's answer syntax.  `run(ctx, quick)` sweeps the closed request space
(thorough: all of it; quick: everything short + a ctx.rng-seeded sample of the rest), diffs the answers, records a
disagreement in ctx.broken and returns counts + the disagreeing requests.

Canonicalisation (the only one): Lean's `Char` has no surrogates, so where Python goes on with a lone surrogate in a
`str` (numeric character reference `&#xD800;`) or `urllib.parse.quote` raises UnicodeEncodeError on it, both sides say
`err surrogate`."""
import hashlib, itertools, multiprocessing as mp, time, types, unicodedata, urllib.parse
import vlib

H = vlib.hexs


def hx(s):
    return "=" + H(s)


def ohx(s):
    return "none" if s is None else hx(s)


def obit(b):
    return "none" if b is None else ("1" if b else "0")


def enc_arg(a):
    if isinstance(a, bool):
        return "1" if a else "0"
    if isinstance(a, int):
        return str(a)
    return H(a)


def encode(req):
    return "|".join([req[0]] + [enc_arg(a) for a in req[1:]])


_IMPL = {}


def impl():
    """Lazy import of the implementation (after vlib put VERIF_REPO on sys.path); the entity map is loaded by
    configuring one parser."""
    if _IMPL:
        return _IMPL
    import implib
    implib.parser()
    from pymarkdown.general.parser_helper import ParserHelper as PH
    from pymarkdown.inline.inline_backslash_helper import InlineBackslashHelper as IBH
    from pymarkdown.inline.inline_character_reference_helper import InlineCharacterReferenceHelper as ICR
    from pymarkdown.inline.inline_helper import InlineHelper as IH
    from pymarkdown.inline.inline_request import InlineRequest
    from pymarkdown.links.link_parse_helper import LinkParseHelper as LPH
    from pymarkdown.links.link_helper_properties import LinkHelperProperties
    from pymarkdown.links.link_reference_definition_parse_helper import LinkReferenceDefinitionParseHelper as LRD
    from pymarkdown.tokens.link_start_markdown_token import LinkStartMarkdownToken
    _IMPL.update(PH=PH, IBH=IBH, ICR=ICR, IH=IH, IR=InlineRequest, LPH=LPH, LHP=LinkHelperProperties, LRD=LRD,
                 LST=LinkStartMarkdownToken)
    return _IMPL


def _priv(cls, name):
    return getattr(cls, "_%s__%s" % (cls.__name__, name))


def _has_surrogate(x):
    if isinstance(x, str):
        return any(0xD800 <= ord(c) <= 0xDFFF for c in x)
    if isinstance(x, (tuple, list)):
        return any(_has_surrogate(y) for y in x)
    if hasattr(x, "__dict__"):
        return any(_has_surrogate(y) for y in vars(x).values())
    return False


def _lhp(I):
    """A LinkHelperProperties initialised the way look_for_link_formats does it."""
    l = I["LHP"]()
    l.did_use_angle_start, l.bounding_character, l.label_type = False, "", ""
    l.inline_link = l.pre_inline_link = l.inline_title = l.pre_inline_title = l.ex_label = ""
    l.before_link_whitespace = l.before_title_whitespace = l.after_title_whitespace = ""
    return l


def _lhp_s(l):
    return "|".join([ohx(l.inline_link), ohx(l.pre_inline_link), ohx(l.inline_title), ohx(l.pre_inline_title),
                     obit(l.did_use_angle_start), hx(l.bounding_character), hx(l.before_link_whitespace),
                     hx(l.before_title_whitespace), hx(l.after_title_whitespace)])


def _state(in_para):
    top = types.SimpleNamespace(is_paragraph=in_para)
    return types.SimpleNamespace(token_stack=[top], parse_properties=None)


def real(req):
    """The implementation's answer for one request, in the driver's syntax."""
    I = impl()
    PH, IBH, ICR, IH, IR, LPH, LRD = I["PH"], I["IBH"], I["ICR"], I["IH"], I["IR"], I["LPH"], I["LRD"]
    op, a = req[0], req[1:]
    try:
        r = _real(I, PH, IBH, ICR, IH, IR, LPH, LRD, op, a)
    except IndexError:
        return "err index"
    except AssertionError:
        return "err assertion"
    except UnicodeEncodeError:
        return "err surrogate"
    except ValueError:
        return "err value"
    except Exception as e:  # anything else is a disagreement by construction
        return "err %s" % type(e).__name__
    return r


def _real(I, PH, IBH, ICR, IH, IR, LPH, LRD, op, a):
    if op == "cuo":
        r = PH.collect_until_one_of_characters(a[0], a[1], a[2])
        return "none" if r[0] is None else "%d|%s" % (r[0], hx(r[1]))
    if op == "iao":
        return str(PH.index_any_of(a[0], a[1], a[2]))
    if op == "bs":
        r = IBH.handle_inline_backslash(None, IR(a[0], a[1]), a[2])
        return "%d|%s" % (r.new_index, hx(r.new_string))
    if op == "cref":
        r = ICR.handle_character_reference(None, IR(a[0], a[1]))
        if _has_surrogate(r.new_string):
            return "err surrogate"
        return "%s|%d" % (hx(r.new_string), r.new_index)
    if op == "hb":
        r = IBH.handle_backslashes(None, a[0])
        return "err surrogate" if _has_surrogate(r) else hx(r)
    if op == "atx":
        return hx(IH.append_text("", a[0], add_text_signature=False))
    if op == "ebs":
        r = IH.extract_bounded_string(None, a[0], a[1], a[2], a[3] or None)
        return "%d|%s" % (r[0], ohx(r[1]))
    if op == "angle":
        r = _priv(LPH, "parse_angle_link_destination")(None, a[0], a[1])
        return "%d|%s" % (r[0], hx(r[1]))
    if op == "nonangle":
        r = _priv(LPH, "parse_non_angle_link_destination")(None, a[0], a[1])
        return "%d|%s" % (r[0], ohx(r[1]))
    if op == "quote":
        return hx(urllib.parse.quote(a[0], safe=_priv(LPH, "link_safe_characters")))
    if op == "enc":
        return hx(_priv(LPH, "encode_link_destination")(a[0]))
    if op == "dest":
        r = _priv(LPH, "parse_link_destination")(None, a[0], a[1])
        if _has_surrogate(r):
            return "err surrogate"
        return "%s|%s|%d|%s|%s" % (ohx(r[0]), ohx(r[1]), r[2], ohx(r[3]), obit(r[4]))
    if op == "title":
        r = _priv(LPH, "parse_link_title")(None, a[0], a[1])
        if _has_surrogate(r):
            return "err surrogate"
        return "%s|%s|%d|%s" % (ohx(r[0]), ohx(r[1]), r[2], hx(r[3]))
    if op == "label":
        r = LPH.extract_link_label(None, a[0], a[1], a[2])
        return "%d|%d|%s" % (r[0], r[1], ohx(r[2]))
    if op == "norm":
        return hx(LPH.normalize_link_label(a[0]))
    if op == "props":
        l = _lhp(I)
        n = _priv(LPH, "parse_inline_link_properties")(None, a[0], a[1], l)
        return "err surrogate" if _has_surrogate(l) else "%d|%s" % (n, _lhp_s(l))
    if op in ("body", "bodyrt"):
        l = _lhp(I)
        n = _priv(LPH, "process_inline_link_body")(None, a[0], a[1], None, l)
        if _has_surrogate(l):
            return "err surrogate"
        if op == "body":
            return "%d|%s" % (n, _lhp_s(l))
        if n == -1:
            return "-1"
        # what LinkCreateHelper.create_link_token does to the two `pre_` fields before it builds the token
        # (link_create_helper.py: `if lhp.pre_inline_link == lhp.inline_link: lhp.pre_inline_link = ""`, same for the title)
        if l.pre_inline_link == l.inline_link:
            l.pre_inline_link = ""
        if l.pre_inline_title == l.inline_title:
            l.pre_inline_title = ""
        l.label_type = "inline"
        tok = I["LST"]("a", 1, 1, l)
        text = I["LST"].rehydrate_inline_link_text_from_token(tok)
        assert text.startswith("[a]")
        return "%d|%s" % (n, hx(text[3:]))
    if op == "xld":
        r = LPH.extract_link_destination(None, a[0], a[1], a[2])
        if _has_surrogate(r):
            return "err surrogate"
        if r[2] is None and r[4] is None:
            return "%d|%d" % (r[0], r[1])
        return "%d|%d|%s|%s|%s|%s" % (r[0], r[1], ohx(r[2]), ohx(r[3]), hx(r[4]), ohx(r[5]))
    if op == "xlt":
        r = LPH.extract_link_title(None, a[0], a[1], a[2])
        if _has_surrogate(r):
            return "err surrogate"
        if r[2] is None:
            return "%d|%d" % (r[0], r[1])
        return "%d|%d|%s|%s|%s|%s" % (r[0], r[1], hx(r[2]), hx(r[3]), hx(r[4]), hx(r[5]))
    if op == "vend":
        r = _priv(LRD, "verify_link_definition_end")(a[0], a[1])
        return "%d|%d|%s" % (r[0], r[1], ohx(r[2]))
    if op == "islrd":
        return "1" if _priv(LRD, "is_link_reference_definition")(_state(a[3]), a[0], a[1], a[2]) else "0"
    if op == "lrd":
        ok, n, t = LRD.parse_link_reference_definition(_state(a[4]), a[0], a[1], a[2], a[3])
        if t is None:
            return "%d|%d" % (ok, n)
        if _has_surrogate((t.link_titles, t.link_info)):
            return "err surrogate"
        li, lt = t.link_info, t.link_titles
        return "|".join(["%d|%d" % (ok, n), hx(li.collected_destination), hx(t.normalized_destination),
                         hx(li.line_destination_whitespace), ohx(lt.inline_link), ohx(li.inline_raw_link), hx(lt.inline_title),
                         hx(li.line_title_whitespace), hx(li.inline_raw_title), hx(li.end_whitespace)])
    if op == "inthex":
        try:
            int(a[0] + a[1], 16)
            return "1"
        except ValueError:
            return "0"
    if op == "isnd":
        return "1" if unicodedata.category(a[0]) == "Nd" else "0"
    if op == "intspace":      # does int() strip this character?  (asked of CPython's int itself)
        if a[0] in "+-":
            return "0"
        try:
            int(a[0], 16)
            return "0"
        except ValueError:
            pass
        try:
            int(a[0] + "1", 16)
            return "1"
        except ValueError:
            return "0"
    if op == "fold":
        return hx(a[0].casefold())
    return "bad-op"


# ---------------------------------------------------------------- request spaces (closed, explicitly enumerated)
def strings(alphabet, max_len, min_len=0):
    for n in range(min_len, max_len + 1):
        for t in itertools.product(alphabet, repeat=n):
            yield "".join(t)


ANGLE_BREAKS, LABEL_BREAKS, SPECIAL = ">\\", "[]\\", "%&"


def _r_collect(s):
    out = []
    for k in range(len(s) + 2):
        out += [("cuo", s, k, ANGLE_BREAKS), ("cuo", s, k, LABEL_BREAKS), ("cuo", s, k, SPECIAL), ("iao", s, "\\&", k)]
    return out


def _r_backslash(s):
    out = [("hb", s), ("atx", s)]
    for k in range(len(s) + 1):
        out += [("bs", s, k, True), ("bs", s, k, False)]
    return out


def _r_charref(s):
    return [("hb", s)] + [("cref", s, k) for k in range(len(s)) if s[k] == "&"] + [("cref", s, len(s))]


def _r_bounded(s):
    out = []
    for k in range(len(s) + 2):
        out += [("ebs", s, k, "'", ""), ("ebs", s, k, '"', ""), ("ebs", s, k, ")", "("), ("title", s, k)]
    return out


def _r_dest(s):
    out = []
    for k in range(len(s) + 2):
        out += [("dest", s, k), ("nonangle", s, k)]
        if k >= len(s) or s[k] == "<" or k == 0:      # the caller's guard is `s[k] == "<"`; the others probe the edges
            out.append(("angle", s, k))
    return out


def _r_encode(s):
    return [("enc", s), ("quote", s), ("dest", s, 0), ("dest", "<" + s + ">", 0)]


def _r_label(s):
    out = []
    for k in range(len(s) + 2):
        out += [("label", s, k, True), ("label", s, k, False)]
    return out


def _r_norm(s):
    return [("norm", s)]


def _r_body(s):
    out = [("props", s, k) for k in range(len(s) + 2)]
    for k in range(len(s)):
        if s[k] == "(":                                # the caller's guard (look_for_link_formats)
            out += [("body", s, k), ("bodyrt", s, k)]
    out.append(("body", s, len(s)))                    # past the guard: the edge
    return out


def _r_lrdparts(s):
    out = []
    for k in range(len(s) + 2):
        out += [("xld", s, k, False), ("xld", s, k, True), ("xlt", s, k, False), ("xlt", s, k, True), ("vend", s, k)]
    i = 0
    while i < len(s) and s[i] in " \t":
        i += 1
    out += [("islrd", s, i, s[:i], False), ("islrd", s, i, s[:i], True), ("lrd", s, i, s[:i], False, False),
            ("lrd", s, i, s[:i], True, False)]
    return out


# family -> (alphabet, request builder, thorough max length, quick full length)
FAMILIES = {
    "collect": ("a>\\[]%&", _r_collect, 5, 4),
    "backslash": ("\\a!\n&<\"", _r_backslash, 6, 4),
    "charref": ("&#x10;gt", _r_charref, 6, 4),
    "bounded": ("'\"()\\a\n", _r_bounded, 6, 4),
    "dest": ("()<>\\ \na%", _r_dest, 6, 4),
    "encode": ("%&a2g+ \xe9_", _r_encode, 6, 4),
    "label": ("[]\\:a \n", _r_label, 6, 4),
    "norm": ("aA \t\n\xdf\u03a3b", _r_norm, 6, 4),
    "body": ("()<>\"'\\ \na", _r_body, 6, 4),
    "lrdparts": ("[]:\\ a\n\"<", _r_lrdparts, 5, 4),
}

# beyond the length bound: numeric limits, long forms, characters outside the alphabets
EXTRA = {
    "collect": [],
    "backslash": ["a\\", "\\\\\\", "\\\n", "a\\\nb", "\\&amp;", "&amp;\\&"],
    "charref": ["&#xD800;", "&#xDFFF;", "&#xD7FF;", "&#xE000;", "&#x10FFFF;", "&#x110000;", "&#xFFFFFF;", "&#xFFFFFFF;", "&#1114111;",
                "&#1114112;", "&#9999999;", "&#99999999;", "&#55296;", "&#X41;", "&#x41", "&#65;", "&#0;", "&#x0;", "&#00000;", "&amp;",
                "&AMP;", "&amp", "&nosuch;", "&ngE;", "&nvlt;", "&#;", "&#x;", "&;", "&#x1g;", "&#12a;", "a&amp;b&#65;c\\&lt;", "&#x000041;",
                "&#x0000041;", "&#0000065;", "&#00000065;", "&CounterClockwiseContourIntegral;", "&lt;&gt;&quot;"],
    "bounded": ["'a\\'b'", '"a\\"b"', "(a\\)b)", "(a(b)c)", "(a(b)", "(a))", "'a\nb'", "'a\\", '"&quot;<>"', "(\\(\\))", "'\\a'"],
    "dest": ["<a b>", "<a\\>b>", "<a<b>", "<a\nb>", "a(b)c", "a(b(c)d)e", "a(b", "a)b", "a\\(b", "a\\ b", "a\\\tb", "a\\\nb", "<>", "<",
             "/p%2", "/p%", "/p%2g", "/p%20", "/p%+1", "<% 1>", "/u&#xFFFFFF;", "/u&#xD800;", "<&#xD800;>", "/u&amp;x", "a\x7fb", "a\x1fb",
             "a\x00b", "/u%\uff11\uff12", "/u%\u0663\u0663", "\u00e9\u20ac\U0001F600", "<\u00e9 \u20ac>"],
    "encode": ["%", "%%", "%2", "%2%", "%ag", "%+1", "%-1", "% 1", "%1 ", "%0x", "%_1", "%1_", "%\uff11\uff12", "%\u0663a", "%\xa01", "%\x851",
               "%\x1c1", "a%20b", "a&b", "&", "a&", "\u20ac", "\U0001F600", "a b", "a\"b", "a<b>", "a\\b", "a[b]", "a{b}", "~_.-", "%e9", "%E9%"],
    "label": ["a\\]b]", "a\\[b]", "a[b]", "a]", "a]:", "\\", "a\\", "a\\\n]", "]" * 3, "a" * 999 + "]", "a" * 1000 + "]", "a" * 1001 + "]:"],
    "norm": ["  a  b  ", "A\tB\n C", "\u1e9e", "\xb5", "\u03a3\u03c2\u03c3", "\u0416", "\u0401", " ", "", "\x0b\x0c\r", "a\xa0b", "\xc0\xd7\xde\xdf\xff",
             "\u0391\u03a9\u03a2"],
    "body": ["(/u \"t\")", "( /u 't' )", "(</u> (t))", "(/u \"\")", "(/u '' )", "(/u ())", "(/u\n\"t\"\n)", "(<>)", "()", "( )", "(\n)", "(/u \"t\"x)",
             "(<a>\"t\")", "(<a>x)", "(/u \"t)", "(/u (a(b)c))", "(/u\\ \"t\")", "(a(b)c \"t\")", "(<b<c>)", "(\\))", "(/u \"a\\\"b\")", "(/u \"&amp;<\")",
             "(/u&#xFFFFFF;)", "(/u \"&#xD800;\")", "(/u\x0b\"t\"\x0c)", "(/u \"t\"  ", "(/u", "(<u", "(/u \"t\""],
    "lrdparts": [],
}


def lrd_lines():
    """The structured space of definition lines: (indent) [label]: ws dest ws title end."""
    labels = ["a", "a\\]", "a\\", " ", "", "A  b", "a[b", "\\"]
    ws1 = ["", " ", "\n", " \n "]
    dests = ["a", "<a>", "<>", "", "<a", "a(b)", "a(", "/p%2"]
    ws2 = ["", " ", "\n", "  \n"]
    titles = ["", '"t"', "'t'", "(t)", '"t', '""', "(t(u))", '"t\nu"']
    ends = ["", " ", "x", " x", "\n", " \n"]
    indents = ["", " ", "   ", "    "]
    for ind in indents:
        for lb in labels:
            for w1 in ws1:
                for d in dests:
                    for w2 in ws2:
                        for t in titles:
                            for e in ends:
                                yield ind + "[" + lb + "]:" + w1 + d + w2 + t + e


def _r_lrdline(s):
    i = 0
    while i < len(s) and s[i] in " \t":
        i += 1
    return [("lrd", s, i, s[:i], False, False), ("lrd", s, i, s[:i], True, False), ("lrd", s, i, s[:i], False, True),
            ("islrd", s, i, s[:i], False)]


FAMILIES["lrdline"] = (None, _r_lrdline, 0, 0)
EXTRA["lrdline"] = ["[a]: /u \"t\"", "[a\\", "[a\\\\", "  [a\\", "  [\\a\\", "[a]:\n/u\n\"t\"", "[a]: <u> 't' x", "[ ]: /u", "[\n]: /u", "[a]:/u\"t\"",
                    "[a]: /u \"t\" \n", "[a]: /u \n", "[a]: /u\n\n", "[A  B\tc]: /u", "[a]: /u&#xFFFFFF;", "[a]: /u \"&#xD800;\""]


def family_strings(fam, quick, rng):
    """(all strings of the family to test, size of the full space)."""
    alpha, _, tmax, qfull = FAMILIES[fam]
    if fam == "lrdline":
        full = list(lrd_lines())
        if quick:
            strs = rng.sample(full, 2500)
        else:
            strs = full
        return strs + EXTRA[fam], len(full) + len(EXTRA[fam])
    total = sum(len(alpha) ** n for n in range(tmax + 1)) + len(EXTRA[fam])
    if quick:
        strs = list(strings(alpha, qfull))
        # seeded sample of lengths qfull+1 .. tmax+1 of the SAME alphabet (tmax+1: one step past thorough's bound is not in
        # the closed space, so stop at tmax)
        for _ in range(1500):
            n = rng.randint(qfull + 1, tmax)
            strs.append("".join(rng.choice(alpha) for _ in range(n)))
    else:
        strs = list(strings(alpha, tmax))
    return strs + EXTRA[fam], total


def family_requests(fam, strs):
    build = FAMILIES[fam][1]
    out = []
    for s in strs:
        out += build(s)
    return out


TRIVIAL_PREFIXES = ("none", "-1", "0|", "none|none|-1", "err")


def _task(t):
    fam, strs = t
    reqs = family_requests(fam, strs)
    real_ans = [real(q) for q in reqs]
    model_ans = vlib.Driver("linkrecog").run([encode(q) for q in reqs])
    bad = [(q, r, m) for q, r, m in zip(reqs, real_ans, model_ans) if r != m]
    errs = {}
    for q, r in zip(reqs, real_ans):
        if r.startswith("err"):
            errs[(q[0], r)] = errs.get((q[0], r), 0) + 1
    accepted = sum(1 for q, r in zip(reqs, real_ans) if not r.startswith(TRIVIAL_PREFIXES))
    return fam, len(reqs), accepted, bad[:20], len(bad), errs


# ---------------------------------------------------------------- CPython tables the model carries
FOLD_MISMATCH_COUNT = 1398        # code points where str.casefold() differs from casefoldChar (all outside Latin-1 / the Greek and
FOLD_MISMATCH_SHA = "ba0526650dc279faeaf011cf62e0298a7c9e5e73"   # Cyrillic capitals): the model's documented scope (sha1 of the sorted list)


def table_check(quick, rng):
    """isNd / pyIsSpace / casefoldChar against CPython on code points; pyIntHex2Ok on all pairs of a probe alphabet."""
    if quick:
        cps = list(range(0x3100)) + [0xFF10, 0xFF19, 0x1D7CE, 0x1D7FF, 0x1FBF0, 0x1FBF9, 0x1E9E] + [rng.randrange(0x3100, 0x110000) for _ in range(8000)]
    else:
        cps = list(range(0x110000))
    cps = [c for c in cps if not 0xD800 <= c <= 0xDFFF]
    reqs = []
    for c in cps:
        ch = chr(c)
        reqs += [("isnd", ch), ("intspace", ch), ("fold", ch)]
    probe = "09afgAFG+-_ \t\nxX\x85\xa0\u0663\uff11\xe9\xb2\x1c\x00%&\u2028\u3000"
    reqs += [("inthex", a, b) for a in probe for b in probe]
    real_ans = [real(q) for q in reqs]
    model_ans = vlib.Driver("linkrecog").run([encode(q) for q in reqs])
    bad = [(q, r, m) for q, r, m in zip(reqs, real_ans, model_ans) if r != m and q[0] != "fold"]
    fold_bad = sorted(ord(q[1]) for q, r, m in zip(reqs, real_ans, model_ans) if r != m and q[0] == "fold")
    return {"requests": len(reqs), "mismatches": len(bad), "bad": bad[:20], "fold_out_of_scope": len(fold_bad),
            "fold_sha": hashlib.sha1(",".join(map(str, fold_bad)).encode()).hexdigest(), "fold_list": fold_bad,
            "unidata": unicodedata.unidata_version}


def fold_in_scope(s):
    """Strings the `norm` family may contain: `casefoldChar` is exact on them."""
    return all(ord(c) < 0x100 or 0x391 <= ord(c) <= 0x3A9 or 0x3B1 <= ord(c) <= 0x3C9 or 0x400 <= ord(c) <= 0x44F or ord(c) == 0x1E9E for c in s)


def run(ctx, quick):
    """Sweep every family; returns {family: {requests, accepted, mismatches, bad, space}} + "tables" + "seconds"."""
    t0 = time.time()
    impl()
    tasks, spaces = [], {}
    for fam in FAMILIES:
        strs, total = family_strings(fam, quick, ctx.rng)
        spaces[fam] = (len(strs), total)
        size = 1500 if fam in ("dest", "body", "bounded") else 3000
        tasks += [(fam, strs[k:k + size]) for k in range(0, len(strs), size)]
    with mp.get_context("fork").Pool(16) as pl:
        res = pl.map(_task, tasks, chunksize=1)
    stats = {}
    for fam, n, acc, bad, nbad, errs in res:
        s = stats.setdefault(fam, {"strings": spaces[fam][0], "space": spaces[fam][1], "requests": 0, "accepting_answers": 0,
                                   "mismatches": 0, "bad": [], "real_errors": {}})
        s["requests"] += n; s["accepting_answers"] += acc; s["mismatches"] += nbad; s["bad"] += bad
        for k, v in errs.items():
            key = "%s: %s" % k
            s["real_errors"][key] = s["real_errors"].get(key, 0) + v
    tab = table_check(quick, ctx.rng)
    fold_list = tab.pop("fold_list")
    if tab["mismatches"]:
        ctx.broken.append("correspondence linkrecog tables: %d disagreements with CPython, e.g. %r" % (tab["mismatches"], tab["bad"][:3]))
    if not quick and (tab["fold_out_of_scope"] != FOLD_MISMATCH_COUNT or (FOLD_MISMATCH_SHA and tab["fold_sha"] != FOLD_MISMATCH_SHA)):
        ctx.broken.append("correspondence linkrecog tables: casefold scope changed (%d code points, sha %s)" % (tab["fold_out_of_scope"], tab["fold_sha"]))
    if any(fold_in_scope(chr(c)) for c in fold_list):
        ctx.broken.append("correspondence linkrecog tables: casefoldChar differs from str.casefold inside its documented scope")
    stats["tables"] = tab
    for fam, s in stats.items():
        if fam != "tables" and s["mismatches"]:
            ctx.broken.append("correspondence linkrecog %s: %d disagreements, e.g. %r" % (fam, s["mismatches"], s["bad"][:2]))
    stats["seconds"] = round(time.time() - t0, 1)
    stats["total_requests"] = sum(s["requests"] for f, s in stats.items() if isinstance(s, dict) and "requests" in s)
    return stats


if __name__ == "__main__":
    import json, random, sys
    ctx = types.SimpleNamespace(rng=random.Random(int(sys.argv[2]) if len(sys.argv) > 2 else 1), broken=[])
    st = run(ctx, quick=(len(sys.argv) < 2 or sys.argv[1] != "thorough"))
    for fam, s in st.items():
        if isinstance(s, dict):
            s = dict(s)
            s["bad"] = [(list(q), r, m) for q, r, m in s.get("bad", [])][:6]
        print(fam, json.dumps(s, ensure_ascii=True, default=str)[:1800])
    print("broken:", ctx.broken)
