import json, jsonschema, glob, sys
m=json.load(open('/verif/MANIFEST.json')); jsonschema.validate(m, json.load(open('/root/.vp/MANIFEST.schema.json')))
sch=json.load(open('/root/.vp/EVIDENCE.schema.json'))
for f in sorted(glob.glob('/verif/evidence/*.json')):
    jsonschema.validate(json.load(open(f)), sch); print("valid", f)
print("manifest valid")
