"""Self-test of the linkrecog correspondence: in-process mutants of the REAL functions (source text of one function
edited, re-compiled and swapped in with setattr — /repo is never touched) must each produce disagreements with the Lean
model.  Run: /venv/bin/python tools/linkrecog_mutants.py   (≈ 15 s per mutant, quick tier)."""
import inspect, random, sys, textwrap, types
import vlib
import linkrecoglib as L

# (name, module path, class, private/public function name, old text, new text)
MUTANTS = [
    ("c01a %-lookahead past the end (the seeded c01a patch)", "pymarkdown.links.link_parse_helper", "LinkParseHelper", "__encode_link_destination",
     "                if len(hex_guess_characters) == 2:\n                    try:\n                        int(hex_guess_characters, 16)\n"
     "                        el_parts.extend([\"%\", hex_guess_characters])\n                        percent_index += 2\n"
     "                    except ValueError:\n                        el_parts.append(\"%25\")\n                else:\n                    el_parts.append(\"%25\")\n",
     "                try:\n                    int(hex_guess_characters, 16)\n                    el_parts.extend([\"%\", hex_guess_characters])\n"
     "                    percent_index += 2\n                except ValueError:\n                    el_parts.append(\"%25\")\n"),
    ("backslash at end of string consumes two", "pymarkdown.inline.inline_backslash_helper", "InlineBackslashHelper", "handle_inline_backslash",
     "inline_response.new_index >= len(inline_request.source_text)", "inline_response.new_index > len(inline_request.source_text)"),
    ("angle destination: closing > not consumed", "pymarkdown.links.link_parse_helper", "LinkParseHelper", "__parse_angle_link_destination",
     "            newer_index += 1\n        else:\n            newer_index = -1", "            newer_index += 0\n        else:\n            newer_index = -1"),
    ("non-angle destination: nesting not decremented", "pymarkdown.links.link_parse_helper", "LinkParseHelper", "__parse_non_angle_link_destination",
     "nesting_level -= 1", "nesting_level -= 0"),
    ("label: colon not consumed", "pymarkdown.links.link_parse_helper", "LinkParseHelper", "extract_link_label",
     "                return False, -1, None\n            new_index += 1\n", "                return False, -1, None\n            new_index += 0\n"),
    ("bounded string: off by one on success", "pymarkdown.inline.inline_helper", "InlineHelper", "extract_bounded_string",
     "return next_index + 1, \"\".join(extracted_parts)", "return next_index + 2, \"\".join(extracted_parts)"),
    ("numeric reference: 7 hex digits allowed", "pymarkdown.inline.inline_character_reference_helper", "InlineCharacterReferenceHelper",
     "__handle_numeric_character_reference_hex", "if 1 <= delta <= 6", "if 1 <= delta <= 7"),
    ("title white space not stored", "pymarkdown.links.link_parse_helper", "LinkParseHelper", "__parse_inline_link_properties",
     "                lhp.after_title_whitespace,\n            ) = ParserHelper.extract_ascii_whitespace_verified(source_text, newer_index)",
     "                _,\n            ) = ParserHelper.extract_ascii_whitespace_verified(source_text, newer_index)"),
    ("normalize: tabs not folded", "pymarkdown.links.link_parse_helper", "LinkParseHelper", "normalize_link_label",
     "Constants.non_space_ascii_whitespace,", "Constants.non_space_ascii_whitespace[1:],"),
    ("lrd end: trailing text accepted", "pymarkdown.links.link_reference_definition_parse_helper", "LinkReferenceDefinitionParseHelper",
     "__verify_link_definition_end", "if new_index < len(line_to_parse):", "if new_index + 1 < len(line_to_parse):"),
]


def apply(mod_path, cls_name, fn, old, new):
    mod = __import__(mod_path, fromlist=[cls_name])
    cls = getattr(mod, cls_name)
    attr = "_%s%s" % (cls_name, fn) if fn.startswith("__") else fn
    orig = cls.__dict__[attr]
    src = textwrap.dedent(inspect.getsource(orig.__func__))
    old_d, new_d = textwrap.dedent(" " * 4 + old) if False else old, new
    # the function source is indented by 4 inside the class; the patterns above are written as in the file
    src_in_file = inspect.getsource(orig.__func__)
    if old not in src_in_file:
        raise SystemExit("mutant pattern not found in %s.%s" % (cls_name, fn))
    mutated = textwrap.dedent(src_in_file.replace(old, new, 1))
    mutated = mutated.replace("@staticmethod\n", "", 1)
    # private names inside the body are written unmangled in the source: compile inside a class of the same name
    body = "class %s:\n%s" % (cls_name, textwrap.indent("@staticmethod\n" + mutated, "    "))
    ns = dict(mod.__dict__)
    exec(compile(body, mod.__file__ + "#mutant", "exec"), ns)
    newfn = ns[cls_name].__dict__[attr]
    # give the new function the ORIGINAL class in its globals so that `LinkParseHelper.__x` resolves to the real class
    f = newfn.__func__
    g = types.FunctionType(f.__code__, mod.__dict__, f.__name__, f.__defaults__, f.__closure__)
    g.__kwdefaults__ = f.__kwdefaults__
    setattr(cls, attr, staticmethod(g))
    return cls, attr, orig


def main():
    seed = int(sys.argv[1]) if len(sys.argv) > 1 else 1
    L.impl()
    results = []
    for name, mod_path, cls_name, fn, old, new in MUTANTS:
        cls, attr, orig = apply(mod_path, cls_name, fn, old, new)
        try:
            ctx = types.SimpleNamespace(rng=random.Random(seed), broken=[])
            st = L.run(ctx, quick=True)
            n = sum(s["mismatches"] for f, s in st.items() if isinstance(s, dict) and "mismatches" in s)
            fams = [f for f, s in st.items() if isinstance(s, dict) and s.get("mismatches")]
            first = next((s["bad"][0] for f, s in st.items() if isinstance(s, dict) and s.get("bad")), None)
            results.append((name, n, fams, first))
            print("%-55s %8d disagreements in %s; e.g. %r" % (name, n, fams, first))
        finally:
            setattr(cls, attr, orig)
    missed = [r[0] for r in results if r[1] == 0]
    print("caught %d of %d mutants; missed: %s" % (len(results) - len(missed), len(results), missed))
    return 1 if missed else 0


if __name__ == "__main__":
    sys.exit(main())
