"""Real side of two C02 building blocks (function level):

* `LeadingSpaces` — the per-line prefix store of the container tokens: REAL `UnorderedListStartMarkdownToken` /
  `OrderedListStartMarkdownToken` / `BlockQuoteMarkdownToken` objects, built with their constructors, are driven through
  sequences of their own methods (`add_leading_spaces`, `remove_last_leading_space`, `add_bleading_spaces`,
  `remove_last_bleading_space`, `calculate_next_bleading_space_part`, direct writes of `leading_text_index`) and through the
  regenerator's two look-up functions (`TransformContainers.__adjust`, `__apply_primary_transformation_adjust_container_line`,
  reached by name mangling); after every operation the returned value / raised exception and the complete store state are
  written in the format of the Lean driver `leading` (lean/Verif/Drv/LeafStore.lean).
* `f_fields` — per-leaf field splits: a one-line document (two lines for a setext underline / a closing fence) is parsed by the
  REAL parser, the tokens of the block pass are read before the inline pass rewrites the text token, and the fields the token
  constructors received are written in the format of the Lean driver `fields`, together with what `TransformToMarkdown`
  regenerates for the line.
"""
import itertools, multiprocessing as mp, signal
import vlib, implib

PREFIXES = ["", " ", "> ", ">", "   ", "\t"]
TABBED = "\t>"


def hx(s):
    return "=" + vlib.hexs(s)


# ------------------------------------------------------------------ operation alphabets
def _a(op, *fields):
    return ":".join([op] + [vlib.hexs(f) for f in fields])


LIST_OPS = [_a("A", p) for p in PREFIXES] + ["R", "J", "Q"]
BQ_CORE_OPS = [_a("L", p) for p in PREFIXES] + ["R", "N", "J", "Q"]
BQ_ALL_OPS = BQ_CORE_OPS + [_a("A", ""), _a("A", ">"), _a("S", ">"), _a("S", " "), _a("T", ">", TABBED), _a("U", ">", TABBED),
                            "P:-1", "P:0", "P:1", "O:0", "O:1", "I", "Z"]
BQ_MID_OPS = [_a("L", ">"), _a("L", ""), _a("A", ""), _a("S", ">"), _a("U", ">", TABBED), "R", "N", "P:-1", "O:1", "I", "Z", "Q"]

# (kind, alphabet, exact length): every shorter sequence is a prefix of one of these, and every operation of a request is compared
SPACES = [("list", LIST_OPS, 6), ("bq", BQ_CORE_OPS, 6), ("bq", BQ_MID_OPS, 5), ("bq", BQ_ALL_OPS, 4)]


def space_size(alpha, n):
    """number of distinct non-empty operation sequences of length <= n"""
    return sum(len(alpha) ** k for k in range(1, n + 1))


def all_requests(kind, alpha, n):
    for t in itertools.product(alpha, repeat=n):
        yield kind + "|" + ";".join(t)


def sample_requests(rng, kind, alpha, n, count):
    out = set()
    for k in range(1, min(n, 3) + 1):                     # everything short
        for t in itertools.product(alpha, repeat=k):
            out.add(kind + "|" + ";".join(t))
    while len(out) < count + sum(len(alpha) ** k for k in range(1, min(n, 3) + 1)) and len(out) < len(alpha) ** n:
        out.add(kind + "|" + ";".join(rng.choice(alpha) for _ in range(n)))
    return sorted(out)


# ------------------------------------------------------------------ real tokens
_R = {}


def _real():
    if not _R:
        from pymarkdown.general.position_marker import PositionMarker
        from pymarkdown.tokens.block_quote_markdown_token import BlockQuoteMarkdownToken
        from pymarkdown.tokens.unordered_list_start_markdown_token import UnorderedListStartMarkdownToken
        from pymarkdown.tokens.ordered_list_start_markdown_token import OrderedListStartMarkdownToken
        from pymarkdown.transform_markdown.transform_containers import TransformContainers
        _R.update(PM=PositionMarker, BQ=BlockQuoteMarkdownToken, UL=UnorderedListStartMarkdownToken, OL=OrderedListStartMarkdownToken,
                  adjust=getattr(TransformContainers, "_TransformContainers__adjust"),
                  primary=getattr(TransformContainers, "_TransformContainers__apply_primary_transformation_adjust_container_line"))
    return _R


def new_list(ordered=False):
    R = _real()
    pm = R["PM"](1, 0, "1. a" if ordered else "- a")
    if ordered:
        return R["OL"](".", "1", 3, -1, "", None, pm)
    return R["UL"]("-", 2, -1, "", None, pm)


def new_bq():
    R = _real()
    return R["BQ"]("", R["PM"](1, 0, "> a"))


def _exc(e):
    return {"AssertionError": "err=assertion", "IndexError": "err=index", "KeyError": "err=key"}.get(type(e).__name__, "err=" + type(e).__name__)


def list_state(t, k):
    ls = t.leading_spaces
    return ("N" if ls is None else "S" + hx(ls)) + f",{k}"


def bq_state(t, k):
    tb = "/".join(f"{key}{hx(v)}" for key, v in t.tabbed_bleading_spaces.items())
    return f"{hx(t.bleading_spaces)},{t.leading_text_index},{k},{tb},{1 if t.weird_kludge_five else 0}"


def run_list(ops, ordered=False):
    R = _real()
    t, k, out = new_list(ordered), 0, []
    for op in ops:
        f = op.split(":")
        try:
            if f[0] == "A":
                t.add_leading_spaces(vlib.unhex(f[1])); r = "ok"
            elif f[0] == "R":
                r = "ok" + hx(t.remove_last_leading_space())
            elif f[0] == "J":
                idx = [k]
                r = "ok" + hx(R["adjust"](0, [t], idx, "", False, True)); k = idx[0]
            elif f[0] == "Q":
                line, did = R["primary"]([t], k, "")
                # a list token on top never sets the flag; "no prefix" and "empty prefix" are the same return value
                r = "p" + hx(line) + ("!" if did else ""); k += 1
            else:
                r = "bad-op"
        except Exception as e:
            r = _exc(e)
        out.append(r + "@" + list_state(t, k))
    return ";".join(out)


def run_bq(ops):
    R = _real()
    t, k, out = new_bq(), 0, []
    for op in ops:
        f = op.split(":")
        try:
            if f[0] == "A":
                t.add_bleading_spaces(vlib.unhex(f[1])); r = "ok"
            elif f[0] == "L":
                t.add_bleading_spaces(vlib.unhex(f[1])); t.leading_text_index += 1; r = "ok"
            elif f[0] == "S":
                t.add_bleading_spaces(vlib.unhex(f[1]), True); r = "ok"
            elif f[0] == "T":
                t.add_bleading_spaces(vlib.unhex(f[1]), False, vlib.unhex(f[2])); r = "ok"
            elif f[0] == "U":
                t.add_bleading_spaces(vlib.unhex(f[1]), False, vlib.unhex(f[2])); t.leading_text_index += 1; r = "ok"
            elif f[0] == "R":
                r = "ok" + hx(t.remove_last_bleading_space())
            elif f[0] == "N":
                r = "ok" + hx(t.calculate_next_bleading_space_part())
            elif f[0] == "P":
                r = "ok" + hx(t.calculate_next_bleading_space_part(increment_index=False, delta=int(f[1])))
            elif f[0] == "O":
                r = "ok" + hx(t.calculate_next_bleading_space_part(increment_index=False, delta=int(f[1]), allow_overflow=True))
            elif f[0] == "I":
                t.leading_text_index += 1; r = "ok"
            elif f[0] == "Z":
                t.leading_text_index = 0; r = "ok"
            elif f[0] == "J":
                idx = [k]
                r = "ok" + hx(R["adjust"](0, [t], idx, "", False, True)); k = idx[0]
            elif f[0] == "Q":
                line, did = R["primary"]([t], k, "")
                r = ("p" + hx(line)) if did else ("none" if line == "" else "bad-return" + hx(line)); k += 1
            else:
                r = "bad-op"
        except Exception as e:
            r = _exc(e)
        out.append(r + "@" + bq_state(t, k))
    return ";".join(out)


def real_leading(req):
    kind, ops = req.split("|")
    ops = ops.split(";") if ops else []
    if kind == "list":
        return run_list(ops, ordered=(sum(map(len, ops)) % 2 == 1))
    return run_bq(ops)


def canon_model_leading(req, ans):
    """the list variant of the primary look-up returns the line itself: `no prefix` and `empty prefix` coincide"""
    if not req.startswith("list|"):
        return ans
    return ";".join(("p=" + x[len("none"):]) if x.startswith("none@") else x for x in ans.split(";"))


def _work_leading(chunk):
    return [(r, real_leading(r)) for r in chunk]


def real_storeall(kind, ps):
    """storeAll / consumeAll with the real objects: record one part per line, read back with the real look-up"""
    R = _real()
    if kind == "list":
        t = new_list()
        for p in ps:
            t.add_leading_spaces(p)
        n = 0 if t.leading_spaces is None else len(t.leading_spaces.split("\n"))
        idx, got = [0], []
        try:
            for _ in range(n):
                got.append(R["adjust"](0, [t], idx, "", False, True))
            res = ";".join(hx(g) for g in got)
        except Exception as e:
            res = _exc(e)
        return list_state(t, 0) + "|" + res
    t = new_bq()
    for p in ps:
        t.add_bleading_spaces(p); t.leading_text_index += 1
    st = bq_state(t, 0)
    import copy
    c = copy.deepcopy(t); c.leading_text_index = 0          # TransformBlockQuote.__rehydrate_block_quote_start
    got = []
    try:
        for _ in range(len(c.bleading_spaces.split("\n"))):
            got.append(c.calculate_next_bleading_space_part())
        res = ";".join(hx(g) for g in got)
    except Exception as e:
        res = _exc(e)
    return st + "|" + res


# ------------------------------------------------------------------ leaf fields
_SNAP = []
_INSTALLED = []


def _extract(tokens):
    out = []
    for t in tokens:
        n = t.token_name
        if t.is_end_token:
            out.append(("end", n, t.extracted_whitespace, t.extra_end_data, t.was_forced))
        elif n == "atx":
            out.append(("atx", t.extracted_whitespace, t.hash_count, t.remove_trailing_count))
        elif n == "text":
            out.append(("text", t.extracted_whitespace, t.token_text))
        elif n == "tbreak":
            out.append(("tbreak", t.extracted_whitespace, t._ThematicBreakMarkdownToken__start_character, t.rest_of_line))
        elif n == "fcode-block":
            out.append(("fcode", t.extracted_whitespace, t.fence_character, t.fence_count, t.extracted_whitespace_before_info_string,
                        t.pre_extracted_text or t.extracted_text, t.pre_text_after_extracted_text or t.text_after_extracted_text))
        elif n == "setext":
            out.append(("setext", t.heading_character, t.heading_character_count))
        elif n == "BLANK":
            out.append(("blank", t.extracted_whitespace))
        else:
            out.append((n,))
    return out


def install_snapshot():
    """record the tokens of the block pass (before coalescing and the inline pass) of the cached in-process parser"""
    tk = implib.parser()
    if _INSTALLED:
        return tk
    orig = tk._TokenizedMarkdown__parse_blocks_pass

    def wrapped(*a, **k):
        r = orig(*a, **k)
        _SNAP[:] = _extract(r)
        return r
    tk._TokenizedMarkdown__parse_blocks_pass = wrapped
    _INSTALLED.append(orig)
    return tk


def uninstall_snapshot():
    if _INSTALLED:
        tk = implib.parser()
        try:
            del tk._TokenizedMarkdown__parse_blocks_pass
        except AttributeError:
            pass
        _INSTALLED.clear()


class _Timeout(BaseException):
    pass


def _alarm(*_):
    raise _Timeout()


def _parse(doc):
    """-> (block-pass snapshot, regenerated Markdown | 'REGEN:<exc>') or ('PARSE', exc name)"""
    from pymarkdown.transform_markdown.transform_to_markdown import TransformToMarkdown
    tk = install_snapshot()
    signal.setitimer(signal.ITIMER_PROF, 3.0)
    try:
        try:
            toks = tk.transform(doc, show_debug=False)
        except _Timeout:
            return ("PARSE", "hang")
        except Exception as e:
            return ("PARSE", type(e).__name__)
        snap = list(_SNAP)
        try:
            regen = TransformToMarkdown().transform(toks)
        except _Timeout:
            regen = None
        except Exception as e:
            regen = None
        return (snap, regen)
    finally:
        signal.setitimer(signal.ITIMER_PROF, 0)


def _R_of(regen, head):
    if regen is None:
        return "R!regen-error"
    if not regen.startswith(head):
        return "R!prefix" + hx(regen)
    return "R" + hx(regen[len(head):])


def real_fields(req):
    """answer in the format of the `fields` driver; 'not-tokenized <exc>' when the parser itself fails (C01's)"""
    f = req.split("|")
    kind, line = f[0], vlib.unhex(f[1])
    head = ""
    if kind == "setext":
        head = "a\n"
    elif kind == "fclose":
        head = vlib.unhex(f[2]) * int(f[3]) + "\n"
    r = _parse(head + line)
    if r[0] == "PARSE":
        return "not-tokenized " + r[1]
    b, regen = r
    R = _R_of(regen, head)
    if kind == "atx":
        if len(b) >= 3 and b[0][0] == "atx" and b[1][0] == "text" and b[2][0] == "end":
            a, t, e = b[0], b[1], b[2]
            return f"atx|{hx(a[1])}|{a[2]}|{hx(t[1])}|{hx(t[2])}|{hx(e[3])}|{a[3]}|{hx(e[2])}|{R}"
        return "none"
    if kind == "tb":
        if b and b[0][0] == "tbreak":
            return f"tb|{hx(b[0][1])}|{ord(b[0][2])}|{hx(b[0][3])}|{R}"
        return "none"
    if kind == "fopen":
        if b and b[0][0] == "fcode":
            x = b[0]
            return f"fopen|{hx(x[1])}|{ord(x[2])}|{x[3]}|{hx(x[4])}|{hx(x[5])}|{hx(x[6])}|{R}"
        return "none"
    if kind == "fclose":
        # an explicit (not forced) end token directly after the opening fence
        if len(b) >= 2 and b[0][0] == "fcode" and b[1][0] == "end" and b[1][1] == "end-fcode-block" and not b[1][4]:
            e = b[1]
            sp, cnt = e[3].split(":")[0], e[3].split(":")[1]
            return f"fclose|{hx(e[2])}|{cnt}|{hx(sp)}|{R}"
        return "none"
    if kind == "setext":
        if b and b[0][0] == "setext" and b[-1][0] == "end" and b[-1][1] == "end-setext":
            e = b[-1]
            return f"setext|{hx(e[2])}|{ord(b[0][1])}|{b[0][2]}|{hx(e[3])}|{R}"
        return "none"
    if kind == "blank":
        if len(b) == 1 and b[0][0] == "blank":
            return f"blank|{hx(b[0][1])}|{R}"
        return "none"
    return "bad-op"


def _init_fields_worker():
    signal.signal(signal.SIGPROF, _alarm)
    install_snapshot()


def _work_fields(chunk):
    return [(r, real_fields(r)) for r in chunk]


# the recogniser alphabets of tools/recoglib.py (a line is one line: no "\n")
import recoglib as _RG


def _alpha(fam):
    return _RG.FAMILIES[fam][0].replace("\n", "")


FIELD_FAMILIES = {
    "atx": (_alpha("atx"), lambda s: ["atx|" + vlib.hexs(s)]),
    "tb": (_alpha("thematic"), lambda s: ["tb|" + vlib.hexs(s)]),
    "fopen": (_alpha("fence"), lambda s: ["fopen|" + vlib.hexs(s)]),
    "fclose": (_alpha("fence"), lambda s: [f"fclose|{vlib.hexs(s)}|{vlib.hexs(c)}|{n}" for c in "`~" for n in (3, 4)]),
    "setext": (_alpha("setext"), lambda s: ["setext|" + vlib.hexs(s)]),
    "blank": (_alpha("blank"), lambda s: ["blank|" + vlib.hexs(s)]),
}
FIELD_EXTRA = {
    "atx": ["####### h", "###### h", "######", "# a #", "# a ##  ", "# a#", "#\ta\t#\t", "## ", "# #", "#  # #", "  ## a b ##  ", "# a \\#", "# a#  ",
            "#  a  ##  \t", "   # a", "    # a", "# &amp; #", "# a ########## "],
    "tb": ["    ---", "   ---", "\t---", " \t---", "- - - -", "-- -", "--  -  ", "*\t*\t*", "_ _ _ _ _", "***  ***", "  *  *  *  "],
    "fopen": ["``` a`b", "~~~ a`b", "````", "~~~~  ", "``` py x  ", "```\x0c", "```\x0ca", "``` a\x0c", "``` a\x0cb", "```  \x0b ", "``` a\\*b", "``` &amp; x",
              "```\\", "  ~~~~\tq`", "```    ", "~~~\t"],
    "fclose": ["````", "~~~~  ", "   ```", "    ```", "``` a", "```\t", "  ~~~~~  "],
    "setext": ["===   ", "=== =", " ==  ", "---\t", "   -", "    ="],
    "blank": ["", "   ", "\t", " \x0c ", "\x0b", "\xa0"],
}


def field_requests(fam, strings):
    build = FIELD_FAMILIES[fam][1]
    out = []
    for s in strings:
        out += build(s)
    return out


def pool_map(fn, items, chunk=400, procs=16, init=None):
    items = list(items)
    if not items:
        return []
    chunks = [items[i:i + chunk] for i in range(0, len(items), chunk)]
    with mp.Pool(min(procs, max(1, len(chunks))), initializer=init) as p:
        out = []
        for part in p.imap(fn, chunks):
            out += part
    return out


# ------------------------------------------------------------------ the store at work: operations recorded from real parses
class Tracer:
    """Records every store operation the REAL parser and regenerator perform on the container tokens of a document:
    the methods are wrapped at class level, `leading_text_index` becomes a recording property.  An object seen for the first time
    (a fresh token, or a `copy.deepcopy` of one) is adopted with the state it has (`X` operation); after every operation the
    returned value / exception and the complete state are written down in the `leading` driver's format."""
    def __init__(self):
        self.depth, self.objs, self.logs, self.saved = 0, {}, {}, None

    def _log(self, obj, kind):
        i = id(obj)
        if i not in self.objs:
            self.objs[i] = obj
            if kind == "bq":
                tb = "/".join(f"{k}={vlib.hexs(v)}" for k, v in obj.tabbed_bleading_spaces.items())
                first = f"X:{vlib.hexs(obj.bleading_spaces)}:{obj.leading_text_index}:{1 if getattr(obj, 'weird_kludge_five', False) else 0}:{tb}"
                self.logs[i] = (kind, [(first, "ok@" + bq_state(obj, 0))])
            else:
                ls = obj.leading_spaces
                first = "X:N" if ls is None else "X:S:" + vlib.hexs(ls)
                self.logs[i] = (kind, [(first, "ok@" + list_state(obj, 0))])
        return self.logs[i][1]

    def _wrap(self, cls, name, kind, enc):
        orig = getattr(cls, name)
        tr = self

        def wrapped(obj, *a, **k):
            if tr.depth:
                return orig(obj, *a, **k)
            log = tr._log(obj, kind)
            tr.depth += 1
            try:
                try:
                    r = orig(obj, *a, **k)
                    res = "ok" if r is None else "ok" + hx(r)
                except Exception as e:
                    log.append((enc(*a, **k), _exc(e) + "@" + (bq_state(obj, 0) if kind == "bq" else list_state(obj, 0))))
                    raise
            finally:
                tr.depth -= 1
            log.append((enc(*a, **k), res + "@" + (bq_state(obj, 0) if kind == "bq" else list_state(obj, 0))))
            return r
        setattr(cls, name, wrapped)
        return orig

    def install(self):
        R = _real()
        from pymarkdown.tokens.list_start_markdown_token import ListStartMarkdownToken as LT
        BQ = R["BQ"]
        tr = self

        def enc_add(ws, skip_adding_newline=False, tabbed_leading_spaces=None):
            if skip_adding_newline:
                return "S:" + vlib.hexs(ws)
            if tabbed_leading_spaces:
                return f"T:{vlib.hexs(ws)}:{vlib.hexs(tabbed_leading_spaces)}"
            return "A:" + vlib.hexs(ws)

        def enc_next(increment_index=True, delta=0, allow_overflow=False):
            return f"C:{1 if increment_index else 0}:{delta}:{1 if allow_overflow else 0}"
        self.saved = [(BQ, "add_bleading_spaces", self._wrap(BQ, "add_bleading_spaces", "bq", enc_add)),
                      (BQ, "remove_last_bleading_space", self._wrap(BQ, "remove_last_bleading_space", "bq", lambda: "R")),
                      (BQ, "calculate_next_bleading_space_part", self._wrap(BQ, "calculate_next_bleading_space_part", "bq", enc_next)),
                      (LT, "add_leading_spaces", self._wrap(LT, "add_leading_spaces", "list", lambda ws: "A:" + vlib.hexs(ws))),
                      (LT, "remove_last_leading_space", self._wrap(LT, "remove_last_leading_space", "list", lambda: "R"))]

        def _get(obj):
            return obj.__dict__["_lti"]

        def _set(obj, v):
            d = obj.__dict__
            if tr.depth == 0 and "_lti" in d:
                log = tr._log(obj, "bq")
                d["_lti"] = v
                log.append((f"W:{v}", "ok@" + bq_state(obj, 0)))
            else:
                d["_lti"] = v
        BQ.leading_text_index = property(_get, _set)

    def uninstall(self):
        if self.saved:
            for cls, name, orig in self.saved:
                setattr(cls, name, orig)
            del _real()["BQ"].leading_text_index
            self.saved = None

    def reset(self):
        self.objs, self.logs, self.depth = {}, {}, 0

    def requests(self):
        """-> [(request, real answer)] one per traced object that saw at least one operation"""
        out = []
        for kind, log in self.logs.values():
            if len(log) > 1:
                out.append((kind + "|" + ";".join(op for op, _ in log), ";".join(r for _, r in log)))
        return out


_TR = []


def _init_trace_worker():
    signal.signal(signal.SIGPROF, _alarm)
    implib.parser()
    if not _TR:
        t = Tracer(); t.install(); _TR.append(t)


def trace_doc(doc):
    """parse + regenerate `doc` with the tracer on -> [(request, real answer)]"""
    from pymarkdown.transform_markdown.transform_to_markdown import TransformToMarkdown
    tr = _TR[0]
    tr.reset()
    tk = implib.parser()
    signal.setitimer(signal.ITIMER_PROF, 3.0)
    try:
        try:
            toks = tk.transform(doc, show_debug=False)
            TransformToMarkdown().transform(toks)
        except _Timeout:
            pass
        except Exception:
            pass                               # the operations up to the failure are still real operations
    finally:
        signal.setitimer(signal.ITIMER_PROF, 0)
        tr.depth = 0
    return tr.requests()


def _work_trace(chunk):
    out = []
    for d in chunk:
        out.append((d, trace_doc(d)))
    return out
