"""Shared machinery for ./check: Lean build/audit, model driver, evidence, findings, replay."""
import contextlib, fcntl, hashlib, io, json, os, random, re, subprocess, sys, time, traceback

ROOT = os.path.dirname(os.path.dirname(os.path.abspath(__file__)))
LEAN = os.path.join(ROOT, "lean")
REPO = os.environ.get("VERIF_REPO", "/repo")
DRV = os.path.join(LEAN, ".lake", "build", "bin", "verifdrv")
ALLOWED_AXIOMS = {"propext", "Classical.choice", "Quot.sound"}
FORBIDDEN = re.compile(r"\bsorry\b|\badmit\b|^axiom |native_decide|bv_decide|implemented_by|\bunsafe |maxHeartbeats 0", re.M)

if REPO not in sys.path:
    sys.path.insert(0, REPO)


class MachineryError(Exception):
    """The checking machinery itself failed (exit 2, never a VIOLATION)."""


# ---------------------------------------------------------------- Lean side
@contextlib.contextmanager
def build_lock():
    os.makedirs(os.path.join(LEAN, ".lake"), exist_ok=True)
    with open(os.path.join(LEAN, ".lake", "verif.lock"), "w") as fh:
        fcntl.flock(fh, fcntl.LOCK_EX)
        try:
            yield
        finally:
            fcntl.flock(fh, fcntl.LOCK_UN)


def write_if_changed(path, content):
    try:
        if open(path, encoding="utf-8").read() == content:
            return False
    except FileNotFoundError:
        pass
    os.makedirs(os.path.dirname(path), exist_ok=True)
    tmp = path + ".tmp%d" % os.getpid()
    with open(tmp, "w", encoding="utf-8") as fh:
        fh.write(content)
    os.replace(tmp, path)
    return True


def translate(names):
    """Regenerate the Verif/Gen modules `names` from /repo's working tree.
    Returns {name: None | error-string}."""
    sys.path.insert(0, os.path.join(ROOT, "tools", "translate"))
    res = {}
    for name in names:
        mod = __import__(name)
        try:
            text = mod.render(REPO)
            write_if_changed(os.path.join(LEAN, "Verif", "Gen", mod.TARGET if hasattr(mod, "TARGET") else _camel(name) + ".lean"), text)
            res[name] = None
        except Exception as e:  # TranslateError or anything else: broken tie
            res[name] = f"{type(e).__name__}: {e}"
    return res


def _camel(s):
    return "".join(w.capitalize() for w in s.split("_"))


def lake_build(targets):
    """lake build; returns (ok, log)."""
    p = subprocess.run(["lake", "build"] + list(targets), cwd=LEAN, capture_output=True, text=True)
    return p.returncode == 0, p.stdout + p.stderr


AUDIT_TMPL = """import Lean
import {mod}
open Lean Elab Command in
run_cmd do
  let env ← getEnv
  let some idx := env.getModuleIdx? `{mod} | throwError "no module"
  let names := env.header.moduleData[idx.toNat]!.constNames
  for n in names do
    if n.isInternal then continue
    if let some (.thmInfo _) := env.find? n then
      let axs ← liftCoreM (collectAxioms n)
      IO.println s!"AUDIT {{n}} {{axs.toList}}"
"""


def _strip_comments(text):
    text = re.sub(r"/-.*?-/", "", text, flags=re.S)
    return re.sub(r"--.*", "", text)


def forbidden_tokens():
    hits = []
    for d, _, fs in os.walk(os.path.join(LEAN, "Verif")):
        for f in fs:
            if f.endswith(".lean"):
                p = os.path.join(d, f)
                for m in FORBIDDEN.finditer(_strip_comments(open(p, encoding="utf-8").read())):
                    hits.append(f"{os.path.relpath(p, LEAN)}: {m.group(0).strip()}")
    p = os.path.join(LEAN, "Main.lean")
    for m in FORBIDDEN.finditer(_strip_comments(open(p, encoding="utf-8").read())):
        hits.append(f"Main.lean: {m.group(0).strip()}")
    return hits


def audit(module):
    """Returns {theorem: [axioms]} for every theorem declared in `module`.  Cached on the hash of the compiled olean."""
    rel = module.replace(".", "/")
    olean = os.path.join(LEAN, ".lake", "build", "lib", "lean", rel + ".olean")
    if not os.path.exists(olean):
        raise MachineryError(f"{olean} missing")
    h = hashlib.sha256(open(olean, "rb").read()).hexdigest()
    cdir = os.path.join(LEAN, ".lake", "audit")
    os.makedirs(cdir, exist_ok=True)
    cpath = os.path.join(cdir, module + ".json")
    try:
        c = json.load(open(cpath))
        if c["hash"] == h and c.get("v") == 2:
            return c["thms"]
    except Exception:
        pass
    src = os.path.join(cdir, module + ".lean")
    with open(src, "w") as fh:
        fh.write(AUDIT_TMPL.format(mod=module))
    p = subprocess.run(["lake", "env", "lean", src], cwd=LEAN, capture_output=True, text=True)
    if p.returncode != 0:
        raise MachineryError("audit failed: " + p.stdout + p.stderr)
    thms = {}
    for line in p.stdout.splitlines():
        m = re.match(r"AUDIT (\S+) \[(.*)\]$", line)
        # the template lists only constants DECLARED in this module, so every theorem of a Props file counts whatever namespace it is
        # stated in (several builder-written Props files state their theorems in the model's namespace)
        if m:
            thms[m.group(1)] = [a.strip() for a in m.group(2).split(",") if a.strip()]
    json.dump({"hash": h, "v": 2, "thms": thms}, open(cpath, "w"))
    return thms


def leanchecker(modules):
    p = subprocess.run(["lake", "env", "leanchecker"] + list(modules), cwd=LEAN, capture_output=True, text=True)
    return p.returncode == 0, (p.stdout + p.stderr)[-2000:]


def claim_tool(tid, name):
    """sys.monitoring has six tool ids and the tie libraries of one check run one after the other in one process (and again after an
    escalation): take the id for `name`, evicting a previous user (its callbacks and events go with free_tool_id).  Returns False when
    the id is already held under this name (the caller's registrations are still in place)."""
    mon = sys.monitoring
    cur = mon.get_tool(tid)
    if cur == name:
        return False
    if cur is not None:
        mon.free_tool_id(tid)
    mon.use_tool_id(tid, name)
    return True


class Driver:
    """verifdrv <model>: one request line in, one answer line out (batch)."""

    def __init__(self, model):
        self.model = model

    def run(self, lines):
        if not lines:
            return []
        for _ in range(90):          # another check may be re-linking the driver right now (build_lock): wait for it, up to 3 min
            if os.path.exists(DRV):
                break
            time.sleep(2)
        else:
            raise MachineryError("verifdrv not built")
        data = "\n".join(lines) + "\n"
        p = subprocess.run([DRV, self.model], input=data.encode("utf-8"), capture_output=True)
        if p.returncode != 0:
            raise MachineryError(f"verifdrv {self.model} exit {p.returncode}: {p.stderr.decode()[-500:]}")
        out = p.stdout.decode("utf-8").split("\n")
        if out and out[-1] == "":
            out.pop()
        if len(out) != len(lines):
            raise MachineryError(f"verifdrv {self.model}: {len(lines)} requests, {len(out)} answers")
        return out


def hexs(s):
    return " ".join(format(ord(c), "x") for c in s)


def unhex(s):
    return "".join(chr(int(w, 16)) for w in s.split())


# ---------------------------------------------------------------- findings
def load_findings(prop):
    path = os.path.join(ROOT, "known_findings.json")
    try:
        data = json.load(open(path, encoding="utf-8"))
    except FileNotFoundError:
        return []
    return [e for e in data.get("findings", []) if e.get("property") == prop and e.get("kind") == "finding"]


class InputBaseline:
    """Input-level known findings: findings/<prop>.inputs.json, committed, never written by a check.
    Each entry identifies one failing input exactly (sha1 of config + document) together with the signature of
    what fails on it; a different input, or a different failure on a listed input, is not absorbed."""

    def __init__(self, prop):
        self.path = os.path.join(ROOT, "findings", prop + ".inputs.json")
        try:
            data = json.load(open(self.path, encoding="utf-8"))
        except FileNotFoundError:
            data = {"entries": []}
        self.index = {}
        for e in data.get("entries", []):
            self.index.setdefault(e["sha"], set()).add(e["signature"])
        self.absorbed = {}

    @staticmethod
    def key(config, doc):
        return hashlib.sha1((config + "\0" + doc).encode("utf-8", "surrogatepass")).hexdigest()

    def absorbs(self, config, doc, signature):
        if signature in self.index.get(self.key(config, doc), ()):
            self.absorbed[signature] = self.absorbed.get(signature, 0) + 1
            return True
        return False


def collect_failure(prop, config, doc, signature):
    """Development aid (tools/mkbaseline.py): with VERIF_COLLECT=<file> every failure a sweep sees is appended there."""
    path = os.environ.get("VERIF_COLLECT")
    if path:
        with open(path, "a", encoding="utf-8") as fh:
            fh.write(json.dumps({"property": prop, "config": config, "doc": doc, "signature": signature}) + "\n")


# ---------------------------------------------------------------- check context
class Ctx:
    def __init__(self, prop, tier, seed):
        self.prop, self.tier, self.seed = prop, tier, seed
        self.rng = random.Random(seed)
        self.t0 = time.time()
        self.violations = []      # (replay path, tag)
        self.known = {}           # finding id -> count
        self.findings = load_findings(prop)
        self.broken = []          # names of theorems / correspondences that no longer check
        self.coverage = {}
        self.assumptions = []
        self.level = "proof"
        self.samples = []
        self.counts = {}
        self.lean = {}

    def quick(self):
        return self.tier == "quick"

    def block_quick(self, sources):
        """Depth of a function-level building block.  The block's tie is about specific source files: when one of them differs from
        the validated tree (tools/srcpin.py) the complete space is run even in the quick tier (a targeted escalation, 1-4 min); when
        none does, a quick run that was escalated to the thorough document spaces keeps the block at its seeded sample — its
        functions did not change.  An explicit `--tier thorough` always runs the complete space."""
        import fnmatch
        if os.environ.get("VERIF_BLOCK_TIER") == "quick":        # tools/mkbaseline.py: only the document-level failures are collected
            return True
        if "_changed" not in self.__dict__:
            try:
                import srcpin
                self._changed = srcpin.changed() or []
            except Exception:
                self._changed = []
        if any(fnmatch.fnmatch(f, pat) for f in self._changed for pat in sources):
            self.__dict__.setdefault("blocks_escalated", []).append(sorted(sources)[0])
            return False
        return self.quick() or bool(getattr(self, "escalated_from_quick", None))

    def block(self, libname, key, sources=()):
        """Run one function-level building block (a tie library tools/<libname>.py with run(ctx, quick) -> coverage dict).
        Its coverage goes to evidence coverage.building_blocks[key]; correspondence failures are appended to ctx.broken by the
        library; returns (disagreeing inputs, failing inputs of the real code) for the caller's failing-input search."""
        import importlib
        t = time.time()
        lib = importlib.import_module(libname)
        q = self.block_quick(sources)
        cov = dict(lib.run(self, q))
        cov["tier_run"] = "sample" if q else "complete space"
        dis, fi = cov.pop("disagreements", []), cov.pop("failing_inputs", [])
        cov["disagreements"], cov["real_code_failing_inputs"], cov["wall_s"] = len(dis), len(fi), round(time.time() - t, 1)
        self.__dict__.setdefault("blocks", {})[key] = cov
        return dis, fi

    # -- reporting ---------------------------------------------------------
    def match_finding(self, case, symptom):
        """A finding matches by exact `input` (any JSON value) and `symptom` class,
        or by a named footprint predicate evaluated by the property module."""
        for f in self.findings:
            if f.get("symptom") != symptom:
                continue
            if "input" in f and f["input"] == case:
                return f
            m = f.get("match")
            if isinstance(m, dict) and isinstance(case, dict) and all(case.get(k) == v for k, v in m.items()):
                return f
        return None

    def known_finding(self, f, what=None):
        fid = f["id"]
        self.known[fid] = self.known.get(fid, 0) + 1
        if self.known[fid] == 1:
            print(f"KNOWN-FINDING: property={self.prop} {fid}: {what or f.get('what', '')}")

    def violation(self, payload, no_input=False):
        """Write a replay file and print the VIOLATION line."""
        payload = dict(payload)
        payload.setdefault("property", self.prop)
        payload["kind"] = "no-failing-input-found" if no_input else "failing-input"
        payload["seed"], payload["tier"] = self.seed, self.tier
        payload["broken"] = self.broken
        blob = json.dumps(payload, sort_keys=True, ensure_ascii=True, default=str)
        h = hashlib.sha256(blob.encode()).hexdigest()[:16]
        d = os.path.join(ROOT, "replays", self.prop)
        os.makedirs(d, exist_ok=True)
        path = os.path.join(d, h + ".json")
        with open(path, "w") as fh:
            json.dump(payload, fh, indent=1, sort_keys=True, default=str)
        rel = os.path.relpath(path, ROOT)
        tail = " no-failing-input-found" if no_input else ""
        print(f"VIOLATION property={self.prop} replay={rel}{tail}")
        self.violations.append(rel)
        if not no_input:
            self.concrete = getattr(self, "concrete", 0) + 1
        return rel

    def report(self, case, symptom, payload):
        """A failing input was found: known finding or violation."""
        f = self.match_finding(case, symptom)
        if f:
            self.known_finding(f)
            return False
        if len(self.violations) < 5:
            p = dict(payload); p["input"] = case; p["symptom"] = symptom
            self.violation(p)
        else:
            self.violations.append("(suppressed)")
        return True

    # -- lean ----------------------------------------------------------------
    def model_map_stage(self):
        """tools/modelmap.json names every Python function whose logic a Lean definition mirrors.  Resolve each entry of this property against the
        CURRENT source (a renamed / removed function is a broken tie) and record what share of the package is inside a model."""
        try:
            import modelmap
            mp = os.path.join(ROOT, "tools", "modelmap.json")
            if not os.path.exists(mp):
                return
            r = modelmap.check(REPO, mp)
            mine = [m for m in r.get("missing", []) if self.prop in (m.get("properties") or [])]
            for m in mine[:5]:
                self.broken.append("model map: %s::%s (block %s) no longer exists in the source — the Lean model %s mirrors a function that is gone"
                                   % (m.get("python_file"), m.get("python_qualname"), m.get("block"), m.get("lean_file")))
            out = {"functions_modelled_for_this_property": (r.get("by_property", {}).get(self.prop) or {}).get("functions", 0),
                   "lines_modelled_for_this_property": (r.get("by_property", {}).get(self.prop) or {}).get("lines", 0),
                   "package": r.get("package"), "missing_entries": len(r.get("missing", [])), "missing_for_this_property": len(mine)}
            bp = os.path.join(ROOT, "tools", "modelmap_baseline.json")
            if os.path.exists(bp):
                ch = modelmap.changed(REPO, bp, mp)
                body = [c for c in ch.get("changed", []) if self.prop in (c.get("properties") or [])] if ch.get("changed") and isinstance(ch["changed"][0], dict) else ch.get("changed", [])
                out["modelled_functions_whose_body_changed_since_validation"] = [str(c.get("key", c) if isinstance(c, dict) else c) for c in body][:20]
            self.model_map = out
        except Exception as e:          # the map is documentation of the trusted base: its failure must not turn into an alarm
            self.model_map = {"error": repr(e)[:300]}

    def lean_stage(self, gen, modules):
        """translate + build + audit.  Fills self.lean; appends to self.broken."""
        self.model_map_stage()
        with build_lock():
            tr = translate(gen)
            for name, err in tr.items():
                if err:
                    self.broken.append(f"translator {name}: {err}")
            ok, log = lake_build(list(modules) + ["verifdrv"])
            if not ok:
                errs = [l for l in log.splitlines() if "error" in l][:20]
                failed = re.findall(r"^- (\S+)", log, re.M)
                self.broken.append({"lake_build_failed": failed, "errors": errs})
            obligations, discharged, axioms = 0, 0, set()
            thms_all = {}
            for m in modules:
                try:
                    thms = audit(m) if ok or os.path.exists(os.path.join(LEAN, ".lake/build/lib/lean", m.replace(".", "/") + ".olean")) and m not in str(self.broken) else {}
                except MachineryError as e:
                    thms = {}
                    self.broken.append(f"audit {m}: {e}")
                for t, ax in thms.items():
                    obligations += 1
                    if set(ax) <= ALLOWED_AXIOMS:
                        discharged += 1
                    else:
                        self.broken.append(f"theorem {t} depends on axioms {ax}")
                    axioms |= set(ax)
                thms_all.update(thms)
            bad = forbidden_tokens()
            if bad:
                self.broken.append({"forbidden_tokens": bad})
                discharged = 0
            if not ok:
                # theorems of modules that failed to build are obligations that are not discharged
                obligations = max(obligations, 1)
                discharged = min(discharged, obligations - 1)
            if self.tier == "thorough" and ok:
                lc_ok, lc_log = leanchecker(modules)
                self.lean["leanchecker"] = "ok" if lc_ok else lc_log
                if not lc_ok:
                    self.broken.append("leanchecker rejected " + ",".join(modules))
        self.lean.update({"obligations": obligations, "discharged": discharged, "axioms": sorted(axioms),
                          "theorems": sorted(thms_all), "build_ok": ok})
        return ok

    # -- evidence ---------------------------------------------------------------
    def write_evidence(self, extra_cov):
        cov = {
            "obligations": self.lean.get("obligations", 0),
            "discharged": self.lean.get("discharged", 0),
            "checker_cmd": "cd lean && lake build && lake env lean <audit of Verif.Props.%s> (#axioms per theorem)%s"
                           % (self.prop, "; lake env leanchecker" if self.tier == "thorough" else ""),
            "trusted_base": ["Lean 4.33.0 kernel", "axioms used: " + ", ".join(self.lean.get("axioms", [])) ,
                             "translators tools/translate/*.py", "correspondence harness tools/props/%s.py" % self.prop.lower(),
                             "CPython, argparse, application_properties as executed"],
            "theorems": self.lean.get("theorems", []),
            "broken": self.broken,
            "known_findings_absorbed": self.known,
        }
        if "leanchecker" in self.lean:
            cov["leanchecker"] = self.lean["leanchecker"]
        if getattr(self, "blocks", None):
            cov["building_blocks"] = self.blocks
        if getattr(self, "model_map", None):
            cov["model_map"] = self.model_map
        if getattr(self, "blocks_escalated", None):
            cov["building_blocks_run_on_complete_space_because_their_source_changed"] = self.blocks_escalated
        if getattr(self, "escalated_from_quick", None):
            cov["escalated_from_quick"] = {"changed_anchor_files": self.escalated_from_quick,
                                           "note": "quick command, seeded sample found nothing; anchored source differs from tools/srcpins.json"}
        cov.update(extra_cov)
        ev = {"property_id": self.prop, "tier": self.tier, "seed": self.seed, "level": self.level,
              "coverage": cov, "assumptions": self.assumptions, "wall_s": round(time.time() - self.t0, 2),
              "violations": len(self.violations)}
        os.makedirs(os.path.join(ROOT, "evidence"), exist_ok=True)
        with open(os.path.join(ROOT, "evidence", self.prop + ".json"), "w") as fh:
            json.dump(ev, fh, indent=1, default=str)


# ---------------------------------------------------------------- implementation side helpers
def run_main(argv, stdin_text=None, cwd=None):
    """Run PyMarkdownLint().main(argv) in-process; returns (exit_code, stdout, stderr)."""
    from pymarkdown.main import PyMarkdownLint
    out, err = io.StringIO(), io.StringIO()
    old = (sys.stdout, sys.stderr, sys.stdin)
    oldcwd = os.getcwd()
    code = None
    try:
        if cwd:
            os.chdir(cwd)
        sys.stdout, sys.stderr = out, err
        if stdin_text is not None:
            sys.stdin = io.StringIO(stdin_text)
        try:
            PyMarkdownLint().main(list(argv))
            code = 0
        except SystemExit as e:
            code = e.code if isinstance(e.code, int) else (0 if e.code is None else 1)
    finally:
        sys.stdout, sys.stderr, sys.stdin = old
        os.chdir(oldcwd)
    return code, out.getvalue(), err.getvalue()
