"""Extract (name, source_markdown, expected_gfm) from /repo/test/**/*.py via AST."""
import ast, sys, json, pathlib
def cases(root="/repo/test"):
    for p in sorted(pathlib.Path(root).rglob("test_*.py")):
        try: t = ast.parse(p.read_text(encoding="utf-8"))
        except Exception: continue
        for fn in ast.walk(t):
            if isinstance(fn, ast.FunctionDef) and fn.name.startswith("test_"):
                src = gfm = None; cfg = False
                for n in ast.walk(fn):
                    if isinstance(n, ast.Assign) and len(n.targets)==1 and isinstance(n.targets[0], ast.Name):
                        nm = n.targets[0].id
                        if isinstance(n.value, ast.Constant) and isinstance(n.value.value, str):
                            if nm=="source_markdown": src = n.value.value
                            elif nm=="expected_gfm": gfm = n.value.value
                    if isinstance(n, ast.keyword) and n.arg=="config_map": cfg=True
                if src is not None and gfm is not None and not cfg:
                    yield (f"{p.relative_to(root)}::{fn.name}", src, gfm)
if __name__=="__main__":
    out=[{"name":n,"md":s,"html":h} for n,s,h in cases()]
    json.dump(out, open(sys.argv[1],"w"))
    print(len(out))
