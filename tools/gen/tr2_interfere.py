"""Generate lean/Verif/Props/TokenRules2/InterfereRows.lean: the mechanical rows of the interference table of the 14 modelled
token fixers — for every ordered pair (A fixer, B scanner), A ≠ B, whose written fields and read fields are DISJOINT, the theorem
`mdA_fix_inert_for_mdB` (A's successful fix cannot change any report of B), derived from A's `…_fix_only_style` / `…_fix_writes`
and B's `…_scan_reads`.  Pairs with overlapping fields are listed in the table of NOTES-TokenRules2.md (decided by hand)."""
import sys

BASE = ["kind", "line", "col", "hashCount", "trailing", "keys", "seq", "content", "indent", "ws", "leading", "startChar", "rest",
        "fenceChar", "text", "endData"]

# writer: (cfg binder or None, old?, written fields, proof term of `All₂ W toks toks'` given h, fix expression)
W = {
    "md001": dict(cfg="C001", old=True, w=["hashCount"]),
    "md004": dict(cfg="C004", old=True, w=["seq"]),
    "md029": dict(cfg="C029", old=True, w=["content", "indent"]),
    "md035": dict(cfg="C035", old=True, w=["startChar", "rest"]),
    "md048": dict(cfg="C048", old=True, w=["fenceChar"]),
    "md019": dict(cfg=None, old=True, w=["ws"]),
    "md021": dict(cfg=None, old=True, w=["ws", "endData"]),
    "md038": dict(cfg=None, old=True, w=["text"]),
    "md039": dict(cfg=None, old=True, w=["text"]),
    "md030": dict(cfg="C030", old=False, w=["indent", "leading", "startIdx"], rule="md030f", writes="md030_fix_writes c"),
    "md037": dict(cfg=None, old=False, w=["text", "startIdx"], rule="md037", writes="md037_fix_writes"),
    "md023": dict(cfg=None, old=False, w=["ws", "text", "leading", "endWs", "startIdx"], rule="md023", writes="md023_fix_writes"),
    "md044": dict(cfg="C044", old=False, w=["text", "linkTitle", "preLinkTitle", "linkName", "titleRaw", "startIdx"], rule="md044",
                  writes="md044_fix_writes c"),
}
# reader: (cfg, old?, read fields besides, name of scan_reads, how the hypothesis is phrased)
R = {
    "md001": dict(cfg="C001", old=True, r=["kind", "line", "col", "hashCount", "keys"]),
    "md004": dict(cfg="C004", old=True, r=["kind", "line", "col", "seq"]),
    "md029": dict(cfg="C029", old=True, r=["kind", "line", "col", "content", "indent"]),
    "md035": dict(cfg="C035", old=True, r=["kind", "line", "col", "rest"]),
    "md048": dict(cfg="C048", old=True, r=["kind", "line", "col", "fenceChar"]),
    "md019": dict(cfg=None, old=True, r=["kind", "line", "col", "hashCount", "trailing", "ws"]),
    "md038": dict(cfg=None, old=True, r=["kind", "line", "col", "text"]),
    "md039": dict(cfg=None, old=True, r=["kind", "line", "col", "text"]),
    "md046": dict(cfg="C046", old=False, r=["kind", "line", "col"], rule="md046"),
    "md030": dict(cfg="C030", old=False, r=["kind", "line", "col", "indent", "content"], rule="md030f", goal=["kind", "line", "col", "indent", "content.length"]),
    "md037": dict(cfg=None, old=False, r=["kind", "line", "col", "text"], rule="md037"),
    "md023": dict(cfg=None, old=False, r=["kind", "line", "col", "ws", "endWs", "text", "leading", "indent", "destWs", "titleWs", "titleRaw"],
                  rule="md023", unfold="Same023"),
    "md044": dict(cfg="C044", old=False, r=["kind", "line", "col", "text", "startIdx", "labelType", "linkTitle", "preLinkTitle", "activeUri",
                                            "beforeLinkWs", "beforeTitleWs", "boundChar", "startTicks", "leadWs", "linkName", "destWs", "dest",
                                            "titleWs", "titleRaw"], rule="md044"),
}
EXISTING = {("md004", "md029"), ("md029", "md004"), ("md019", "md001"), ("md039", "md038")}   # in Props/TokenRules.lean


def cfgarg(d, nm):
    return ("(%s : %s) " % (nm, d["cfg"])) if d["cfg"] else ""


def cfguse(d, nm):
    return nm if d["cfg"] else "()"


def rows(skip=()):
    out, table = [], {}
    for a, wa in W.items():
        for b, rb in R.items():
            if a == b or a in skip or b in skip:
                continue
            if set(wa["w"]) & set(rb["r"]):
                table[(a, b)] = "overlap " + ",".join(sorted(set(wa["w"]) & set(rb["r"])))
                continue
            if (a, b) in EXISTING:
                table[(a, b)] = "inert (Props/TokenRules.lean)"
                continue
            name = "%s_fix_inert_for_%s" % (a, b)
            table[(a, b)] = "inert " + name
            goal = rb.get("goal", rb["r"])
            ca, cb = cfgarg(wa, "c"), cfgarg(rb, "c'")
            scanB = ("scan %s %s" if rb["old"] else "scan2 %s %s") % (rb.get("rule", b), cfguse(rb, "c'"))
            readsB = "%s_scan_reads %s" % (b, "c' " if rb["cfg"] else "")
            if wa["old"] and rb["old"]:
                fields = ", ".join("rfl" for _ in goal)
                out.append(f"""theorem {name} {ca}{cb}(toks toks' : List Tok) (h : fix {a} {cfguse(wa, 'c')} toks = .ok toks') :
    {scanB} toks' = {scanB} toks :=
  {readsB}toks toks' (All₂.imp (fun t t' hp => by rw [hp.1]; exact ⟨{fields}⟩) ({a}_fix_only_style {'c ' if wa['cfg'] else ''}toks toks' h))
""")
            elif wa["old"] and not rb["old"]:
                steps = []
                for f in goal:
                    if f.split(".")[0] in BASE:
                        steps.append("by show t'.toTok.%s = t.toTok.%s; rw [e]" % (f, f))
                    else:
                        steps.append("by rw [h2]")
                unf = ("unfold %s; " % rb["unfold"]) if rb.get("unfold") else ""
                body = ", ".join(steps)
                out.append(f"""theorem {name} {ca}{cb}(toks : List Tok2) (bs : List Tok) (h : fix {a} {cfguse(wa, 'c')} (toks.map (·.toTok)) = .ok bs) :
    {scanB} (rebase toks bs) = {scanB} toks :=
  {readsB}toks _ (All₂.imp (fun t t' hp => by
    obtain ⟨h1, h2⟩ := hp
    have e := h1.1
    {unf}exact ⟨{body}⟩) (All₂_rebase _ toks bs ({a}_fix_only_style {'c ' if wa['cfg'] else ''}_ bs h)))
""")
            elif not wa["old"] and rb["old"]:
                fields = ", ".join("rfl" for _ in goal)
                out.append(f"""theorem {name} {ca}{cb}(toks toks' : List Tok2) (h : fix2 {wa['rule']} {cfguse(wa, 'c')} toks = .ok toks') :
    {scanB} (toks'.map (·.toTok)) = {scanB} (toks.map (·.toTok)) :=
  {readsB}_ _ (All₂_map_toTok (All₂.imp (fun t t' hp => by rw [hp]; exact ⟨{fields}⟩) ({wa['writes']} toks toks' h)))
""")
            else:
                fields = ", ".join("rfl" for _ in goal)
                unf = ("unfold %s; " % rb["unfold"]) if rb.get("unfold") else ""
                out.append(f"""theorem {name} {ca}{cb}(toks toks' : List Tok2) (h : fix2 {wa['rule']} {cfguse(wa, 'c')} toks = .ok toks') :
    {scanB} toks' = {scanB} toks :=
  {readsB}toks toks' (All₂.imp (fun t t' hp => by rw [hp]; {unf}exact ⟨{fields}⟩) ({wa['writes']} toks toks' h))
""")
    return out, table


if __name__ == "__main__":
    skip = [a[7:] for a in sys.argv[1:] if a.startswith("--skip=")]
    out, table = rows(skip)
    if "--table" in sys.argv:
        names = list(W) + ["md046"]
        for (a, b), v in sorted(table.items()):
            print("%s -> %s : %s" % (a, b, v))
    else:
        print("\n".join(out))
