"""Correspondence of the inline dispatcher model (lean/Verif/Model/InlineLoop.lean, driver `inlineloop`) with the REAL
`InlineTextBlockHelper.process_inline_text_block` (pymarkdown/inline/inline_text_block_helper.py) and everything it calls in
inline_line_end_helper.py / inline_handler_helper.py, called in-process with the REAL handler table after the usual parser
initialisation (tools/implib.py).

What is compared, per case (a case = source text + the arguments `InlineProcessor.__parse_paragraph/_setext_heading/_atx_heading` build):
  * the `inline_blocks` list at the moment it is handed to `EmphasisHelper.resolve_inline_emphasis` (captured by a wrapper that snapshots
    the argument and then calls the real function; the emphasis pass has its own model and tie, tools/emphlib.py): for every token its
    kind, every text field, line and column;
  * exceptions by kind (`err index` / `err assertion` / `err value`);
  * `para_owner.rehydrate_index` and the block quote's `leading_text_index` after the call, the text after `__process_inline_text_block_prepare`;
  * the TRACE: `sys.monitoring` PY_START / PY_RETURN events on `__handle_next_inline_character` give, for every turn of the
    `while next_index != -1` loop, (start_index, next_index, the character, the new start_index, line_number, column_number,
    last_line_number, last_column_number, did inline_blocks change); the model's trace must be the same list, and every turn must be a
    legal model transition (start <= next < new start, character is a start character, next is the FIRST start character at or after start).

The link-close handler `]` (`LinkSearchHelper.look_for_link_or_image`: ~1 700 lines in pymarkdown/links, not modelled) is an ORACLE: the table
entry is wrapped, every real response (all `InlineResponse` fields, the rewritten `inline_blocks`, whether its last element is another object,
`rehydrate_index`) is recorded and handed to the model, which replays it at the same source index.  Every other handler is computed by the
model (`Verif.Model.InlineRecog` recognisers + the four handlers of inline_handler_helper.py).

Per turn the driver also AUDITS the handler answer (oracle answers included) against the loop's contract (`RespOK`: a violation breaks the
correspondence claim "pymarkdown's table meets the contract") and for position truth (`PosTrue`), and gives the SPECIFIED position of
every turn's start index (`specPos`: a walk over the text): a real (line, column) that differs is a real position failure (C05); it
must be explained by a hypothesis the position theorem excludes (recombined white space, an element spanning a line break, an answer
that is not position-true) — an unexplained one breaks the tie.

Spaces (closed):
  A  all strings of length <= 5 over ALPHA (one character per registered handler, newline, space, backslash, a letter) and all strings
     <= 4..6 over eight sub-alphabets (line ends, links, images, character references, raw HTML / autolinks, code spans, emphasis,
     control characters); strings <= 4 under all thirteen environment configurations (eight the guard admits, five it excludes: the real
     code must raise exactly what the model raises), longer strings under three (paragraph with leading white space, paragraph in a block
     quote with uneven prefixes and a moved rehydrate index, setext heading in a block quote).
  B  every call of process_inline_text_block the REAL parser makes on the documents of docs.d1, docs.inline_edges, docs.multi_pairs and a
     hash slice of the repo's test documents: the real arguments (real paragraph / block-quote tokens) are handed to the model as they are;
     `__process_next_coalesce_item`'s branch is compared with the model's `dispatch`.
  C  the stub handlers that break one contract clause each, registered in the REAL table (`real_witnesses`).
quick = seeded sample of A (all strings <= 3, 150 000 of the rest) + a 1 500 document sample of B + all of C.
"""
import itertools, multiprocessing as mp, os, signal, sys

sys.path.insert(0, os.path.dirname(os.path.abspath(__file__)))
import vlib

H = vlib.hexs

ALPHA = "\n \\a`&<[]*!\x05"                  # 12 characters: one per handler (+ `_` and `>` in the sub-alphabets)
SUBS = [
    ("lineend", "a \n\\*", 6),
    ("links", "[]()a\n", 6),
    ("images", "![]()a", 6),
    ("charref", "&#1;a\n", 6),
    ("angle", "<a>/\n !", 5),
    ("code", "` \na\\<", 5),
    ("emph", "*_a \n>", 5),
    ("control", "a\x07\x08\x02\x03\\\n", 4),
]
LONG_ENVS = (1, 3, 6)                              # para_ws, para_bq_var, setext_bq: the environments of the strings longer than 4

# (name, mode, ws pattern, bq, line, col, rehydrate0)   ws pattern: how the leading white space of line i is chosen
#   mode para:   para_space = para_owner.extracted_whitespace = "\n".join(ws_i)
#   mode setext: whitespace_to_recombine = para_space = "\n".join(ws_i)
#   mode atx:    starting_whitespace = ws_0, column shifted by len(ws_0) + hash_count(=2)
#   bq: None | (lengths of the bleading_spaces lines, leading_text_index)
ENVS = [
    ("para", "para", "none", None, 1, 1, 0),
    ("para_ws", "para", "alt", None, 3, 1, 0),
    ("para_bq", "para", "one", ("22222222", 0), 1, 3, 0),
    ("para_bq_var", "para", "none", ("2345123", 1), 2, 3, 1),
    ("setext", "setext", "none", None, 1, 1, 0),
    ("setext_ws", "setext", "alt", None, 1, 1, 0),
    ("setext_bq", "setext", "one", ("22222222", 0), 1, 3, 0),
    ("atx", "atx", "one", None, 1, 1, 0),
    # configurations outside the totality guard (the real code must raise exactly what the model raises)
    ("x_para_short_ws", "para", "short", None, 1, 1, 0),
    ("x_para_short_bq", "para", "none", ("2", 0), 1, 3, 0),
    ("x_setext_short_ws", "setext", "short", None, 1, 1, 0),
    ("x_plain", "plain", "none", None, 1, 1, 0),          # neither paragraph nor setext (ATX call shape) with any text
    ("x_recombine_not_setext", "recomb", "one", None, 1, 1, 0),
]
N_ADMITTED = 8


def ws_lines(pattern, n):
    """leading white space for the n+1 lines of a text with n newlines"""
    if pattern == "none":
        return [""] * (n + 1)
    if pattern == "one":
        return [" "] * (n + 1)
    if pattern == "alt":
        return [["", "  ", " "][i % 3] for i in range(n + 1)]
    if pattern == "short":
        return [" "] * max(1, n)              # one line too few when n >= 1
    raise ValueError(pattern)


# ------------------------------------------------------------------ implementation access
_I = {}


def impl():
    if _I:
        return _I
    import implib
    tk = implib.parser()
    tk.transform("x")                                      # the usual initialisation: registers the handler table
    from pymarkdown.inline.inline_text_block_helper import InlineTextBlockHelper as TB
    from pymarkdown.inline.inline_line_end_helper import InlineLineEndHelper as LE
    from pymarkdown.inline.inline_handler_helper import InlineHandlerHelper as IH
    from pymarkdown.inline.emphasis_helper import EmphasisHelper as EH
    from pymarkdown.inline.inline_processor import InlineProcessor as IP
    from pymarkdown.inline.inline_response import InlineResponse
    from pymarkdown.tokens.paragraph_markdown_token import ParagraphMarkdownToken
    from pymarkdown.tokens.block_quote_markdown_token import BlockQuoteMarkdownToken
    from pymarkdown.tokens.raw_html_markdown_token import RawHtmlMarkdownToken
    from pymarkdown.general.position_marker import PositionMarker
    _I.update(tk=tk, pp=tk._TokenizedMarkdown__parse_properties, TB=TB, LE=LE, IH=IH, EH=EH, IP=IP, Para=ParagraphMarkdownToken,
              BQ=BlockQuoteMarkdownToken, PM=PositionMarker, Resp=InlineResponse, Raw=RawHtmlMarkdownToken)
    _I["table"] = IH._InlineHandlerHelper__inline_character_handlers
    _I["step_code"] = TB.__dict__["_InlineTextBlockHelper__handle_next_inline_character"].__func__.__code__
    _I["orig_close"] = _I["table"]["]"]
    _I["orig_emph"] = EH.__dict__["resolve_inline_emphasis"]
    _I["orig_block"] = TB.__dict__["process_inline_text_block"]
    return _I


# ------------------------------------------------------------------ serialisation of real tokens
def opt(s):
    return "N" if s is None else "=" + H(s)


def ser_tok(t):
    ln, cn = getattr(t, "line_number", 0), getattr(t, "column_number", 0)
    if t.is_special_text:
        return "s,%s,%d,%s,%s,%d,%d,%d" % (H(t.token_text), t.repeat_count, opt(t.preceding_two), opt(t.following_two),
                                           1 if t.is_active else 0, ln, cn)
    if t.is_text:
        return "t,%s,%s,%s,%d,%d" % (H(t.token_text), H(t.extracted_whitespace), opt(t.end_whitespace), ln, cn)
    if t.is_inline_hard_break:
        return "h,%s,%d,%d" % (H(t.line_end), ln, cn)
    if t.is_inline_code_span:
        fs = [t.span_text, t.extracted_start_backticks, t.leading_whitespace, t.trailing_whitespace]
    elif t.is_inline_raw_html:
        fs = [t.raw_tag]
    elif t.is_inline_autolink:
        fs = [t.autolink_text]
    else:
        fs = [str(t)]
    return "o,%s,%s,%d,%d" % (H(t.token_name), "/".join(H(f) for f in fs), ln, cn)


def ser_toks(ts, sep=";"):
    return sep.join(ser_tok(t) for t in ts)


# ------------------------------------------------------------------ observing one real call
class Rec:
    """what the wrappers and the monitor see during one call"""
    def __init__(self):
        self.oracle, self.pre_emph, self.iters, self.open, self.close_raised, self.site = [], None, [], None, False, "?"
        self.in_handler = False


_REC = [None]


def _close_wrapper(parser_properties, inline_request):
    I, rec = impl(), _REC[0]
    blocks = inline_request.inline_blocks
    before_last = blocks[-1] if blocks else None
    try:
        resp = I["orig_close"](parser_properties, inline_request)
    except BaseException:
        if rec is not None:
            rec.close_raised = True
        raise
    if rec is not None:
        po = inline_request.para_owner
        replaced = bool(blocks) and before_last is not None and blocks[-1] is not before_last
        rec.oracle.append(":".join([
            str(inline_request.next_index), opt(resp.new_string), opt(resp.new_string_unresolved),
            "N" if resp.new_index is None else str(resp.new_index), ser_toks(resp.new_tokens, "+"),
            "1" if resp.consume_rest_of_line else "0", opt(resp.original_string), str(resp.delta_line_number),
            str(resp.delta_column_number), str(resp.reduce_remaining_line_by), ser_toks(blocks, "+"),
            "1" if replaced else "0", str(po.rehydrate_index if po else 0)]))
    return resp


def _emph_wrapper(inline_blocks, wall_token):
    rec = _REC[0]
    if rec is not None:
        rec.pre_emph = ser_toks(inline_blocks)
    return impl()["orig_emph"].__func__(inline_blocks, wall_token)


_MON = {"on": False}
TOOL = 4


def monitor_on():
    if _MON["on"] and sys.monitoring.get_tool(TOOL) == "verif-inlineloop":
        return
    I = impl()
    mon = sys.monitoring
    vlib.claim_tool(TOOL, "verif-inlineloop")
    code = I["step_code"]

    def on_start(c, off):
        rec = _REC[0]
        if rec is not None and c is code:
            loc = sys._getframe(1).f_locals
            bl = loc["inline_blocks"]
            rec.open = (loc["start_index"], loc["next_index"], loc["source_text"][loc["next_index"]], loc["line_number"],
                        loc["column_number"], loc["last_line_number"], loc["last_column_number"], bl, len(bl), bl[-1] if bl else None)

    def on_return(c, off, retval):
        rec = _REC[0]
        if rec is not None and c is code and rec.open is not None:
            s, n, ch, ln, cn, lln, lcn, bl, cnt, last = rec.open
            changed = cnt != len(bl) or (last is not None and last is not bl[-1])
            rec.iters.append("%d,%d,%d,%d,%d,%d,%d,%d,%d" % (s, n, ord(ch), retval[9], ln, cn, lln, lcn, 1 if changed else 0))
            rec.open = None

    mon.register_callback(TOOL, mon.events.PY_START, on_start)
    mon.register_callback(TOOL, mon.events.PY_RETURN, on_return)
    mon.set_local_events(TOOL, code, mon.events.PY_START | mon.events.PY_RETURN)
    I["EH"].resolve_inline_emphasis = staticmethod(_emph_wrapper)
    _MON["on"] = True


def exc_kind(e):
    if isinstance(e, IndexError):
        return "err index"
    if isinstance(e, AssertionError):
        return "err assertion"
    if isinstance(e, ValueError):
        return "err value"
    return "err " + type(e).__name__


def ensure_wrappers():
    """`InlineHandlerHelper.initialize` (every `transform`) builds a NEW handler table: put the recording wrapper back"""
    I = impl()
    table = I["IH"]._InlineHandlerHelper__inline_character_handlers
    I["table"] = table
    if table.get("]") is not _close_wrapper:
        I["orig_close"] = table["]"]
        table["]"] = _close_wrapper


def observed(fields, po, bq_tok, thunk):
    """run `thunk` (a real call of process_inline_text_block) under observation → (request line, real answer line, Rec)"""
    monitor_on()
    ensure_wrappers()
    rec = Rec()
    _REC[0] = rec
    err = None
    try:
        try:
            thunk()
        except Exception as e:                                 # noqa
            err = exc_kind(e)
            site = e.__traceback__
            while site.tb_next is not None:
                if site.tb_frame.f_code.co_name == "process_inline_handled_character":
                    rec.in_handler = True
                site = site.tb_next
            rec.site = "%s:%s" % (os.path.basename(site.tb_frame.f_code.co_filename), site.tb_frame.f_code.co_name)
            rec.exc = e
    finally:
        _REC[0] = None
    req = "run|" + "|".join(fields) + "|" + ";".join(rec.oracle)
    if err is not None:
        return req, err, rec
    ans = "ok|%s|%s|%d|%d" % (rec.pre_emph, ";".join(rec.iters), bq_tok.leading_text_index if bq_tok is not None else 0,
                              po.rehydrate_index if po is not None else 0)
    return req, ans, rec


def build_case(src, env):
    """(stack, kwargs for the real function, driver request fields, the real objects to read back)"""
    I = impl()
    name, mode, pattern, bq, line, col, reh0 = env
    n = src.count("\n")
    ws = "\n".join(ws_lines(pattern, n))
    stack, bq_tok, bq_f = [], None, "N"
    if bq is not None:
        lens, idx = bq
        bq_tok = I["BQ"]("", I["PM"](1, 0, ""))
        for k in lens:
            bq_tok.add_bleading_spaces(">" + " " * (int(k) - 1))
        bq_tok.leading_text_index = idx
        stack = [bq_tok]
        bq_f = "%s,%d" % (" ".join(lens), idx)
    po, po_f = None, "N"
    kw = dict(line_number=line, column_number=col)
    if mode == "para":
        po = I["Para"]("", I["PM"](line, 0, ""))
        po.add_whitespace(ws)
        po.rehydrate_index = reh0
        kw.update(is_para=True, para_space=ws, para_owner=po)
        po_f = "%s,%d" % (H(ws), reh0)
        f = ["", "N", "0", "1", opt(ws)]
    elif mode == "setext":
        kw.update(whitespace_to_recombine=ws, is_setext=True, para_space=ws)
        f = ["", opt(ws), "1", "0", opt(ws)]
    elif mode == "atx":
        w0 = ws.split("\n")[0]
        kw.update(starting_whitespace=w0, column_number=col + len(w0) + 2)
        col = col + len(w0) + 2
        f = [H(w0), "N", "0", "0", "N"]
    elif mode == "plain":
        f = ["", "N", "0", "0", "N"]
    elif mode == "recomb":                                   # white space to recombine, but not a setext heading
        kw.update(whitespace_to_recombine=ws, is_para=True, para_space=ws)
        f = ["", opt(ws), "0", "1", opt(ws)]
    else:
        raise ValueError(mode)
    fields = [H(src)] + f + [str(line), str(col), po_f, bq_f]
    return stack, kw, fields, po, bq_tok


def real_call(src, env):
    I = impl()
    stack, kw, fields, po, bq_tok = build_case(src, env)
    return observed(fields, po, bq_tok, lambda: I["orig_block"].__func__(I["pp"], src, stack, **kw))


def legal_trace(src_after, iters, starts):
    """every recorded turn is a legal model transition"""
    prev = 0
    for it in iters:
        s, n, ch, ni = [int(x) for x in it.split(",")][:4]
        if s != prev or not (s <= n < ni) or n >= len(src_after) or ord(src_after[n]) != ch or chr(ch) not in starts:
            return False
        if any(c in starts for c in src_after[s:n]):
            return False
        prev = ni
    return True


# ------------------------------------------------------------------ comparing one case
def compare(label, env_name, recomb_ws, rq, r, m, rec, cnt, bad, starts):
    """update the counters, append disagreements / position failures; `recomb_ws` = white space was recombined into the text"""
    cnt["calls"] += 1
    cnt["turns"] += len(rec.iters)
    cnt["oracle_responses"] += len(rec.oracle)
    if rec.close_raised:
        cnt["close_handler_raised:" + exc_kind(rec.exc)] += 1
        return
    if r.startswith("err"):
        cnt[r + "@" + rec.site] += 1
        if m != r:
            bad.append({"kind": "disagree", "case": label, "env": env_name, "real": r, "model": m, "request": rq})
        return
    if m == "err unmodelled" or SURROGATE.search(rq):
        cnt["outside_the_modelled_fragment"] += 1          # a character reference yields a lone surrogate (not a Lean `Char`)
        return
    mf = m.split("|")
    if len(mf) != 8 or "|".join(mf[:5]) != r:
        bad.append({"kind": "disagree", "case": label, "env": env_name, "real": r, "model": m, "request": rq})
        return
    toks = r.split("|")[1].split(";") if r.split("|")[1] else []
    cnt["tokens"] += len(toks)
    for t in toks:
        cnt["tok:" + t[0]] += 1
    if not legal_trace(vlib.unhex(mf[5]), rec.iters, starts):
        bad.append({"kind": "illegal-transition", "case": label, "env": env_name, "trace": rec.iters})
    audits = mf[6].split(";") if mf[6] else []
    specs = mf[7].split(";") if mf[7] else []
    excused = recomb_ws                    # the position theorem's hypotheses no longer hold from here on
    for it, au, sp in zip(rec.iters, audits, specs):
        f = it.split(",")
        a = au.split(":")
        if (f[4], f[5]) != tuple(sp.split(",")):
            cnt["position_failures"] += 1
            if excused:
                cnt["position_failures:" + excused] += 1
                bad.append({"kind": "position", "why": excused, "case": label, "env": env_name, "turn": it, "true": sp})
            else:
                bad.append({"kind": "position-unexplained", "case": label, "env": env_name, "turn": it, "true": sp, "request": rq})
        else:
            cnt["positions_true"] += 1
        if len(a) == 4:
            cnt["handler_answers"] += 1
            if a[1] != "1":
                bad.append({"kind": "contract", "case": label, "env": env_name, "turn": it, "audit": au})
            if a[3] != "0":
                cnt["answers_spanning_lines:" + chr(int(a[0]))] += 1
                excused = excused or "after an element spanning a line break"
            if a[2] != "1":
                cnt["answers_not_position_true:" + chr(int(a[0]))] += 1
                excused = excused or "after an answer that is not position-true"


import re
SURROGATE = re.compile(r"\bd[89a-f][0-9a-f]{2}\b")


def strings(alpha, n):
    for k in range(n + 1):
        for t in itertools.product(alpha, repeat=k):
            yield "".join(t)


def space_a():
    seen, out = set(), []
    for s in strings(ALPHA, 5):
        if s not in seen:
            seen.add(s)
            out.append(("alpha", s))
    for name, alpha, n in SUBS:
        for s in strings(alpha, n):
            if s not in seen:
                seen.add(s)
                out.append((name, s))
    return out


def _work_a(chunk):
    """chunk: [(family, src, env index)]"""
    from collections import Counter
    starts = impl()["IH"].valid_inline_text_block_sequence_starts
    reqs, reals, recs = [], [], []
    for fam, src, ei in chunk:
        rq, ans, rec = real_call(src, ENVS[ei])
        reqs.append(rq)
        reals.append(ans)
        recs.append(rec)
    drv = vlib.Driver("inlineloop")
    model = drv.run(reqs)
    guards = drv.run(["guard|" + "|".join(rq.split("|")[1:11]) for rq in reqs])
    cnt, bad = Counter(), []
    for (fam, src, ei), rq, r, m, g, rec in zip(chunk, reqs, reals, model, guards, recs):
        env = ENVS[ei]
        cnt["env:" + env[0]] += 1
        cnt["guard:" + g] += 1
        if g == "1" and r.startswith("err") and not rec.close_raised:
            if rec.in_handler:
                cnt["handler_raised_inside_guard:%s@%s" % (r, rec.site)] += 1
            else:
                bad.append({"kind": "raise-inside-guard", "case": repr(src), "env": env[0], "real": r, "site": rec.site})
        recomb_ws = ""
        if env[1] in ("setext", "recomb") and "\n" in src:
            recomb_ws = "white space recombined into the text (setext heading)"
        compare(repr(src), env[0], recomb_ws, rq, r, m, rec, cnt, bad, starts)
    return cnt, bad, coverage_lines()


# ------------------------------------------------------------------ space B: calls the real parser makes
_HARV = {"on": False, "calls": [], "branch": []}


def _block_wrapper(parser_properties, source_text, coalesced_stack, starting_whitespace="", whitespace_to_recombine=None,
                   is_setext=False, is_para=False, para_space=None, line_number=0, column_number=0, para_owner=None,
                   tabified_text=None):
    I = impl()

    def call():
        return I["orig_block"].__func__(parser_properties, source_text, coalesced_stack, starting_whitespace, whitespace_to_recombine,
                                        is_setext, is_para, para_space, line_number, column_number, para_owner, tabified_text)
    if not _HARV["on"] or _REC[0] is not None:
        return call()
    if tabified_text:
        _HARV["calls"].append(None)
        return call()
    top = coalesced_stack[-1] if coalesced_stack else None
    bq_tok, bq_f = None, "N"
    if top is not None and top.is_block_quote_start:
        bq_tok = top
        bq_f = "%s,%d" % (" ".join(str(len(x)) for x in top.bleading_spaces.split("\n")), top.leading_text_index)
    po_f = "N" if para_owner is None else "%s,%d" % (H(para_owner.extracted_whitespace), para_owner.rehydrate_index)
    fields = [H(source_text), H(starting_whitespace), opt(whitespace_to_recombine), "1" if is_setext else "0", "1" if is_para else "0",
              opt(para_space), str(line_number), str(column_number), po_f, bq_f]
    out = []
    rq, ans, rec = observed(fields, para_owner, bq_tok, lambda: out.append(call()))
    mode = "para" if is_para else "setext" if is_setext else "atx"
    recomb_ws = "white space recombined into the text (setext heading)" if whitespace_to_recombine else ""
    _HARV["calls"].append((mode + ("+bq" if bq_tok is not None else ""), recomb_ws, rq, ans, rec))
    if ans.startswith("err"):
        raise rec.exc
    return out[0]


LEAF = {"para": "paragraph", "setext": "setext", "atx": "atx", "fcode-block": "fenced", "icode-block": "indented"}


def harvest_on():
    """wrap process_inline_text_block and watch `__process_next_coalesce_item` (which branch is taken for which token)"""
    if _HARV["on"] and sys.monitoring.get_tool(3) == "verif-inlineloop-dispatch":
        return
    I = impl()
    monitor_on()
    I["TB"].process_inline_text_block = staticmethod(_block_wrapper)
    IP = I["IP"]
    names = {"__parse_paragraph": "para", "__parse_setext_heading": "setext", "__parse_atx_heading": "atx", "__parse_code_block": "code"}
    codes = {IP.__dict__["_InlineProcessor" + k].__func__.__code__: v for k, v in names.items()}
    item = IP.__dict__["_InlineProcessor__process_next_coalesce_item"].__func__.__code__
    mon = sys.monitoring
    vlib.claim_tool(3, "verif-inlineloop-dispatch")

    def on_start(c, off):
        if not _HARV["on"]:
            return
        if c is item:
            loc = sys._getframe(1).f_locals
            tok, last = loc["coalesced_results"][loc["coalesce_index"]], loc["coalesced_list"][-1]
            _HARV["branch"].append(["1" if tok.is_text else "0", LEAF.get(last.token_name, "other"), "copy"])
        elif c in codes and _HARV["branch"]:
            _HARV["branch"][-1][2] = codes[c]

    mon.register_callback(3, mon.events.PY_START, on_start)
    for c in list(codes) + [item]:
        mon.set_local_events(3, c, mon.events.PY_START)
    _HARV["on"] = True


def space_b(quick, rng):
    import docs
    pool = list(docs.d1()) + list(docs.inline_edges()) + list(docs.multi_pairs()) + docs.hash_slice(docs.repo_sources(), 1500, "inlineloop")
    seen, out = set(), []
    for d in pool:
        if d not in seen:
            seen.add(d)
            out.append(d)
    total = len(out)
    if quick:
        out = docs.sample(rng, out, 1500)
    return out, total


def _work_b(docs_chunk):
    from collections import Counter
    I = impl()
    harvest_on()
    starts = I["IH"].valid_inline_text_block_sequence_starts
    cnt, bad = Counter(), []
    for doc in docs_chunk:
        _HARV["calls"], _HARV["branch"] = [], []
        try:
            I["tk"].transform(doc, show_debug=False)
        except Exception as e:                                 # noqa  (parser failures are C01's business; the calls made so far count)
            cnt["documents_raising:" + type(e).__name__] += 1
        cnt["documents"] += 1
        calls = [c for c in _HARV["calls"] if c is not None]
        cnt["calls_with_tabified_text_skipped"] += len(_HARV["calls"]) - len(calls)
        drv = vlib.Driver("inlineloop")
        if calls:
            model = drv.run([c[2] for c in calls])
            for (mode, recomb_ws, rq, r, rec), m in zip(calls, model):
                cnt["env:" + mode] += 1
                compare(repr(doc), mode, recomb_ws, rq, r, m, rec, cnt, bad, starts)
        if _HARV["branch"]:
            ans = drv.run(["dispatch|%s|%s" % (b[0], b[1]) for b in _HARV["branch"]])
            for b, a in zip(_HARV["branch"], ans):
                cnt["dispatch:" + b[2]] += 1
                if a != b[2]:
                    bad.append({"kind": "disagree", "case": repr(doc), "env": "dispatch", "real": b, "model": a})
    return cnt, bad, coverage_lines()


# ------------------------------------------------------------------ line coverage of the real functions
COV = {"on": False, "lines": set(), "codes": {}}
COV_FUNCS = {
    "inline_text_block_helper.py": None,          # every function
    "inline_line_end_helper.py": None,
    "inline_handler_helper.py": ["process_inline_handled_character", "has_handler", "__get_handler", "__handle_inline_control_character",
                                 "__handle_inline_special_single_character", "__handle_inline_special", "__handle_inline_special_character",
                                 "__handle_inline_special_character_emphasis", "__handle_inline_image_link_start_character"],
    "inline_processor.py": ["__process_next_coalesce_item", "__parse_paragraph", "__parse_atx_heading", "__parse_setext_heading"],
}


def cov_codes():
    if COV["codes"]:
        return COV["codes"]
    I = impl()
    for cls in (I["TB"], I["LE"], I["IH"], I["IP"]):
        for k, v in cls.__dict__.items():
            f = getattr(v, "__func__", None)
            if f is None or not hasattr(f, "__code__"):
                continue
            fn = os.path.basename(f.__code__.co_filename)
            want = COV_FUNCS.get(fn, [])
            short = k.split("__", 1)[-1] if k.startswith("_") and "__" in k[1:] else k
            short = "__" + short if k.startswith("_" + cls.__name__ + "__") else k
            if want is None or short in want:
                COV["codes"][f.__code__] = (fn, short)
    return COV["codes"]


def coverage_on():
    if COV["on"] and sys.monitoring.get_tool(5) == "verif-inlineloop-cov":
        return
    mon = sys.monitoring
    vlib.claim_tool(5, "verif-inlineloop-cov")
    codes = cov_codes()

    def on_line(c, line):
        COV["lines"].add((os.path.basename(c.co_filename), line))
        return mon.DISABLE

    mon.register_callback(5, mon.events.LINE, on_line)
    for c in codes:
        mon.set_local_events(5, c, mon.events.LINE)
    COV["on"] = True


def coverage_lines():
    return set(COV["lines"])


def coverage_report(hit):
    """executable lines of the modelled functions that no case reached"""
    import linecache
    out = {}
    total = 0
    for c, (fn, name) in cov_codes().items():
        lines = sorted({l for _, _, l in c.co_lines() if l is not None and l > c.co_firstlineno})
        total += len(lines)
        miss = [l for l in lines if (fn, l) not in hit]
        if miss:
            out["%s:%s" % (fn, name)] = ["%d: %s" % (l, linecache.getline(c.co_filename, l).strip()) for l in miss]
    return {"executable_lines": total, "unreached": sum(len(v) for v in out.values()), "unreached_lines": out}


def _init_worker():
    impl()
    coverage_on()


# ------------------------------------------------------------------ space C: the excluded points of the contract, with the REAL loop
class _Timeout(BaseException):
    pass


def _alarm(*_):
    raise _Timeout()


STUBS = {
    "good": {},
    "noProgress": {"new_index": 0},            # relative to next_index
    "backwards": {"new_index": "zero"},
    "noIndex": {"new_index": None},
    "noString": {"new_string": None},
    "unres": {"original_string": "a", "new_string_unresolved": "b"},
    "reset": {"delta_column_number": -1},
    "reduce": {"reduce_remaining_line_by": 1},
    "rawNl": {"raw": True, "new_string": "", "delta_line_number": 2, "delta_column_number": -2},
    "beyond": {"new_index": "beyond"},
    "multi": {"new_index": 3, "new_string": "", "delta_line_number": 1, "delta_column_number": -2},
}


def make_stub(spec):
    I = impl()

    def stub(parser_properties, q):
        r = I["Resp"]()
        r.new_string, r.new_index, r.delta_column_number = "x", q.next_index + 1, 1
        for k, v in spec.items():
            if k == "new_index":
                v = None if v is None else 0 if v == "zero" else len(q.source_text) + 3 if v == "beyond" else q.next_index + v
            if k == "raw":
                r.new_tokens = [I["Raw"]("a\nb\nc", q.line_number, q.column_number + len(q.remaining_line))]
                continue
            setattr(r, k, v)
        return r
    return stub


def real_witnesses():
    """each stub registered for `x` in the REAL handler table, the REAL loop run on the text, compared with the model on the same stub"""
    I = impl()
    IH = I["IH"]
    signal.signal(signal.SIGPROF, _alarm)
    cases = [(n, "ax\nb", None) for n in STUBS if n != "multi"] + [("rawNl", "ax\nb", "22"), ("rawNl", "ax\nb", "2222"), ("good", "a\nbx", "22"),
                                                   ("multi", "x\ny\nx", None)]
    out, bad = {}, []
    drv = vlib.Driver("inlineloop")
    for name, src, bq in cases:
        saved = IH.valid_inline_text_block_sequence_starts
        IH.register_handlers("x", make_stub(STUBS[name]))
        try:
            n = src.count("\n")
            ws = "\n".join([""] * (n + 1)) if name != "multi" else "\n\n  "
            env = ("stub", "para", "none", (bq, 0) if bq else None, 1, 1, 0)
            stack, kw, fields, po, bq_tok = build_case(src, env)
            if name == "multi":
                po = I["Para"]("", I["PM"](1, 0, ""))
                po.add_whitespace(ws)
                kw.update(para_space=ws, para_owner=po)

            def thunk():
                signal.setitimer(signal.ITIMER_PROF, 0.3)
                try:
                    I["orig_block"].__func__(I["pp"], src, stack, **kw)
                finally:
                    signal.setitimer(signal.ITIMER_PROF, 0)
            try:
                rq, ans, rec = observed(fields, po, bq_tok, thunk)
            except _Timeout:
                _REC[0] = None
                ans, rec = "err fuel", None                   # the real loop did not return within 0.3 s of CPU time
        finally:
            del IH._InlineHandlerHelper__inline_character_handlers["x"]
            IH.valid_inline_text_block_sequence_starts = saved
        if name == "multi":
            m = None                                            # positions only: checked against the Lean witness numbers below
            real_pos = [tuple(int(x) for x in it.split(",")[1:6:1])[0:1] + tuple(int(x) for x in it.split(",")[4:6]) for it in rec.iters]
            out["multi (x, newline, y, newline, x; third line indented by 2)"] = {"real (next, line, col) per turn": real_pos,
                                                                                "lean witness": [(0, 1, 1), (3, 2, 2), (4, 3, 1)],
                                                                                "true position of the second x": (3, 3)}
            if real_pos != [(0, 1, 1), (3, 2, 2), (4, 3, 1)]:
                bad.append({"kind": "disagree", "case": "stub multi", "real": real_pos})
            continue
        m = drv.run(["witness|%s|%s|%s" % (name, H(src), " ".join(bq) if bq else "N")])[0]
        mm = m if m.startswith("err") else "|".join(m.split("|")[:5])
        key = "%s %r bq=%s" % (name, src, bq)
        out[key] = {"real": ans if ans.startswith("err") else "returns " + ans.split("|")[1], "model": m.split("|")[0] if not m.startswith("err") else m,
                    "site": getattr(rec, "site", None) if rec else "timeout"}
        if name == "reduce":
            continue                                            # the model says `unmodelled`; the real loop takes the extended-autolink path
        if mm != ans:
            bad.append({"kind": "disagree", "case": "stub " + key, "real": ans, "model": m})
    return out, bad


FAILING_DOCS = [
    # (property, document, what)
    ("C05", "`a\nb` c\n  *d*", "after a code span that spans a line break, `split_para_space` lags one line: the emphasis on line 3 is reported at "
                              "3:1, it stands at 3:3 (lean: positions_excluded_multiline)"),
    ("C05", "a  \n b*c*\n===", "setext heading, hard break, indented continuation line: the indentation is counted twice, emphasis reported at 2:4, "
                              "it stands at 2:3 (lean: positions_excluded_setext)"),
    ("C05", "a `b\n  c` *d*", "the code-span handler's negative column delta ignores the paragraph's leading white space: emphasis reported at 2:4, "
                             "it stands at 2:6 (audit: answer of '`' not position-true)"),
]


def failing_documents():
    """the document-level face of the function-level position failures (known family F-C05-INLINECOL)"""
    I = impl()
    out = []
    for prop, doc, what in FAILING_DOCS:
        toks = I["tk"].transform(doc, show_debug=False)
        out.append({"property": prop, "document": doc, "what": what,
                    "tokens": [str(t) for t in toks if t.token_name in ("emphasis", "icode-span", "text", "hard-break")]})
    return out


# ------------------------------------------------------------------ entry
def run(ctx, quick):
    from collections import Counter
    sp = space_a()
    items = [(fam, s, ei) for fam, s in sp if len(s) <= 4 for ei in range(len(ENVS))]
    items += [(fam, s, ei) for fam, s in sp if len(s) > 4 for ei in LONG_ENVS]
    total_a = len(items)
    if quick:
        short = [x for x in items if len(x[1]) <= 3]
        rest = [x for x in items if len(x[1]) > 3]
        items = short + ctx.rng.sample(rest, 150000)
    docs_b, total_b = space_b(quick, ctx.rng)
    chunks_a = [items[i:i + 20000] for i in range(0, len(items), 20000)]
    chunks_b = [docs_b[i:i + 400] for i in range(0, len(docs_b), 400)]
    cnt_a, cnt_b, bad, hit = Counter(), Counter(), [], set()
    with mp.Pool(8, initializer=_init_worker) as p:
        ra = [p.apply_async(_work_a, (c,)) for c in chunks_a]
        rb = [p.apply_async(_work_b, (c,)) for c in chunks_b]
        for r in ra:
            c, b, h = r.get()
            cnt_a.update(c); bad += b; hit |= h
        for r in rb:
            c, b, h = r.get()
            cnt_b.update(c); bad += b; hit |= h
    _init_worker()
    wit, wbad = real_witnesses()
    bad += wbad
    hit |= coverage_lines()
    table = table_check()
    cov = {"space_A": total_a, "run_A": len(items), "strings": len(sp), "envs": [e[0] for e in ENVS],
           "space_B_documents": total_b, "run_B_documents": len(docs_b),
           "counts_A": dict(sorted(cnt_a.items())), "counts_B": dict(sorted(cnt_b.items())), "table_check": table,
           "coverage": coverage_report(hit), "witnesses": wit}
    by = lambda k: [b for b in bad if b["kind"] == k]
    if by("disagree"):
        ctx.broken.append("correspondence inlineloop: %d disagreements (first: %r)" % (len(by("disagree")), by("disagree")[0]))
    if by("illegal-transition"):
        ctx.broken.append("inlineloop: %d recorded loop turns are not legal model transitions (first: %r)" % (len(by("illegal-transition")), by("illegal-transition")[0]))
    if by("contract"):
        ctx.broken.append("inlineloop: %d handler answers of the real table break the loop's contract RespOK (first: %r)" % (len(by("contract")), by("contract")[0]))
    if by("position-unexplained"):
        ctx.broken.append("inlineloop: %d wrong positions that no excluded hypothesis of inline_loop_positions_partial explains (first: %r)"
                          % (len(by("position-unexplained")), by("position-unexplained")[0]))
    if by("raise-inside-guard"):
        ctx.broken.append("inlineloop: the real loop raised inside the totality guard %d times (first: %r)" % (len(by("raise-inside-guard")), by("raise-inside-guard")[0]))
    if not table["ok"]:
        ctx.broken.append("inlineloop: handler table differs from the model's: %r" % (table,))
    cov["disagreements"] = [b for b in bad if b["kind"] != "position"][:50]
    pos = by("position")
    cov["position_failures_sample"] = pos[:12]
    cov["failing_inputs"] = failing_documents()
    return cov


def table_check():
    """the model's `realStarts` / handler assignment against the real table"""
    I = impl()
    monitor_on()
    ensure_wrappers()
    starts = I["IH"].valid_inline_text_block_sequence_starts
    m = vlib.unhex(vlib.Driver("inlineloop").run(["starts"])[0])
    names = {k: (v.__qualname__ if v is not _close_wrapper else I["orig_close"].__qualname__) for k, v in I["table"].items()}
    expect = {"`": "InlineBacktickHelper.handle_inline_backtick", "\\": "InlineBackslashHelper.handle_inline_backslash",
              "&": "InlineCharacterReferenceHelper.handle_character_reference", "<": "InlineAutoLinkHelper.handle_angle_brackets",
              "!": "InlineHandlerHelper.__handle_inline_image_link_start_character"}
    for c in "[]*_":
        expect[c] = "InlineHandlerHelper.__handle_inline_special_single_character"
    for c in "\x08\x07\x02\x03\x05":
        expect[c] = "InlineHandlerHelper.__handle_inline_control_character"
    return {"ok": starts == m and names == expect, "starts_real": starts, "starts_model": m,
            "handlers_differ": sorted(k for k in set(names) | set(expect) if names.get(k) != expect.get(k))}


if __name__ == "__main__":
    import random, time, json

    class _C:
        rng = random.Random(1)
        broken = []
    t0 = time.time()
    r = run(_C, quick=(len(sys.argv) < 2 or sys.argv[1] != "thorough"))
    print(json.dumps({k: v for k, v in r.items() if k != "disagreements"}, indent=1, default=str))
    for d in r["disagreements"][:15]:
        print(d)
    print("disagreements:", len(r["disagreements"]), "broken:", _C.broken, "time %.1fs" % (time.time() - t0))
