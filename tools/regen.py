"""Regenerate every Verif/Gen module from /repo (used by setup.sh)."""
import os, sys
sys.path.insert(0, os.path.dirname(os.path.abspath(__file__)))
import vlib
GEN = ["exit_table", "rule_fields", "rule_meta", "doc_tables", "entities", "ext_flags", "parser_statics", "emph_chars"]
if __name__ == "__main__":
    with vlib.build_lock():
        res = vlib.translate(GEN)
    for k, v in res.items():
        print("translate", k, "ok" if v is None else v)
    sys.exit(1 if any(res.values()) else 0)
