"""Fix-mode correspondence: probe fixer rules implemented twice (Lean: Verif/Drv/FixSched.lean; here as
generated plug-ins), real `fix` runs (file bytes, stdout, exit, call log, file operations) vs the Lean model."""
import hashlib, json, os, re, shutil, sys, tempfile
import vlib, implib, enginelib as E

TMPL = '''
from pymarkdown.plugin_manager.plugin_details import PluginDetailsV2
from pymarkdown.plugin_manager.rule_plugin import RulePlugin
import builtins
LOG = builtins.__dict__.setdefault("_verif_fix_log", [])

class {cls}(RulePlugin):
    def get_details(self):
        return PluginDetailsV2(plugin_name="{name}", plugin_id="{pid}", plugin_enabled_by_default=True,
            plugin_description="verif fix probe", plugin_version="0.0.1", plugin_interface_version=2,
            plugin_supports_fix={fixes}, plugin_fix_level={level})
{methods}
'''
METHODS = {
    "start": '''
    def starting_new_file(self):
        LOG.append(("{pid}", "S"))
''',
    "token": '''
    def next_token(self, context, token):
        LOG.append(("{pid}", "T", str(token)))
        if {tokTrig!r} and {tokTrig!r} in str(token) and not context.in_fix_mode:
            self.report_next_token_error(context, token)
''',
    "line": '''
    def next_line(self, context, line):
        LOG.append(("{pid}", "L", context.line_number, line, context.in_fix_mode))
        if {boom!r} and {boom!r} in line:
            raise Exception("probe boom")
        if {trig!r} and {trig!r} in line:
            if context.in_fix_mode:
                context.set_current_fix_line(line.replace({trig!r}, {repl!r}))
            else:
                self.report_next_line_error(context, 1)
''',
    "done": '''
    def completed_file(self, context):
        LOG.append(("{pid}", "D", context.line_number, context.in_fix_mode))
        if {doneNl} and context.in_fix_mode and context.last_line_fixed is not None and not context.last_line_fixed.endswith("\\n"):
            context.set_current_fix_line("\\n")
''',
}


def fix_log():
    import builtins
    return builtins.__dict__.setdefault("_verif_fix_log", [])


def write_probe(dirpath, sp):
    """sp: dict(id, level, fixes, start, token, line, done, doneNl, trig, repl[, boom])"""
    key = hashlib.sha1(json.dumps(sp, sort_keys=True).encode()).hexdigest()[:10]
    mod = f"vf_{sp['id'].lower()}_{key}"
    cls = "".join(x.capitalize() or "_" for x in mod.split("_"))
    cbs = [c for c in ("start", "token", "line", "done") if sp[c]]
    methods = "".join(METHODS[c].format(pid=sp["id"], trig=sp["trig"], repl=sp["repl"], doneNl=bool(sp["doneNl"]), boom=sp.get("boom", ""),
                                        tokTrig=sp.get("tokTrig", "")) for c in cbs)
    src = TMPL.format(cls=cls, name="fixprobe-" + sp["id"].lower(), pid=sp["id"], fixes=bool(sp["fixes"]), level=int(sp["level"]), methods=methods)
    return implib.write(os.path.join(dirpath, mod + ".py"), src)


# ------------------------------------------------------------------ file-operation recording (audit hook, installed once)
_OPS = {"on": False, "ev": [], "dir": None, "tmp": tempfile.gettempdir() + os.sep}
_HOOKED = [False]


def _hook(e, a):
    if not _OPS["on"]:
        return
    try:
        if e == "open":
            p, mode = str(a[0]), a[1]
            _OPS["ev"].append(("open", p, mode))
        elif e in ("os.remove", "os.unlink"):
            _OPS["ev"].append(("remove", str(a[0]), None))
        elif e == "shutil.copyfile":
            _OPS["ev"].append(("copy", str(a[0]), str(a[1])))
        elif e == "tempfile.mkstemp":
            _OPS["ev"].append(("mkstemp", str(a[0]), None))
        elif e == "os.rename":
            _OPS["ev"].append(("rename", str(a[0]), str(a[1])))
    except Exception:
        pass


def record_ops(fn, workdir, targets):
    """Run fn() recording file operations on `targets` (names inside workdir) and on temp files.
    Returns (result, canonical op list): ('read'|'write'|'create'|'remove', role) / ('copy', src role, dst role)
    with role = target name or 't<i>' (i-th distinct temp file)."""
    if not _HOOKED[0]:
        sys.addaudithook(_hook)
        _HOOKED[0] = True
    _OPS["ev"] = []
    _OPS["on"] = True
    try:
        res = fn()
    finally:
        _OPS["on"] = False
    ev = _OPS["ev"]
    roles, out = {}, []

    def role(p):
        b = os.path.basename(p)
        if b in targets and (not os.path.isabs(p) or os.path.dirname(p) == workdir):
            return b
        if p.startswith(_OPS["tmp"] + "tmp") and os.sep not in p[len(_OPS["tmp"]):]:
            if p not in roles:
                roles[p] = f"t{len(roles) + 1}"
            return roles[p]
        return None

    i = 0
    while i < len(ev):
        k, p, x = ev[i]
        if k == "mkstemp":
            # NamedTemporaryFile(): mkstemp, os.open, then deletion on close -> one 'create'
            r = role(p)
            j = i + 1
            while j < len(ev) and j <= i + 2 and ev[j][1] == p and ev[j][0] in ("open", "remove"):
                j += 1
            out.append(("create", r))
            i = j
            continue
        if k == "copy":
            out.append(("copy", role(p), role(x)))
            j = i + 1
            while j < len(ev) and j <= i + 2 and ev[j][0] == "open" and (ev[j][1] == p or ev[j][1] == x):
                j += 1
            i = j
            continue
        r = role(p)
        if r is not None:
            if k == "open":
                out.append(("write" if x and ("w" in x or "a" in x or "+" in x) else "read", r))
            elif k == "remove":
                out.append(("remove", r))
            elif k == "rename":
                out.append(("rename", r, role(x)))
        i += 1
    record_ops.temps_left = sorted(p for p in roles if os.path.exists(p))
    for p in record_ops.temps_left:
        try:
            os.remove(p)
        except OSError:
            pass
    return res, out


def model_ops_canonical(ops, target):
    """Lean op codes -> the same canonical form, with temp roles numbered by first creation."""
    out, roles = [], {}
    cur = {}
    n = [0]

    def new(kind):
        n[0] += 1
        cur[kind] = f"t{n[0]}"
        return cur[kind]
    for o in ops:
        if o == "rT": out.append(("read", target))
        elif o == "ck": out.append(("create", new("k")))
        elif o == "wk": out.append(("write", cur["k"]))
        elif o == "rk": out.append(("read", cur["k"]))
        elif o == "cl": out.append(("create", new("l")))
        elif o == "wl": out.append(("write", cur["l"]))
        elif o == "cp": out.append(("copy", cur["l"], target))
        elif o == "xl": out.append(("remove", cur["l"]))
        elif o == "xk": out.append(("remove", cur["k"]))
    return out


# ------------------------------------------------------------------ model side
def flags(sp):
    return "".join("1" if sp[k] else "0" for k in ("fixes", "start", "token", "line", "done", "doneNl"))


def model_fix(specs, doc):
    """Two-round protocol: first without token table to learn the intermediate documents (line fixes do not depend on
    tokens), then with the real token strings of every document that occurs."""
    ordered = sorted(specs, key=lambda s: s["id"].lower())
    rules = ";".join(",".join([E.xs(sp["id"]), str(sp["level"]), flags(sp), E.xs(sp["trig"]), E.xs(sp["repl"]), E.xs(sp.get("tokTrig", ""))]) for sp in ordered)
    drv = vlib.Driver("fixsched")
    docs_seen = [doc]
    # intermediate documents: replay passes by asking for the final content repeatedly is not enough; instead feed a table
    # built incrementally: tokens only matter for the log, so iterate until the table covers every document whose tokens are asked
    table = {}
    for _ in range(8):
        tb = ";".join(E.xs(d) + "=" + "/".join(E.xs(t) for t in ts) for d, ts in table.items())
        ans = drv.run([rules + "|" + E.xs(doc) + "|" + tb])[0]
        if ans == "no-fix-rules":
            return None, ordered
        content = E.unxs(ans.split("|")[0])
        need = [d for d in ({doc, content} | set(_intermediate(ordered, doc))) if d not in table]
        if not need:
            break
        for d in need:
            try:
                table[d] = [a for a, _, _ in E.real_tokens(d)]
            except Exception:
                table[d] = []
    return ans, ordered


def _intermediate(ordered, doc):
    """Documents after each pass, computed with the same line semantics (only used to know which token lists to supply)."""
    out, d = [], doc
    levels = sorted({sp["level"] for sp in ordered if sp["fixes"]})
    for k in levels:
        lines = d.split("\n")
        new = []
        for l in lines:
            for sp in ordered:
                if sp["fixes"] and sp["level"] == k and sp["line"] and sp["trig"] and sp["trig"] in l:
                    l = l.replace(sp["trig"], sp["repl"])
            new.append(l)
        d2 = "\n".join(new)
        out.append(d2)
        if d2 and not d2.endswith("\n"):
            out.append(d2 + "\n")
        d = d2
    return out


def parse_model(ans):
    content, fixed, levels, ops, lg, cf = ans.split("|")
    conflict = None
    if cf != "-":
        k, before = cf.split(":", 1)
        conflict = (int(k), E.unxs(before))
    log = []
    for e in (lg.split(";") if lg else []):
        p = e.split(":")
        pid = E.unxs(p[0])
        if p[1] == "S": log.append((pid, "S"))
        elif p[1] == "T": log.append((pid, "T", E.unxs(p[2])))
        elif p[1] == "L": log.append((pid, "L", int(p[2]), E.unxs(p[3]), p[4] == "1"))
        else: log.append((pid, "D", int(p[2]), p[3] == "1"))
    return dict(content=E.unxs(content), fixed=fixed == "1", levels=[int(x) for x in levels.split(",") if x],
                ops=[o for o in ops.split(",") if o], log=log, conflict=conflict)


# ------------------------------------------------------------------ real side
def run_real_fix(ws, specs, doc, extra_args=()):
    d = os.path.join(ws, "fx")
    shutil.rmtree(d, ignore_errors=True)
    os.makedirs(d)
    implib.write(os.path.join(d, "doc.md"), doc)
    argv = []
    pdir = os.path.join(ws, "fixprobes")
    for sp in specs:
        argv += ["--add-plugin", write_probe(pdir, sp)]
    ids, _ = E.builtin_meta()
    argv += ["-d", ",".join(ids)] + list(extra_args) + ["fix", "doc.md"]
    log = fix_log()
    log.clear()
    (code, out, err), ops = record_ops(lambda: vlib.run_main(argv, cwd=d), d, {"doc.md"})
    leaked = [os.path.basename(x) for x in record_ops.temps_left]     # temp files created by THIS run that still exist
    content = open(os.path.join(d, "doc.md"), encoding="utf-8", newline="").read()
    return dict(code=code, out=out, err=err, content=content, ops=ops, log=[tuple(e) for e in log], leaked=leaked,
                announced="Fixed: doc.md" in out)


def compare_fix(real, model, doc=None):
    diffs = []
    if model is None and doc is not None and real["content"] != doc:
        diffs.append("no fix-capable rule but the file changed")
    if model is None:
        # no fix-capable rule enabled: fix mode is a no-op for the file
        if real["code"] != 0 or real["announced"] or real["ops"] or real["log"]:
            diffs.append(f"no fix-capable rule: expected a no-op (exit 0, no file operation, no callback), real exit {real['code']} ops {real['ops'][:3]} log {real['log'][:2]}")
        return diffs
    if model.get("conflict"):
        # the pass at this level ends in BadPluginError (a second rule set a completion line): the passes before it have written
        # back, this one must not; the run is a failed run (exit 1, file named, nothing announced).  F-TMP covers the temp file.
        k, before = model["conflict"]
        if real["content"] != before:
            diffs.append(f"completion conflict at level {k}: target must hold the content before that pass {before!r}, real {real['content']!r}")
        if real["code"] != 1 or real["announced"] or "doc.md" not in real["err"] or "completed_file" not in real["err"]:
            diffs.append(f"completion conflict at level {k}: expected exit 1, the file named, no 'Fixed:' line; real exit {real['code']} announced {real['announced']} stderr {real['err'][-120:]!r}")
        return diffs
    if real["content"] != model["content"]:
        diffs.append(f"content: real {real['content']!r} model {model['content']!r}")
    if real["announced"] != model["fixed"]:
        diffs.append(f"announced real {real['announced']} model {model['fixed']}")
    want = 3 if model["fixed"] else 0
    if real["code"] != want:
        diffs.append(f"exit real {real['code']} model {want}")
    mops = model_ops_canonical(model["ops"], "doc.md")
    if real["ops"] != mops:
        k = next((j for j, (a, b) in enumerate(zip(real["ops"], mops)) if a != b), min(len(real["ops"]), len(mops)))
        diffs.append(f"file operations differ at {k}: real {real['ops'][k] if k < len(real['ops']) else None} model {mops[k] if k < len(mops) else None} (lengths {len(real['ops'])}/{len(mops)})")
    if real["log"] != model["log"]:
        k = next((j for j, (a, b) in enumerate(zip(real["log"], model["log"])) if a != b), min(len(real["log"]), len(model["log"])))
        diffs.append(f"call log differs at {k}: real {real['log'][k] if k < len(real['log']) else None} model {model['log'][k] if k < len(model['log']) else None} (lengths {len(real['log'])}/{len(model['log'])})")
    if real["leaked"]:
        diffs.append(f"temporary files left: {real['leaked']}")
    return diffs


WORDS = ["aa", "bb", "cc", "x aa y", "aa aa", "plain", "", "# aa", "- bb", "> cc", "tail "]
PAIRS = [("aa", "bb"), ("bb", "cc"), ("cc", "dd"), ("aa", ""), ("x", "xx"), ("", "")]


def gen_fix_scenario(rng):
    specs = []
    for pid in rng.sample(["VPA001", "VPB002", "ZZZ999", "AAA000", "MDM500"], rng.randint(1, 3)):
        trig, repl = rng.choice(PAIRS)
        specs.append(dict(id=pid, level=rng.choice([0, 0, 1, 1, 2, 5]), fixes=rng.random() < .85, start=rng.random() < .5,
                          token=rng.random() < .5, line=rng.random() < .85, done=rng.random() < .5, doneNl=rng.random() < .3,
                          trig=trig, repl=repl, tokTrig=rng.choice(["", "", "text", "para", "aa", "bb"])))
    k = rng.randint(0, 5)
    doc = "\n".join(rng.choice(WORDS) for _ in range(k)) + ("\n" if rng.random() < .6 and k else "")
    return specs, doc


def fix_correspondence(ctx, n, corpus=()):
    """n random fix scenarios (plus corpus) through the real `fix` and the Lean model; returns stats, samples."""
    scen = list(corpus) + [gen_fix_scenario(ctx.rng) for _ in range(n)]
    evals, nontrivial, bad, samples = 0, set(), 0, []
    dist = {"changed": 0, "multi_level": 0, "no_fix_rules": 0, "collector_last": 0}
    with implib.workspace() as ws:
        for specs, doc in scen:
            real = run_real_fix(ws, specs, doc)
            ans, ordered = model_fix(specs, doc)
            model = parse_model(ans) if ans else None
            d = compare_fix(real, model, doc)
            evals += 1
            if real["content"] != doc:
                nontrivial.add(json.dumps([specs, doc], sort_keys=True)); dist["changed"] += 1
            if model and len(model["levels"]) > 1:
                dist["multi_level"] += 1
            if model is None:
                dist["no_fix_rules"] += 1
            fx = [s for s in ordered if s["fixes"] and s["line"]]
            if fx and len({s["level"] for s in fx}) > 1 and fx[-1]["level"] > min(s["level"] for s in fx):
                dist["collector_last"] += 1
            if len(samples) < 2 and real["content"] != doc:
                samples.append({"rules": [(s["id"], s["level"], s["trig"], s["repl"]) for s in specs], "doc": doc, "fixed": real["content"],
                                "levels": model["levels"] if model else None, "ops": real["ops"]})
            if d:
                bad += 1
                ctx.broken.append("correspondence fix-mode: " + d[0][:160])
                sym = "file-damaged" if (model and real["content"] != model["content"] and len(real["content"]) < len(doc) // 2) else "fix-model-mismatch"
                ctx.report({"specs": specs, "doc": doc}, sym, {"diffs": d[:5], "oracle": "real `fix` (bytes, Fixed: line, exit, file operations, call log) vs Lean Verif.Model.FixSched"})
    return {"evaluations": evals, "distinct_nontrivial": len(nontrivial), "disagreements": bad, "distribution": dist,
            "rule": "random probe fixer sets (1-3 rules, levels 0/1/2/5, callbacks subsets, chained rewrites aa->bb->cc) x small documents; "
                    "non-trivial = the file is changed"}, samples


FIX_CORPUS = [
    # three levels: a level-0 line fixer, a level-2 rule triggered only after that fix (line phase), a level-5 rule triggered by a
    # token from the start (token phase): the scheduler must visit level 2 before level 5
    ([dict(id="VPA001", level=0, fixes=True, start=False, token=False, line=True, done=False, doneNl=False, trig="aa", repl="bb"),
      dict(id="VPB002", level=2, fixes=True, start=False, token=False, line=True, done=False, doneNl=False, trig="bb", repl="cc"),
      dict(id="ZZZ999", level=5, fixes=True, start=False, token=True, line=True, done=False, doneNl=False, trig="qq", repl="rr", tokTrig="para")], "x aa y\nqq\n"),
    ([dict(id="VPA001", level=0, fixes=True, start=True, token=True, line=True, done=True, doneNl=False, trig="aa", repl="bb"),
      dict(id="ZZZ999", level=2, fixes=True, start=True, token=True, line=True, done=True, doneNl=False, trig="qq", repl="rr")], "x aa y\nqq\n"),
    ([dict(id="VPA001", level=0, fixes=True, start=False, token=False, line=True, done=False, doneNl=False, trig="aa", repl="bb"),
      dict(id="VPB002", level=1, fixes=True, start=False, token=False, line=True, done=True, doneNl=True, trig="bb", repl="cc")], "x aa y\nzz"),
    ([dict(id="VPA001", level=1, fixes=False, start=True, token=True, line=True, done=True, doneNl=False, trig="aa", repl="bb")], "aa\n"),
    ([dict(id="VPA001", level=1, fixes=True, start=True, token=True, line=True, done=True, doneNl=True, trig="", repl="")], ""),
    # two rules that both append the final newline: same level = completion-line conflict (BadPluginError), different levels = fine
    ([dict(id="VPA001", level=1, fixes=True, start=False, token=False, line=True, done=True, doneNl=True, trig="x", repl="xx"),
      dict(id="ZZZ999", level=1, fixes=True, start=False, token=True, line=False, done=True, doneNl=True, trig="bb", repl="cc")], "plain\nx aa y\naa"),
    ([dict(id="VPA001", level=1, fixes=True, start=False, token=False, line=True, done=True, doneNl=True, trig="x", repl="xx"),
      dict(id="ZZZ999", level=1, fixes=True, start=False, token=True, line=False, done=True, doneNl=True, trig="bb", repl="cc")], "plain\nx aa y\naa\n"),
    ([dict(id="VPA001", level=0, fixes=True, start=False, token=False, line=True, done=True, doneNl=True, trig="x", repl="xx"),
      dict(id="ZZZ999", level=2, fixes=True, start=False, token=True, line=True, done=True, doneNl=True, trig="aa", repl="cc")], "plain\nx aa y\naa"),
]
