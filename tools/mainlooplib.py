"""Observation of the real block pass without touching the source: `sys.monitoring` (PEP 669) local events on the
private functions of `TokenizedMarkdown`, and a global LINE-event counter as a deterministic measure of work.

record(tk, text)  ->  Trace(lines, steps, outcome, events)
  steps   : one entry per iteration of the `while keep_on_going` loop of `__parse_blocks_pass`
  outcome : "ok" | call-site signature of the BadTokenizationError | "hang"
  events  : LINE events executed inside `transform`
`encode(trace)` is the request line for the Lean driver `mainloop`."""
import os, signal, sys
import vlib

H = vlib.hexs
mon = sys.monitoring
TRACE_ID, COUNT_ID = 3, 4


class Hang(BaseException):
    pass


class OverBudget(BaseException):
    """More LINE events than the work budget of the document (raised from the counting callback; a BaseException so
    that the parser's own `except Exception` does not swallow it)."""


def _alarm(*a):
    raise Hang()


def exc_signature(exc):
    """root exception type @ file:function of the raise site (same convention as enginelib.exc_signature)."""
    root = exc
    while root.__cause__ is not None:
        root = root.__cause__
    tb, last = root.__traceback__, None
    while tb is not None:
        last, tb = tb, tb.tb_next
    where = "?"
    if last is not None:
        co = last.tb_frame.f_code
        where = f"{os.path.basename(co.co_filename)}:{co.co_name}"
    return f"{type(root).__name__}@{where}"


class Recorder:
    """One per process.  `run(text, trace=True, count=True)` parses `text` under a CPU alarm."""

    def __init__(self, tk, cpu_limit=3.0):
        from pymarkdown.general.tokenized_markdown import TokenizedMarkdown as TM
        self.tk, self.cpu_limit = tk, cpu_limit
        d = TM.__dict__
        self.c_iter = d["_TokenizedMarkdown__parse_blocks_pass_next_line"].__code__
        self.c_line = d["_TokenizedMarkdown__main_pass_did_not_start_close"].__code__
        self.c_close = d["_TokenizedMarkdown__main_pass_did_start_close"].__code__
        self.steps, self.cur, self.count = [], None, 0
        self.stop_at = None          # absolute value of `count` at which OverBudget is raised
        self.limit = None            # work budget (LINE events) for the next `run`
        self.gfm = None
        self.tracing = False
        for tid, name in ((TRACE_ID, "verif-c01-trace"), (COUNT_ID, "verif-c01-count")):
            vlib.claim_tool(tid, name)
        mon.register_callback(TRACE_ID, mon.events.PY_START, self._start)
        mon.register_callback(TRACE_ID, mon.events.PY_RETURN, self._ret)
        for c in (self.c_iter, self.c_line, self.c_close):
            mon.set_local_events(TRACE_ID, c, mon.events.PY_START | mon.events.PY_RETURN)
        mon.register_callback(COUNT_ID, mon.events.LINE, self._line)
        self.counting = False
        signal.signal(signal.SIGVTALRM, _alarm)

    # -- callbacks -----------------------------------------------------------------
    def _line(self, code, line):
        self.count += 1
        if self.stop_at is not None and self.count > self.stop_at:
            self.stop_at = None
            raise OverBudget()

    def _pending(self):
        top = self.tk._TokenizedMarkdown__token_stack[-1]
        if top.was_link_definition_started:
            return list(top.unmodified_lines)
        return []

    def _start(self, code, off):
        if not self.tracing or code is not self.c_iter:
            return
        f = sys._getframe(1).f_locals
        self.cur = {"line": f["next_line_in_document"], "line_number": f["line_number"], "requeue": list(f["requeue"]),
                    "closing": f["did_start_close"], "started_close": f["did_started_close"],
                    "ignore": f["ignore_link_definition_start"], "pending": self._pending(), "rli": None}

    def _ret(self, code, off, val):
        if not self.tracing or self.cur is None:
            return
        if code is self.c_line:
            self.cur["rli"] = ("line", val[1])
        elif code is self.c_close:
            # (True, did_start_close, tokens_from_line, line_number, keep_on_going, requeue_line_info)
            self.cur["rli"] = ("close", val[5], val[4])
        elif code is self.c_iter:
            keep, dsc, dsdc, ign, rq, ln, nxt = val
            kind, rli = self.cur["rli"][0], self.cur["rli"][1]
            if rli is None:
                req = None
            else:
                lines = list(rli.lines_to_requeue)
                if kind == "close" and self.cur["rli"][2]:
                    lines = [""] + lines      # `del lines_to_requeue[0]` after `assert not lines_to_requeue[0]` passed
                req = (lines, bool(rli.force_ignore_first_as_lrd))
            self.steps.append({"before": self.cur, "req": req, "keep": bool(keep),
                               "after": {"line_number": ln, "reqlen": len(rq), "ignore": bool(ign), "closing": bool(dsc),
                                         "pending": len(self._pending()), "line": nxt,
                                         "depth": len(self.tk._TokenizedMarkdown__token_stack)}})
            self.cur = None

    # -- driving -----------------------------------------------------------------
    def set_counting(self, on):
        if on != self.counting:
            mon.set_events(COUNT_ID, mon.events.LINE if on else 0)
            self.counting = on

    def run(self, text, trace=True):
        """-> (outcome, steps or None, LINE events or None)"""
        self.steps, self.cur, self.tracing = [], None, trace
        c0 = self.count
        outcome = "ok"
        self.stop_at = c0 + self.limit if (self.counting and self.limit) else None
        signal.setitimer(signal.ITIMER_VIRTUAL, self.cpu_limit)
        try:
            self.tk.transform(text)
        except Hang:
            outcome = "hang"
        except OverBudget:
            outcome = "over-budget"
        except Exception as e:
            outcome = exc_signature(e)
        finally:
            signal.setitimer(signal.ITIMER_VIRTUAL, 0)
            self.stop_at = None
            self.tracing = False
        ev = self.count - c0 if self.counting else None
        return outcome, (self.steps if trace else None), ev


def _render(self, text):
    """Auxiliary oracle: the token stream of `text` is accepted by the project's own HTML transformer."""
    from pymarkdown.transform_gfm.transform_to_gfm import TransformToGfm
    if self.gfm is None:
        self.gfm = TransformToGfm()
    was = self.counting
    self.set_counting(False)
    signal.setitimer(signal.ITIMER_VIRTUAL, self.cpu_limit)
    try:
        self.gfm.transform(self.tk.transform(text))
        return "ok"
    except Hang:
        return "render-hang"
    except Exception as e:
        return "render:" + exc_signature(e)
    finally:
        signal.setitimer(signal.ITIMER_VIRTUAL, 0)
        self.set_counting(was)


Recorder.render = _render


def encode(text, steps):
    """Request line for the `mainloop` driver."""
    lines = text.split("\n")
    doc = ";".join(H(l) for l in lines)          # never the empty list: "".split("\n") == [""]
    out = []
    for s in steps:
        a, req = s["after"], s["req"]
        if req is None:
            kind, force, ls = "n", "0", "-"
        else:
            kind, force = "r", "1" if req[1] else "0"
            ls = ";".join(H(l) for l in req[0]) if req[0] else "-"
        hold = "1" if a["pending"] > 0 and req is None else "0"
        before = len(s["before"]["pending"])
        fresh = "1" if req is None and before >= 1 and a["pending"] == 1 else "0"
        cur = "~" if a["line"] is None else "=" + H(a["line"])
        out.append(":".join([kind, hold, fresh, force, ls, str(a["depth"]), str(a["line_number"]), str(a["reqlen"]), "1" if a["ignore"] else "0",
                             "1" if a["closing"] else "0", str(a["pending"]), cur]))
    return doc + "|" + ",".join(out)


# ---------------------------------------------------------------- the list-closing loop
class CloseLoopRecorder:
    """Records every call of `ListBlockCreateNewHandler.__close_next_level_of_lists` (one iteration of the
    `while repeat_check` loop): the state it reads, its result and the stack afterwards, in the request / answer syntax
    of the Lean driver `closeloop`.  `limit` iterations per `transform` call, then `Hang` is raised (so that the
    hanging documents can be observed)."""

    TOOL = 2

    def __init__(self, tk, limit=40):
        from pymarkdown.list_blocks.list_block_create_new_handler import ListBlockCreateNewHandler as LH
        self.tk, self.limit = tk, limit
        self.code = LH.__dict__["_ListBlockCreateNewHandler__close_next_level_of_lists"].__func__.__code__
        vlib.claim_tool(self.TOOL, "verif-c01-closeloop")
        mon.register_callback(self.TOOL, mon.events.PY_START, self._start)
        mon.register_callback(self.TOOL, mon.events.PY_RETURN, self._ret)
        mon.set_local_events(self.TOOL, self.code, mon.events.PY_START | mon.events.PY_RETURN)
        self.records, self.cur, self.on = [], None, False
        signal.signal(signal.SIGVTALRM, _alarm)

    @staticmethod
    def entry(t):
        if t.is_document:
            k = "d"
        elif t.is_list:
            k = "o" if t.is_ordered_list else "u"
        elif t.is_block_quote:
            k = "q"
        else:
            k = "x"
        if k in "uo":
            lni = t.last_new_list_token.indent_level if t.last_new_list_token else "-"
            return f"{k}:{t.indent_level}:{H(t.list_character)}:{t.ws_before_marker}:{t.ws_after_marker}:{t.start_index}:{lni}"
        return f"{k}:0::0:0:0:-"

    def stack(self, ps):
        return ",".join(self.entry(t) for t in ps.token_stack)

    def _start(self, code, off):
        if not self.on:
            return
        f = sys._getframe(1).f_locals
        ps = f["parser_state"]
        dli = "-"
        for t in reversed(ps.token_document):
            if t.is_any_list_token:
                dli = str(t.indent_level)
                break
        req = "|".join([str(f["last_list_index"]), self.entry(f["new_stack"]), str(f["new_token"].column_number),
                        str(f["position_marker"].index_number), dli, str(f["container_depth"]),
                        "1" if len(f["current_container_blocks"]) > 1 else "0", H(ps.original_line_to_parse or ""), self.stack(ps)])
        self.cur = (req, ps)
        if len(self.records) >= self.limit:
            raise Hang()

    def _ret(self, code, off, val):
        if not self.on or self.cur is None:
            return
        req, ps = self.cur
        rep, emit, lli = val
        self.records.append((req, "%d|%d|%d|%s" % (rep, emit, lli, self.stack(ps))))
        self.cur = None

    def run(self, text, cpu_limit=3.0):
        self.records, self.cur, self.on = [], None, True
        outcome = "ok"
        signal.setitimer(signal.ITIMER_VIRTUAL, cpu_limit)
        try:
            self.tk.transform(text)
        except Hang:
            outcome = "hang"
        except Exception as e:
            outcome = exc_signature(e)
        finally:
            signal.setitimer(signal.ITIMER_VIRTUAL, 0)
            self.on = False
        return outcome, self.records
