"""Correspondence of the emphasis model (lean/Verif/Model/Emphasis.lean, driver `emph`) with the REAL
`EmphasisHelper.resolve_inline_emphasis` (and its private helpers, reached by name mangling), called in-process.

An abstract *item* is `None` (a non-special token) or `(text, repeat, prec, foll, active)` with prec / foll `None` or a
string — exactly the fields of `SpecialTextMarkdownToken` the code reads.  A *request* is
`(op, strike, wall, items)`; `encode` gives the driver line, `real_*` the implementation's answer in the driver's
answer syntax (`ok|blocks|stack` or `err index|assertion|value|fuel`).

Two ways the real function is exercised:
  * SPY   — while the real parser parses documents, every call of `resolve_inline_emphasis` is recorded (input list
            abstracted before the call, output list and the final state of every special token after it);
  * DIRECT — the function is called on synthetic token lists the parser never produces.

`run(ctx, quick)` is the entry for a property module; see the bottom of the file.
"""
import itertools, multiprocessing, os, signal, sys

sys.path.insert(0, os.path.dirname(os.path.abspath(__file__)))
import vlib

H = vlib.hexs

# ---------------------------------------------------------------- encoding
def enc_opt(s):
    return "N" if s is None else "=" + H(s)


def enc_item(it):
    if it is None:
        return "p"
    text, rep, prec, foll, active = it
    return "s,%s,%d,%s,%s,%d" % (H(text), rep, enc_opt(prec), enc_opt(foll), 1 if active else 0)


def encode(req):
    op = req[0]
    if op in ("res", "orig", "rest"):
        _, strike, wall, items = req
        op = "res" if op == "rest" else op
        return "|".join([op, "1" if strike else "0", "-" if wall is None else str(wall)] + [enc_item(i) for i in items])
    if op == "resf":
        _, fuel, strike, wall, items = req
        return "|".join([op, str(fuel), "1" if strike else "0", "-" if wall is None else str(wall)] + [enc_item(i) for i in items])
    if op in ("fl", "this"):
        return "|".join([op, "1" if req[1] else "0", enc_item(req[2])])
    if op == "valid":
        return "|".join([op, "1" if req[1] else "0", enc_item(req[2]), enc_item(req[3])])
    if op == "lm":
        return "|".join([op] + [enc_item(i) for i in req[1]])
    if op == "classes":
        return "classes"
    raise ValueError(op)


# ---------------------------------------------------------------- implementation access
_IMPL = {}


def impl():
    if _IMPL:
        return _IMPL
    from pymarkdown.inline.emphasis_helper import EmphasisHelper as EH
    from pymarkdown.tokens.special_text_markdown_token import SpecialTextMarkdownToken as ST
    from pymarkdown.tokens.text_markdown_token import TextMarkdownToken as TT
    from pymarkdown.general.constants import Constants
    _IMPL.update(EH=EH, ST=ST, TT=TT, C=Constants, resolve=EH.__dict__["resolve_inline_emphasis"].__func__)
    return _IMPL


def _priv(name):
    return getattr(impl()["EH"], "_EmphasisHelper__" + name)


def set_strike(strike):
    """what `EmphasisHelper.initialize` leaves in the class attribute"""
    impl()["EH"]._EmphasisHelper__inline_emphasis = "*_~" if strike else "*_"


def current_strike():
    return "~" in impl()["EH"].get_inline_emphasis()


def _exc(e):
    if isinstance(e, IndexError):
        return "err index"
    if isinstance(e, AssertionError):
        return "err assertion"
    if isinstance(e, ValueError):
        return "err value"
    if isinstance(e, _Timeout):
        return "err fuel"
    return "err %s" % type(e).__name__


class _Timeout(Exception):
    pass


def abstract(blocks):
    """items of a real inline_blocks list (before the call)"""
    out = []
    for b in blocks:
        if b.is_special_text:
            out.append((b.token_text, b.repeat_count, b.preceding_two, b.following_two, b.is_active))
        else:
            out.append(None)
    return out


def canon(blocks_after, originals):
    """the driver's answer syntax for a real list after the call; `originals` = the list as it was before."""
    tag, sid, specials = {}, {}, []
    for i, b in enumerate(originals):
        if b.is_special_text:
            sid[id(b)] = len(specials)
            specials.append(b)
        else:
            tag[id(b)] = i
    bs = []
    for b in blocks_after:
        k = id(b)
        if k in sid:
            bs.append("s%d" % sid[k])
        elif k in tag:
            bs.append("p%d" % tag[k])
        elif b.is_inline_emphasis:
            bs.append("+%d:%d" % (b.emphasis_length, ord(b.emphasis_character)))
        elif b.is_inline_emphasis_end:
            st = b.start_markdown_token
            bs.append("-%d:%d" % (st.emphasis_length, ord(st.emphasis_character)))
        else:
            bs.append("?%s" % b.token_name)
    ts = ["%s,%d,%d" % (H(t.token_text), t.repeat_count, 1 if t.is_active else 0) for t in specials]
    return "ok|" + ";".join(bs) + "|" + ";".join(ts)


def build(items):
    I = impl()
    out = []
    for it in items:
        if it is None:
            out.append(I["TT"]("a", "", ""))
        else:
            out.append(I["ST"](it[0], it[1], it[2], it[3], it[4]))
    return out


def real_resolve(strike, wall, items, timeout=None):
    """DIRECT call of the real function on a synthetic list."""
    I = impl()
    set_strike(strike)
    blocks = build(items)
    originals = list(blocks)
    if wall is None:
        wt = None
    elif wall < len(blocks):
        wt = blocks[wall]
    else:
        wt = I["TT"]("not-in-list", "", "")
    try:
        if timeout:
            def _alarm(*a):
                raise _Timeout()
            old = signal.signal(signal.SIGVTALRM, _alarm)
            signal.setitimer(signal.ITIMER_VIRTUAL, timeout)     # CPU time of this process, not wall clock
            try:
                I["resolve"](blocks, wt)
            finally:
                signal.setitimer(signal.ITIMER_VIRTUAL, 0)
                signal.signal(signal.SIGVTALRM, old)
        else:
            I["resolve"](blocks, wt)
    except Exception as e:  # noqa
        return _exc(e)
    return canon(blocks, originals)


def _b(f, *a):
    try:
        return "1" if f(*a) else "0"
    except Exception as e:  # noqa
        return _exc(e)


def real(req):
    op = req[0]
    if op == "res":
        return real_resolve(req[1], req[2], req[3])
    if op == "rest":      # the same under a timer: a call that is still running after 0.5 s answers `err fuel`
        return real_resolve(req[1], req[2], req[3], timeout=0.5)
    if op == "fl":
        set_strike(req[1])
        t = build([req[2]])[0]
        return "|".join([_b(_priv("is_left_flanking_delimiter_run"), t), _b(_priv("is_right_flanking_delimiter_run"), t),
                         _b(_priv("is_potential_opener"), t), _b(_priv("is_potential_closer"), t)])
    if op == "valid":
        set_strike(req[1])
        o, c = build([req[2], req[3]])
        return _b(_priv("is_open_close_emphasis_valid"), o, c)
    if op == "this":
        set_strike(req[1])
        t = build([req[2]])[0]
        return _b(_priv("process_this_delimiter_item"), False, [t], 0)
    if op == "classes":
        C = impl()["C"]
        ws = sorted(set(ord(c) for c in C.unicode_whitespace.value()))
        pu = sorted(set(ord(c) for c in C.punctuation_characters.value()))
        return " ".join(map(str, ws)) + "|" + " ".join(map(str, pu))
    raise ValueError(op)


# ---------------------------------------------------------------- SPY on the real parser
class Spy:
    """Replaces `EmphasisHelper.resolve_inline_emphasis` by a recording wrapper (class attribute, no source change);
    both call sites look the attribute up at call time."""

    def __init__(self):
        self.records = []      # (strike, wall, items, answer)

    def __enter__(self):
        I = impl()
        EH, orig = I["EH"], I["resolve"]
        self._old = EH.__dict__["resolve_inline_emphasis"]
        recs = self.records

        def wrapper(inline_blocks, wall_token):
            items = abstract(inline_blocks)
            originals = list(inline_blocks)
            wall = None
            if wall_token is not None:
                wall = next((i for i, b in enumerate(inline_blocks) if b is wall_token), len(inline_blocks))
            strike = current_strike()
            try:
                orig(inline_blocks, wall_token)
            except Exception as e:  # noqa
                recs.append((strike, wall, items, _exc(e)))
                raise
            recs.append((strike, wall, items, canon(inline_blocks, originals)))

        EH.resolve_inline_emphasis = staticmethod(wrapper)
        return self

    def __exit__(self, *a):
        impl()["EH"].resolve_inline_emphasis = self._old


_MODE = {"strike": None, "tk": None}


def get_parser(strike):
    """The statics (`EmphasisHelper.__inline_emphasis`, the inline handler table) are re-initialised by
    `apply_configuration`, so a parser is rebuilt whenever the mode changes."""
    import implib
    if _MODE["strike"] != strike or _MODE["tk"] is None:
        implib._PARSER.clear()
        _MODE["tk"] = implib.parser(("markdown-strikethrough",) if strike else ())
        _MODE["strike"] = strike
    return _MODE["tk"]


def spy_docs(args):
    """worker: parse documents under the spy; returns the de-duplicated records and the number of calls"""
    strike, docs = args
    tk = get_parser(strike)
    seen, calls, crashes = {}, 0, 0
    with Spy() as spy:
        for d in docs:
            spy.records.clear()
            try:
                tk.transform(d, show_debug=False)
            except Exception:  # noqa  (parser failures elsewhere are C01's business; recorded calls still count)
                crashes += 1
            calls += len(spy.records)
            for r in spy.records:
                key = (r[0], r[1], tuple(r[2]))
                if key not in seen:
                    seen[key] = (r[3], d)
    return [(k, v[0], v[1]) for k, v in seen.items()], calls, crashes


def well_formed(strike, wall, items):
    """the hypotheses of `resolve_total_partial` and `resolve_lossless_partial` (Props/Emphasis.lean: WellFormed, WallOK,
    UniformRuns) as a Python predicate; evaluated on every input the real parser hands to the function"""
    emph = "*_~" if strike else "*_"
    for it in items:
        if it is None:
            continue
        text, rep, prec, foll, active = it
        if not text:
            return False
        if text[0] in emph and (prec is None or foll is None):
            return False
        if active and rep < 1:
            return False
        if active and text[0] in emph and not (text == text[0] * len(text) and 1 <= rep <= len(text)):
            return False
    return wall is None or wall < len(items)


def direct_chunk(reqs):
    reals = [real(r) for r in reqs]
    pfs = [(k, pf) for k, (r, b) in enumerate(zip(reqs, reals)) if r[0] in ("res", "rest") for pf in [check_answer(r, b)] if pf]
    return reals, [encode(r) for r in reqs], pfs


# ---------------------------------------------------------------- document spaces (closed)
EXT_ALPHABET = ["*", "_", "~", "a", " ", ".", "(", ")", "[", "]", "!", "\\", "\u00a0", "\u00a1"]


def ext_strings(maxlen):
    """all strings over EXT_ALPHABET up to maxlen that contain a delimiter character and have no outer blanks"""
    out = []
    for n in range(1, maxlen + 1):
        for t in itertools.product(EXT_ALPHABET, repeat=n):
            if "*" in t or "_" in t or "~" in t:
                s = "".join(t)
                if s[0] != " " and s[-1] != " ":
                    out.append(s)
    return out


def wall_docs():
    """inline links / images around and inside emphasis: the calls with a wall token"""
    parts = [""] + ["".join(t) for n in (1, 2) for t in itertools.product("*_~a", repeat=n)]
    out = []
    for pre in parts:
        for mid in parts:
            for post in parts:
                if "*" in pre + mid + post or "_" in pre + mid + post or "~" in pre + mid + post:
                    out.append("%s[%s](u)%s" % (pre, mid, post))
    for pre in parts:
        for mid in parts:
            out.append("%s![%s](u)*" % (pre, mid))
            out.append("*[%s[%s](u)*](v)*" % (pre, mid))
    return list(dict.fromkeys(out))


# ---------------------------------------------------------------- synthetic lists (closed)
NEIGH = [" ", ".", "a"]          # whitespace / punctuation / other, as one neighbouring character
FLANK = [(" ", "a"), ("a", " "), ("a", "a")]       # opener only / closer only / both


def kinds_full():
    """every delimiter run shape the decisions can distinguish on one token + inert tokens + a plain token"""
    k = [None]
    for ch in "*_~":
        for rep in (1, 2, 3):
            for p in NEIGH:
                for f in NEIGH:
                    k.append((ch * rep, rep, p, f, True))
    for ch in "*_~":
        for rep in (1, 2):
            k.append((ch * rep, rep, "a", "a", False))
    k += [("[", 1, None, None, True), ("[", 1, None, None, False), ("![", 2, None, None, True), ("]", 1, None, None, True)]
    return k


def kinds_mid():
    k = [None]
    for ch, reps in (("*", (1, 2, 3)), ("_", (1, 2)), ("~", (1, 2))):
        for rep in reps:
            for p, f in FLANK:
                k.append((ch * rep, rep, p, f, True))
    k += [("~~~", 3, "a", "a", True), ("*", 1, "a", "a", False), ("[", 1, None, None, True), ("]", 1, None, None, True)]
    return k


def kinds_small():
    k = [None]
    for ch in "*_":
        for rep in (1, 2):
            for p, f in FLANK:
                k.append((ch * rep, rep, p, f, True))
    return k


def kinds_star():
    """one character, both-flanking runs of length 1..4 and a plain token: the rule-of-3 space"""
    return [None] + [("*" * rep, rep, p, f, True) for rep in (1, 2, 3, 4) for p, f in FLANK]


def lists(kinds, n):
    return itertools.product(kinds, repeat=n)


def ill_formed():
    """items outside the parser's invariant (`repeat == len(text) >= 1`, neighbours present on emphasis characters):
    every explicit exception of the model must be the real one"""
    bad = [("", 0, "a", "a", True), ("", 1, "a", "a", True), ("*", 1, None, "a", True), ("*", 1, "a", None, True),
           ("_", 1, None, None, True), ("~", 1, None, None, True), ("**", 1, "a", "a", True), ("*", 2, "a", "a", True),
           ("~~~", 2, "a", "a", True), ("~~", 3, "a", "a", True), ("*", -1, "a", "a", False), ("**", -1, "a", "a", False),
           ("*", 0, "a", "a", False), ("*", 0, " ", " ", True), ("x", 1, "a", "a", True), ("*x", 2, "a", "a", True),
           ("*", 1, "", "", True), ("*", 1, "ab", "cd", True), ("_", 1, "a.", ".a", True)]
    good = [None, ("*", 1, " ", "a", True), ("*", 1, "a", " ", True), ("*", 1, "a", "a", True), ("_", 2, "a", "a", True),
            ("~", 1, "a", "a", True), ("[", 1, None, None, True)]
    out = []
    pool = bad + good
    for n in (1, 2, 3):
        for t in itertools.product(pool, repeat=n):
            if any(x in bad for x in t):
                out.append(list(t))
    return out


def hash_pick(key, k, salt):
    """seed-independent slice: keep 1 in k"""
    import zlib
    return zlib.crc32((salt + "\0" + key).encode("utf-8", "surrogatepass")) % k == 0


# ---------------------------------------------------------------- comparison
def check_answer(req, ans):
    """Direct oracles on an answer of the REAL function (theorems 2 and 3 evaluated on the implementation's output):
    well-nestedness of the emitted emphasis tokens, conservation per delimiter character, non-special tokens preserved in
    order, special tokens in order and removed only at repeat count 0, no negative repeat count on well-formed input.  Returns the names of the violated ones."""
    if not ans.startswith("ok|"):
        return []
    _, bs, ts = ans.split("|")
    blocks = bs.split(";") if bs else []
    stack = [t.split(",") for t in ts.split(";")] if ts else []
    items = req[3]
    specials = [it for it in items if it is not None]
    bad = []
    st = []
    nested = True
    for b in blocks:
        if b[0] == "+":
            st.append(b[1:])
        elif b[0] == "-":
            if not st or st.pop() != b[1:]:
                nested = False
                break
    if not nested or st:
        bad.append("well-nested")
    chars = set(it[0][0] for it in specials if it[0])
    for ch in chars:
        want = sum(it[1] for it in specials if it[0] and it[0][0] == ch)
        got = 0
        for b in blocks:
            if b[0] in "+-":
                n, cp = b[1:].split(":")
                if chr(int(cp)) == ch:
                    got += int(n)
            elif b[0] == "s":
                i = int(b[1:])
                if specials[i][0] and specials[i][0][0] == ch:
                    got += int(stack[i][1])
        if got != want:
            bad.append("conservation")
            break
    if [int(b[1:]) for b in blocks if b[0] == "p"] != [i for i, it in enumerate(items) if it is None]:
        bad.append("plains")
    sids = [int(b[1:]) for b in blocks if b[0] == "s"]
    if sids != sorted(set(sids)) or any(int(stack[i][1]) != 0 for i in range(len(stack)) if i not in sids):
        bad.append("specials")
    if well_formed(req[1], req[2], items) and all(it is None or it[1] >= 0 for it in items) and any(int(t[1]) < 0 for t in stack):
        bad.append("nonneg")
    return bad


def drive(lines, workers=8):
    """the model's answers; big batches are split over several driver processes (threads only wait for them)"""
    if len(lines) < 20000:
        return vlib.Driver("emph").run(lines)
    from concurrent.futures import ThreadPoolExecutor
    n = (len(lines) + workers - 1) // workers
    parts = [lines[i:i + n] for i in range(0, len(lines), n)]
    with ThreadPoolExecutor(len(parts)) as ex:
        res = list(ex.map(lambda p: vlib.Driver("emph").run(p), parts))
    return [a for r in res for a in r]


def encode_chunk(reqs):
    return [encode(r) for r in reqs]


def compare(reqs, reals, label, out, docs=None, lines=None, pfs=None):
    """reqs -> driver, diff with `reals`; disagreements appended to out['disagree'] (capped)"""
    ans = drive(lines if lines is not None else [encode(r) for r in reqs])
    bad = 0
    if pfs is None:
        pfs = [(k, pf) for k, (r, b) in enumerate(zip(reqs, reals)) if r[0] in ("res", "rest") for pf in [check_answer(r, b)] if pf]
    for k, pf in pfs:
        out["property_failures"] = out.get("property_failures", 0) + 1
        if len(out.setdefault("property_failure_samples", [])) < 10:
            d = {"space": label, "request": repr(reqs[k]), "real": reals[k], "violated": pf}
            if docs is not None:
                d["document"] = docs[k]
            out["property_failure_samples"].append(d)
    for k, (r, a, b) in enumerate(zip(reqs, ans, reals)):
        if a != b:
            bad += 1
            if len(out["disagree"]) < 25:
                d = {"space": label, "request": repr(r), "model": a, "real": b}
                if docs is not None:
                    d["document"] = docs[k]
                out["disagree"].append(d)
    out["counts"][label] = out["counts"].get(label, 0) + len(reqs)
    out["bad"][label] = out["bad"].get(label, 0) + bad
    return bad


def _pool():
    return multiprocessing.get_context("fork").Pool(min(16, os.cpu_count() or 1))


def _chunks(seq, n):
    seq = list(seq)
    return [seq[i:i + n] for i in range(0, len(seq), n)]


def run_spy(pool, docsets, out):
    """docsets: [(label, strike, docs)]"""
    import time
    for label, strike, docs in docsets:
        t0 = time.time()
        jobs = [(strike, c) for c in _chunks(docs, 400)]
        merged, calls, crashes = {}, 0, 0
        for recs, n, cr in pool.imap_unordered(spy_docs, jobs):
            calls += n
            crashes += cr
            for key, ans, doc in recs:
                merged.setdefault(key, (ans, doc))
        keys = list(merged)
        reqs = [("res", k[0], k[1], list(k[2])) for k in keys]
        compare(reqs, [merged[k][0] for k in keys], label, out, docs=[merged[k][1] for k in keys])
        out.setdefault("hypotheses_violated", {})[label] = sum(1 for k in keys if not well_formed(k[0], k[1], k[2]))
        out["calls"][label] = calls
        out["docs"][label] = len(docs)
        out["parser_failures"][label] = crashes
        out.setdefault("time", {})[label] = round(time.time() - t0, 1)


def run_direct(pool, label, reqs, out, batch=200000):
    import time
    t0 = time.time()
    it = iter(reqs)
    while True:
        part = list(itertools.islice(it, batch))
        if not part:
            break
        reals, lines, pfs = [], [], []
        for r, l, pf in pool.imap(direct_chunk, _chunks(part, 2500)):
            pfs += [(len(reals) + k, v) for k, v in pf]
            reals += r
            lines += l
        compare(part, reals, label, out, lines=lines, pfs=pfs)
    out.setdefault("time", {})[label] = round(out.get("time", {}).get(label, 0) + time.time() - t0, 1)


def sample_requests(rng, kinds, n, strikes, k, walls=False):
    """k requests drawn uniformly from `direct_requests(kinds, n, strikes, walls)` without enumerating it"""
    out = []
    for _ in range(k):
        items = [kinds[rng.randrange(len(kinds))] for _ in range(n)]
        w = rng.choice([None] + list(range(n + 1))) if walls else None
        out.append(("res", rng.choice(list(strikes)), w, items))
    return out


def direct_requests(kinds, n, strikes, walls=False):
    for t in lists(kinds, n):
        items = list(t)
        ws = [None] + (list(range(n + 1)) if walls else [])
        for w in ws:
            for s in strikes:
                yield ("res", s, w, items)


def flank_requests():
    """every character of both tables and a sample of others as each neighbour; every delimiter character and text length"""
    C = impl()["C"]
    chars = sorted(set(C.unicode_whitespace.value()) | set(C.punctuation_characters.value())
                   | set("a0Z\u00e9\u00a3\u00d7\u20ac\U000110c1\U000100c1\uff5f\uff60\u000b\u0085\u200b\u2028"))
    reqs = []
    for strike in (False, True):
        for ch in "*_~":
            for n in (1, 2, 3, 4):
                for p in NEIGH + ["", "a ", " a", "\u00a0", "\u00a1"]:
                    for f in NEIGH + ["", "a ", " a", "\u00a0", "\u00a1"]:
                        reqs.append(("fl", strike, (ch * n, n, p, f, True)))
    for x in chars:
        for other in ("a", " ", "."):
            for ch in "*_":
                reqs.append(("fl", False, (ch, 1, x, other, True)))
                reqs.append(("fl", False, (ch, 1, other, x, True)))
    for it in [("*", 1, None, "a", True), ("*", 1, "a", None, True), ("", 0, "a", "a", True), ("x", 1, "a", "a", True),
               ("~", 1, "a", "a", True), ("[", 1, None, None, True)]:
        for strike in (False, True):
            reqs.append(("fl", strike, it))
    return reqs


def valid_requests():
    ks = [k for k in kinds_full() if k is not None] + [("", 0, "a", "a", True), ("*", 1, None, None, True)]
    return [("valid", s, o, c) for s in (False, True) for o in ks for c in ks] + \
           [("this", s, k) for s in (False, True) for k in ks]


def divergence(out):
    """the excluded point of `resolve_total_partial`: an active emphasis token with repeat_count 0.
    Model: out of fuel for every fuel tried; real code: still running after 2 s (inserting tokens for ever)."""
    items = [("*", 0, " ", "a", True), ("*", 0, "a", " ", True)]
    model = vlib.Driver("emph").run([encode(("resf", f, False, None, items)) for f in (10, 100, 500)])
    realans = real_resolve(False, None, items, timeout=1.0)
    out["divergence"] = {"items": repr(items), "model": model, "real": realans}
    return all(m == "err fuel" for m in model) and realans == "err fuel"


def leanmark_compare(kinds, n_max, out, pick=None):
    """model vs model: faithful / original-length variant / LeanMark's procEmph on abstract lists"""
    reqs = []
    for n in range(1, n_max + 1):
        for t in lists(kinds, n):
            if pick is None or n < n_max or pick(repr(t)):
                reqs.append(("lm", list(t)))
    ans = drive([encode(r) for r in reqs])
    agree_py = agree_orig = 0
    dev, bad = [], []
    for r, a in zip(reqs, ans):
        py, orig, lm = a.split("|")
        if py == lm:
            agree_py += 1
        elif len(dev) < 10:
            dev.append({"items": repr(r[1]), "py": py, "leanmark": lm})
        if orig == lm:
            agree_orig += 1
        elif len(bad) < 10:
            bad.append({"items": repr(r[1]), "orig": orig, "leanmark": lm})
    out["leanmark"] = {"lists": len(reqs), "faithful_eq_leanmark": agree_py, "origvariant_eq_leanmark": agree_orig,
                       "rule3_deviation_samples": dev, "origvariant_disagreements": bad}
    return len(reqs) - agree_orig


def rule3_real(out):
    """the deviation witness at document level: the real parser's HTML on the shortest documents where the rule of 3 on the
    remaining counts and on the run lengths decide differently (CommonMark 0.31.2 §6.2 rules 9/10; cmark and
    commonmark.js use the run lengths)."""
    import leanmarklib
    from pymarkdown.transform_gfm.transform_to_gfm import TransformToGfm
    docs = ["*a***a*", "***a*a*a", "****a***a", "*a****a**"]
    tk = get_parser(False)
    lm = leanmarklib.html(docs)
    res = []
    for d, h in zip(docs, lm):
        g = TransformToGfm().transform(tk.transform(d, show_debug=False))
        res.append({"doc": d, "pymarkdown": g.strip(), "leanmark": h.strip()})
    out["rule3_documents"] = res


def class_report(out):
    """where the code's classes differ from the specification's (information, not a disagreement)"""
    import unicodedata
    C = impl()["C"]
    pu = set(ord(c) for c in C.punctuation_characters.value())
    ws = set(ord(c) for c in C.unicode_whitespace.value())
    P = set(c for c in range(0x110000) if unicodedata.category(chr(c))[0] == "P")
    S = set(c for c in range(0x110000) if unicodedata.category(chr(c))[0] == "S")
    Zs = set(c for c in range(0x110000) if unicodedata.category(chr(c)) == "Zs") | {9, 10, 12, 13}
    out["classes"] = {"unicode": unicodedata.unidata_version, "table_punct": len(pu),
                      "P_missing_from_table": len(P - pu), "P_missing_sample": ["U+%04X" % c for c in sorted(P - pu)[:8]],
                      "S_missing_from_table(0.31.2 counts S as punctuation)": len(S - pu),
                      "in_table_not_P_or_S": ["U+%04X" % c for c in sorted(pu - P - S)],
                      "whitespace_equals_spec": ws == Zs}


# ---------------------------------------------------------------- entry
def run(ctx, quick):
    """Correspondence run.  Returns coverage; disagreements are in ctx.broken and in the returned dict
    (`disagree`: request, model answer, real answer, and the document for spy records)."""
    import docs as D
    out = {"counts": {}, "bad": {}, "calls": {}, "docs": {}, "parser_failures": {}, "disagree": []}
    rng = ctx.rng

    def sample(seq, k):
        seq = list(seq)
        return seq if len(seq) <= k else rng.sample(seq, k)

    with _pool() as pool:
        # ---- SPY
        emph = D.inline_emph()
        ext4, ext5 = ext_strings(4), None
        walls = wall_docs()
        corpus = D.repo_sources()
        if quick:
            sets = [("spy-inline-emph", False, [d for d in emph if len(d) <= 5] + sample([d for d in emph if len(d) > 5], 2500)),
                    ("spy-ext", True, [d for d in ext4 if len(d) <= 3] + sample([d for d in ext4 if len(d) == 4], 3000)),
                    ("spy-ext-off", False, [d for d in ext4 if len(d) <= 2] + sample([d for d in ext4 if len(d) >= 3], 2000)),
                    ("spy-wall", True, sample(walls, 1500)),
                    ("spy-wall-off", False, sample(walls, 500)),
                    ("spy-corpus", False, sample(corpus, 800)),
                    ("spy-corpus-strike", True, sample(corpus, 400))]
        else:
            ext5 = ext_strings(5)
            sets = [("spy-inline-emph", False, emph), ("spy-inline-emph-strike", True, emph),
                    ("spy-ext", True, ext5),
                    ("spy-ext-off", False, ext4 + [d for d in ext5 if len(d) == 5 and "~" in d and hash_pick(d, 3, "ext5off")]),
                    ("spy-wall", True, walls), ("spy-wall-off", False, walls),
                    ("spy-corpus", False, corpus), ("spy-corpus-strike", True, corpus)]
        run_spy(pool, sets, out)

        # ---- DIRECT
        full, mid, small, star = kinds_full(), kinds_mid(), kinds_small(), kinds_star()
        both = (False, True)
        run_direct(pool, "direct-full<=2-walls", itertools.chain(direct_requests(full, 1, both, True), direct_requests(full, 2, both, True)), out)
        illf = [("rest", s, w, it) for it in ill_formed() for s in both for w in (None, 0, len(it))]
        run_direct(pool, "direct-ill-formed", sample(illf, 30000) if quick else illf, out)
        if quick:
            run_direct(pool, "direct-mid3-walls", sample_requests(rng, mid, 3, both, 20000, True), out)
            run_direct(pool, "direct-mid4", sample_requests(rng, mid, 4, both, 20000), out)
            run_direct(pool, "direct-small<=4", itertools.chain(*[direct_requests(small, n, (False,)) for n in (1, 2, 3, 4)]), out)
            run_direct(pool, "direct-small5", sample_requests(rng, small, 5, (False,), 30000), out)
            run_direct(pool, "direct-star<=4", itertools.chain(*[direct_requests(star, n, (False,)) for n in (1, 2, 3, 4)]), out)
        else:
            run_direct(pool, "direct-mid3-walls", direct_requests(mid, 3, both, True), out)
            run_direct(pool, "direct-mid4", direct_requests(mid, 4, both), out)
            run_direct(pool, "direct-small<=5", itertools.chain(*[direct_requests(small, n, (False,)) for n in (1, 2, 3, 4, 5)]), out)
            run_direct(pool, "direct-small6-slice", (r for r in direct_requests(small, 6, (False,)) if hash_pick(repr(r[3]), 16, "small6")), out)
            run_direct(pool, "direct-star<=5", itertools.chain(*[direct_requests(star, n, (False,)) for n in (1, 2, 3, 4, 5)]), out)
        run_direct(pool, "flanking", flank_requests(), out)
        run_direct(pool, "valid-pairs", valid_requests(), out)
    compare([("classes",)], [real(("classes",))], "class-tables", out)
    if not divergence(out):
        ctx.broken.append("correspondence emph: divergence witness (repeat_count 0) not reproduced: %r" % (out["divergence"],))
    import time
    t0 = time.time()
    nbad = leanmark_compare(kinds_small(), 4 if quick else 5, out)
    out["time"]["leanmark"] = round(time.time() - t0, 1)
    if nbad:
        ctx.broken.append("correspondence emph: original-length variant differs from LeanMark procEmph on %d lists" % nbad)
    rule3_real(out)
    if not quick:
        class_report(out)
    hv = sum(out.get("hypotheses_violated", {}).values())
    if hv:
        ctx.broken.append("correspondence emph: %d inputs produced by the real parser violate WellFormed / UniformRuns / WallOK" % hv)
    total_bad = sum(out["bad"].values())
    if total_bad:
        ctx.broken.append("correspondence emph: %d disagreements, first: %r" % (total_bad, out["disagree"][0]))
    out.setdefault("property_failures", 0)
    out["requests"] = sum(out["counts"].values())
    out["disagreements"] = total_bad
    return out


if __name__ == "__main__":
    import json, time
    t0 = time.time()
    ctx = vlib.Ctx("C04", "quick" if "--quick" in sys.argv else "thorough", int(os.environ.get("VERIF_SEED", "1")))
    res = run(ctx, ctx.quick())
    res["wall_s"] = round(time.time() - t0, 1)
    print(json.dumps(res, indent=1, ensure_ascii=True, default=str))
    print("BROKEN", ctx.broken)
