"""Function-level correspondence of `lean/Verif/Model/LeafBlocks2.lean` (driver `leafblocks2`) with the REAL pymarkdown
functions, called in-process (private ones through name mangling, parser state = stand-in objects that carry exactly the
attributes the functions read, as in tools/recoglib.py; no source change):

  html   HtmlHelper.is_html_block / __check_for_special_html_blocks / __check_for_normal_html_blocks,
         check_normal_html_block_end, check_blank_html_block_end          (ops hb hs hn he hbl)
         + whole documents through the real parser: HTML block token boundaries = the model's start / end decisions (op hd)
         + the type-6 tag table regenerated from the source, compared with the model's table and with CommonMark 0.29 / 0.31.2
         + CPython table check: `str.lower` per code point as the model sees it
  fence  FencedLeafBlockProcessor.handle_fenced_code_block for a line inside an open fenced block (op fl)
         + whole documents: the text / end tokens of the real parser = the model's (op fd)
  icode  IndentedLeafBlockProcessor.parse_indented_code_block, container-free (op il) + whole documents (op id)

The space is closed: all concatenations of <= n atoms of a per-family atom list (multi-character atoms for the special tag
names); quick = all short ones + a `ctx.rng` sample of the rest; thorough = everything."""
import itertools, multiprocessing as mp, os, sys, types
from collections import Counter

sys.path.insert(0, os.path.dirname(os.path.abspath(__file__)))
import vlib

H = vlib.hexs
KELVIN = "\u212a"


def hx(s):
    return "=" + H(s)


class _Tok:
    """A stack token that answers False to every `is_*` question except the ones given."""

    def __init__(self, **kw):
        self.__dict__.update(kw)

    def __getattr__(self, name):
        if name.startswith("is_") or name.startswith("was_"):
            return False
        raise AttributeError(name)


_IMPL = {}


def impl():
    if _IMPL:
        return _IMPL
    from pymarkdown.html.html_helper import HtmlHelper as HH
    from pymarkdown.general.position_marker import PositionMarker
    from pymarkdown.general.tab_helper import TabHelper as TH
    from pymarkdown.leaf_blocks.fenced_leaf_block_processor import FencedLeafBlockProcessor as FEN
    from pymarkdown.leaf_blocks.indented_leaf_block_processor import IndentedLeafBlockProcessor as ICB
    from pymarkdown.block_quotes.block_quote_data import BlockQuoteData
    from pymarkdown.tokens.stack_token import FencedCodeBlockStackToken, IndentedCodeBlockStackToken, DocumentStackToken
    _IMPL.update(HH=HH, PM=PositionMarker, TH=TH, FEN=FEN, ICB=ICB, BQD=BlockQuoteData, FST=FencedCodeBlockStackToken,
                 IST=IndentedCodeBlockStackToken, DST=DocumentStackToken)
    return _IMPL


def _priv(cls, name):
    return getattr(cls, "_%s__%s" % (cls.__name__, name))


def lead(s):
    i = 0
    while i < len(s) and s[i] in " \t":
        i += 1
    return i, s[:i]


PROPS = types.SimpleNamespace(is_disallow_raw_html_enabled=False, disallow_raw_html=None)


def _stack(in_para):
    doc = _Tok(is_document=True)
    return [doc, _Tok(is_paragraph=True)] if in_para else [doc]


def enc_arg(a):
    if isinstance(a, bool):
        return "1" if a else "0"
    if isinstance(a, int):
        return str(a)
    return H(a)


def encode(req):
    if req[0] in ("hd", "fd", "id"):
        return "|".join([req[0]] + [enc_arg(a) for a in req[1:-1]] + [H(l) for l in req[-1]])
    return "|".join([req[0]] + [enc_arg(a) for a in req[1:]])


def real(req):
    I = impl()
    HH = I["HH"]
    op, a = req[0], req[1:]
    try:
        if op == "hs":
            r = _priv(HH, "check_for_special_html_blocks")(a[0], a[1])
            return "none" if r is None else r
        if op == "hn":
            r = _priv(HH, "check_for_normal_html_blocks")(a[0], a[1], a[2])
            return "none" if r is None else r
        if op == "hb":
            t, tag = HH.is_html_block(a[0], a[1], a[2], _stack(a[3]), PROPS, a[4])
            return "none" if t is None else "%s|%s" % (t, hx(tag))
        if op == "he":
            return _html_end(I, a[0], a[1])
        if op == "hbl":
            st = types.SimpleNamespace(token_stack=[_Tok(is_document=True), _Tok(is_html_block=True, html_block_type=str(a[0]))],
                                       close_open_blocks_fn=lambda *x, **k: (["END"], None))
            return "1" if HH.check_blank_html_block_end(st) else "0"
        if op == "hd":
            return _html_doc(a[0], a[1])
        if op == "fl":
            return _fence_line(I, *a)
        if op == "fd":
            return _fence_doc(a[0])
        if op == "il":
            return _icode_line(I, *a)
        if op == "id":
            return _icode_doc(a[0])
    except IndexError:
        return "err index"
    except AssertionError:
        return "err assertion"
    except Exception as e:
        c = e                                   # the parser wraps the root exception in BadTokenizationError
        while c.__cause__ is not None or c.__context__ is not None:
            c = c.__cause__ or c.__context__
        return {"IndexError": "err index", "AssertionError": "err assertion"}.get(type(c).__name__, "err %s" % type(c).__name__)
    return "bad-op"


def _html_end(I, ty, line):
    """check_normal_html_block_end on a tab-free line of an open block of type `ty` -> terminated | ws | text"""
    start, ws = lead(line)
    st = types.SimpleNamespace(token_stack=[_Tok(is_document=True), _Tok(is_html_block=True, html_block_type=str(ty))],
                               close_open_blocks_fn=lambda *x, **k: (["END"], None), parse_properties=PROPS)
    toks = I["HH"].check_normal_html_block_end(st, line, start, ws, I["PM"](1, start, line), line, False)
    t = toks[0]
    assert t.is_text and len(toks) in (1, 2)
    return "%d|%s|%s" % (len(toks) - 1, hx(t.extracted_whitespace), hx(t.token_text))


def _parse(doc):
    import implib
    return implib.parser().transform(doc)


def _html_doc(in_para, lines):
    """the real parser on `a\\n`? + lines: the HTML block that starts on the first of `lines` -> lines in the block"""
    doc = ("a\n" if in_para else "") + "\n".join(lines)
    first = 2 if in_para else 1
    toks = _parse(doc)
    k, inside, seen = 0, False, False
    for t in toks:
        if t.is_html_block:
            if t.line_number != first or seen:
                if not inside and not seen:
                    return "none"
                continue
            inside = seen = True
            continue
        if inside:
            if t.is_html_block_end:
                inside = False
            elif t.is_text:
                k += t.token_text.count("\n") + 1
            elif t.is_blank_line:
                k += 1
            else:
                return "odd-token %s" % t.token_name
    return "none" if not seen else "T|%d" % k



def _fence_line(I, fchar, fcount, n, line):
    """handle_fenced_code_block on the line `line` with [document, fenced(fchar, fcount, whitespace_start_count = n)] on the stack"""
    T = I["TH"].detabify_string(line)
    idx, ws = lead(T)
    fenced = _Tok(is_fenced_code_block=True, code_fence_character=fchar, fence_character_count=fcount, whitespace_start_count=n,
                  generate_close_markdown_token_from_stack_token=lambda ews, extra_end_data=None: ("END", ews, extra_end_data))
    st = types.SimpleNamespace(token_stack=[_Tok(is_document=True), fenced], token_document=[], parse_properties=PROPS)
    new_tokens = []
    ok = I["FEN"].handle_fenced_code_block(st, I["PM"](2, idx, T), ws, new_tokens, line, 0, I["BQD"](0, 0),
                                           types.SimpleNamespace(indent_used_by_list=None))
    if not ok or len(new_tokens) != 1:
        return "odd %r %d" % (ok, len(new_tokens))
    t = new_tokens[0]
    if isinstance(t, tuple):
        sp, _, cnt = t[2].rpartition(":")
        return "close|%s|%s|%s" % (hx(t[1]), hx(sp), cnt)
    return "text|%s|%s" % (hx(t.extracted_whitespace), hx(t.token_text))


def _fence_doc(lines):
    """the real parser on the document: the (coalesced) text token of the fenced block that starts on line 1"""
    toks = _parse("\n".join(lines))
    if not toks or not toks[0].is_fenced_code_block:
        return "none"
    if len(toks) < 2:
        return "odd"
    closed = lambda t: "0" if t.was_forced else "1"
    if toks[1].is_fenced_code_block_end:
        return "empty|" + closed(toks[1])
    t = toks[1]
    if not t.is_text or len(toks) < 3 or not toks[2].is_fenced_code_block_end:
        return "odd-token"
    text = t.token_text.replace("\a>\a&gt;\a", ">")          # the inline pass escapes `>` with a replacement marker
    return "T|%s|%s|%s" % (hx(t.extracted_whitespace), hx(text), closed(toks[2]))


def _icode_line(I, line, in_block, in_para):
    T = I["TH"].detabify_string(line)
    idx, ws = lead(T)
    stack = [_Tok(is_document=True)]
    if in_block:
        stack.append(_Tok(is_indented_code_block=True))
    if in_para:
        stack.append(_Tok(is_paragraph=True))
    st = types.SimpleNamespace(token_stack=stack, find_last_block_quote_on_stack=lambda: 0, find_last_list_block_on_stack=lambda: 0)
    toks = I["ICB"].parse_indented_code_block(st, I["PM"](1, idx, T), ws, 0, 0, line)
    if not toks:
        return "none"
    t = toks[-1]
    if len(toks) == 2:
        head = "open" + hx(toks[0].extracted_whitespace)
        content = t.extracted_whitespace + t.token_text
    else:
        head = "cont"
        w = t.extracted_whitespace
        content = ("" if len(w) < 4 else w[4:]) + t.token_text          # TextMarkdownToken.combine, remove_leading_spaces = 4
    return "%s|%s|%s|%s" % (head, hx(t.extracted_whitespace), hx(t.token_text), hx(content))


def _icode_doc(lines):
    """the real parser + HTML generator on a document of indented lines (no blank ones, no HTML-special characters):
    the code content line by line"""
    from pymarkdown.transform_gfm.transform_to_gfm import TransformToGfm
    toks = _parse("\n".join(lines))
    if not toks or not toks[0].is_indented_code_block:
        return "none"
    html = TransformToGfm().transform(toks)
    pre, post = "<pre><code>", "\n</code></pre>"
    if not (html.startswith(pre) and html.endswith(post)):
        return "odd-html"
    return "T|" + hx(html[len(pre):-len(post)])


# ---------------------------------------------------------------- html: spaces
HTML_ATOMS = ["<", ">", "/", "!", "?", "-", "--", "[", "[CDATA[", "script", "pre", "style", "textarea", "div", "h1", "a", "b-1",
              "A", "Z", KELVIN, " ", "\t", "=", '"', "'", "x1", ":"]
HTML_ATOMS_SMALL = ["<", ">", "/", "!", "-", "pre", "div", "a", "A", " ", "=", '"']
END_ATOMS = ["</script>", "</pre>", "</style>", "</textarea>", "</SCRIPT>", "</", "-->", "--", "-", "?>", ">", "]]>", "]", "?", " ", "a",
             "<"]


# beyond the atom bound: quoted attribute values, characters whose case mappings differ between `lower` and `casefold`, long names
HTML_EXTRA = ["\u017fcript>", "\u017ftyle x", "di\u0130v>", "a b='c'>", "a b='c' d=\"e\" f=g h/>", "a b='c", "a b=\"c", "a b= 'c' >", "a b = c>",
              "a b='c'd>", "a b=>", "a b=c\"d>", "a  b  >", "a b c=d/> ", "/a  >  ", "/a b>", "a/>x", "blockquote>", "BLOCKQUOTE", "/Blockquote/>",
              "menuitem ", "textarea>", "search>", "source>", "h7>", "a-b-c d-e=f>", "a _x:y.z-w=1>", "a .b>", "a b=c`d>", "a b=c<d>", "1>", "->", "a1/>",
              "![CDATA[x]]>", "!-->", "!-", "!DOCTYPE html>", "?>", "!--->", "script", "scripts>", "script/>", "pre >", "style\t", "a\x0c>", "a >\x0c", "a>\x0b"]


def atom_strings(atoms, n):
    for k in range(n + 1):
        for t in itertools.product(atoms, repeat=k):
            yield "".join(t)


def html_start_requests(s):
    out = []
    for pre in ("", " ", "   ", "    "):
        line = pre + "<" + s
        i, w = lead(line)
        out.append(("hb", line, i, w, False, False))
        if pre in ("", "    "):
            out.append(("hb", line, i, w, True, pre != ""))
    line = "<" + s
    for k in range(len(line)):
        if k and line[k] == "<":
            out.append(("hb", line, k, "", False, False))
    for k in range(min(len(line), 3) + 2):
        out.append(("hs", line, k))
    return out


def html_normal_requests(s):
    """__check_for_normal_html_blocks called directly, also with tag / index pairs its caller never produces"""
    line = "<" + s
    out = []
    for tag in ("a", "/a", "div", "/div/", "a/", "pre", "", "/"):
        for k in range(len(line) + 2):
            out.append(("hn", tag, line, k))
    return out


def html_end_requests(s):
    out = []
    for pre in ("", "  "):
        for ty in range(1, 8):
            out.append(("he", ty, pre + s))
    return out


DOC_FIRST = ["<script>", "<pre", "<style >x</style>", "<textarea>", "<!--", "<!-- -->", "<?", "<? ?>", "<!A", "<!A>", "<!a", "<![CDATA[",
             "<![CDATA[]]>", "<div>", "</div", "<div/>", "<a>", "</a>", "<a b=c>", "<a", "  <b>", "    <b>", "<" + KELVIN + ">", "<lin" + KELVIN + ">",
             "<a>x", "<a> ", "<pre>x</pre>", "<SCRIPT>", "<a\tb>", "<script\tx>", "<a b>\t", "<Div\t>", "<a B>", "<a 1>", "<a b='c'/>"]
DOC_NEXT = ["", " ", "x", "</script>", "x</pre>y", "</STYLE>", "</textarea>", "-->", "?>", ">", "]]>", "  a >", "<a>", "> x", "- x",
            "\t-->", "    ?>", "</pre"]


def html_doc_requests(quick, rng):
    out = []
    for f in DOC_FIRST:
        for para in (False, True):
            out.append(("hd", para, [f]))
            for n1 in DOC_NEXT:
                out.append(("hd", para, [f, n1]))
        for n1 in DOC_NEXT:
            for n2 in DOC_NEXT:
                out.append(("hd", False, [f, n1, n2]))
    total = len(out)
    if quick:
        out = rng.sample(out, 3000)
    return out, total



# ---------------------------------------------------------------- fence / icode spaces
FENCE_ATOMS = [" ", "  ", "\t", "`", "```", "````", "~~~", "a", "b", ">"]
ICODE_ATOMS = [" ", "  ", "    ", "\t", "a", "b", "-", "\x0c"]


def nonblank(s):
    return s.strip(" \t\n\x0b\x0c\r") != ""


def fence_line_requests(s):
    out = []
    for fc, fn in (("`", 3), ("~", 3), ("`", 4)):
        for n in range(4):
            out.append(("fl", fc, fn, n, s))
    return out


FENCE_OPEN = ["```", " ```", "  ```", "   ```", "~~~", "  ~~~~", "```` x", " ``` a b"]
FENCE_BODY = ["a", " a", "  a", "   a", "    a", "     a b", "\ta", " \ta", "  \ta", "   \ta", "\t\ta", "\t a", "a\tb", "\ta\tb", "  a\tb",
              "```", " ```", "  ```", "   ```", "    ```", "````", "``` ", "```\t", "``` x", "  ``` x", "  ```\tx", "~~~", " ~~~~  ", "``", "`x`",
              ">\ta", "> a", "- a", "\x0ca"]


def fence_doc_requests(quick, rng):
    out = []
    for o in FENCE_OPEN:
        out.append(("fd", [o]))
        for b1 in FENCE_BODY:
            out.append(("fd", [o, b1]))
            for b2 in FENCE_BODY:
                out.append(("fd", [o, b1, b2]))
    total = len(out)
    if quick:
        out = rng.sample(out, 2500)
    return out, total


def icode_doc_lines(n):
    lines = [p + t for p in ("    ", "     ", "\t", " \t", "  \t ", "   \t\t", "\t \t", "      ") for t in ("a", "a b", "a\tb", "-")]
    for k in range(1, n + 1):
        for t in itertools.product(lines, repeat=k):
            yield list(t)

# ---------------------------------------------------------------- table checks
CM029_BLOCK6 = ("address article aside base basefont blockquote body caption center col colgroup dd details dialog dir div dl dt "
                "fieldset figcaption figure footer form frame frameset h1 h2 h3 h4 h5 h6 head header hr html iframe legend li link main "
                "menu menuitem nav noframes ol optgroup option p param section source summary table tbody td tfoot th thead title tr "
                "track ul").split()
CM031_BLOCK6 = sorted((set(CM029_BLOCK6) - {"source"}) | {"search"})


def table_checks():
    """the tables of the source against the model's and the specification's; `str.lower` against the model's view of it"""
    I = impl()
    HH = I["HH"]
    src6 = list(getattr(HH, "_HtmlHelper__html_block_6_start"))
    src1 = list(getattr(HH, "_HtmlHelper__html_block_1_start_tag_prefix"))
    src1e = list(getattr(HH, "_HtmlHelper__html_block_1_end_tags"))
    ans = vlib.Driver("leafblocks2").run(["tables"])[0].split("|")
    m6, m1, m1e = [vlib.unhex(x[1:]) for x in ans[0].split(",")], [vlib.unhex(x[1:]) for x in ans[1].split(",")], \
        [vlib.unhex(x[1:]) for x in ans[2].split(",")]
    bad = []
    if src6 != m6:
        bad.append({"kind": "table", "what": "block6", "source": src6, "model": m6})
    if src1 != m1:
        bad.append({"kind": "table", "what": "block1", "source": src1, "model": m1})
    if src1e != m1e:
        bad.append({"kind": "table", "what": "block1 end tags", "source": src1e, "model": m1e})
    lower_bad = []
    for cp in range(0x110000):
        if 0xD800 <= cp < 0xE000:
            continue
        c = chr(cp)
        lo = c.lower()
        if cp < 128:
            want = chr(cp + 32) if 65 <= cp <= 90 else c
            ok = lo == want
        elif cp == 0x212A:
            ok = lo == "k"
        else:
            ok = any(ord(x) >= 128 for x in lo) and lo[-1] != "/" and lo[0] != "/"
        if not ok:
            lower_bad.append(cp)
    if lower_bad:
        bad.append({"kind": "table", "what": "str.lower", "code points": lower_bad[:20]})
    info = {"block6_source_eq_model": src6 == m6, "block6_vs_cm029": {"missing": sorted(set(CM029_BLOCK6) - set(src6)), "extra": sorted(set(src6) - set(CM029_BLOCK6))},
            "block6_vs_cm0312": {"missing": sorted(set(CM031_BLOCK6) - set(src6)), "extra": sorted(set(src6) - set(CM031_BLOCK6))},
            "block1_source": src1, "block1_vs_cm0312_missing": sorted({"script", "pre", "style", "textarea"} - set(src1)),
            "block1_end_source": src1e, "lower_code_points_checked": 0x110000 - 0x800, "lower_bad": len(lower_bad)}
    return info, bad



# ---------------------------------------------------------------- the real parser at the excluded points / witnesses
WITNESS_DOCS = [
    # (name, document, property, what the specification says / what happens)
    ("start_tag_slash", "<a /", "C01", "IndexError in is_complete_html_start_tag (known F-TOK-STARTTAG-SLASH)"),
    ("end_tag_upper", "<pre>\nx</PRE>\ny", "C03", "end condition 1 is case-insensitive: the block ends on line 2, `y` is a paragraph"),
    ("textarea_0312", "<textarea>\n\n*x*", "C03", "CommonMark 0.30+: kind 1 (continues over the blank line); pymarkdown: kind 7 (GFM 0.29 behaviour)"),
    ("tag_name_dash", "<->\nx", "C03", "`-` cannot start a tag name: paragraph `&lt;-&gt; x`; pymarkdown: HTML block"),
    ("tag_name_digit", "<1 a>\n*x*", "C03", "a digit cannot start a tag name: paragraph with emphasis; pymarkdown: HTML block"),
    ("attr_name_upper", "<a B>\n*x*", "C03", "complete open tag alone on the line: HTML block kind 7 (`*x*` literal); pymarkdown: paragraph + raw HTML + emphasis"),
    ("attr_name_digit", "<a 1>\n*x*", "C03", "`1` cannot start an attribute name: paragraph; pymarkdown: HTML block"),
    ("kelvin_tag", "<lin\u212a>\n*x*", "C03", "U+212A is not an ASCII letter: paragraph; pymarkdown: str.lower maps it to `k`, `link` is a kind-6 name"),
    ("decl_lower_0312", "<!a\n*x*\n>", "C03", "CommonMark 0.30+: kind 4; pymarkdown (0.29): paragraph"),
    ("fence_like_content", "  ```\n  ``` x\n  ```", "C03", "content `` ``` x `` (2 columns removed); pymarkdown keeps the indentation of a fence-like content line"),
    ("fence_tab_crash_find_tabified", "  ```\n \tb\n```", "C01", "AssertionError@tab_helper.py:find_tabified_string (container-free input of a known call site)"),
    ("fence_tab_crash_already_in", "  ```\n\t\tx\n```", "C01", "AssertionError@fenced_leaf_block_processor.py:__parse_fenced_code_block_already_in_with_tab"),
    ("fence_tab_crash_starts_tab", "  ```\n\tx\ty\n```", "C01", "AssertionError@fenced_leaf_block_processor.py:__handle_fenced_code_block_with_tab_starts_tab"),
    ("closing_fence_tab", "```\n```\t\nx", "C03", "a closing fence may be followed by spaces or TABS: block closed, `x` a paragraph; pymarkdown: content"),
    ("icode_blank_tabs", "    a\n\t\t\n    b", "C03", "the white-space-only line contributes `\\t` (4 columns removed); pymarkdown: empty line"),
]


def real_witnesses():
    import traceback
    from pymarkdown.transform_gfm.transform_to_gfm import TransformToGfm
    out, failing = {}, []
    for name, doc, prop, what in WITNESS_DOCS:
        rec = {"document": doc, "property": prop, "expected": what}
        try:
            toks = _parse(doc)
            rec["tokens"] = [str(t) for t in toks]
            rec["html"] = TransformToGfm().transform(toks)
        except Exception as e:
            c = e
            while c.__cause__ is not None or c.__context__ is not None:
                c = c.__cause__ or c.__context__
            tb = traceback.extract_tb(c.__traceback__)
            rec["exception"] = "%s@%s:%s" % (type(c).__name__, os.path.basename(tb[-1].filename), tb[-1].name)
        out[name] = rec
        failing.append({"name": name, "document": doc, "property": prop, "symptom": rec.get("exception") or rec.get("html")})
    return out, failing


MODELLED = {
    "html_helper.py": ["is_html_block", "__determine_html_block_type", "__check_for_special_html_blocks", "__check_for_normal_html_blocks",
                       "__check_for_normal_html_blocks_adjust_tag", "check_blank_html_block_end", "check_normal_html_block_end",
                       "is_complete_html_start_tag", "is_complete_html_end_tag", "extract_html_attribute_name", "extract_optional_attribute_value"],
    "fenced_leaf_block_processor.py": ["handle_fenced_code_block", "parse_fenced_code_block", "__check_for_fenced_end", "__check_for_fenced_end_with_tab",
                                       "__calculate_fenced_vars", "__parse_fenced_code_block_already_in", "__parse_fenced_code_block_already_in_with_tab",
                                       "__parse_fenced_code_block_already_in_with_tab_whitespace", "__handle_fenced_code_block_with_tab",
                                       "__handle_fenced_code_block_with_tab_starts_tab", "__handle_fenced_code_block_with_tab_not_starts_tab",
                                       "__handle_fenced_code_block_with_tab_whitespace", "__handle_fenced_code_block_with_tab_and_extracted_whitespace",
                                       "__check_for_fenced_end_with_split_tab"],
    "indented_leaf_block_processor.py": ["parse_indented_code_block", "__parse_indented_code_block_with_tab", "__process_indented_code_block",
                                         "__create_indented_block", "__prepare_for_indented_block", "__recalculate_whitespace"],
    "tab_helper.py": ["find_detabify_string", "find_tabified_string", "find_tabified_string_split", "search_for_tabbed_prefix"],
}


def line_coverage(n=40000, seed=1):
    """lines of the modelled real functions executed under a sample of the function-level space (sys.monitoring LINE events)"""
    import random
    rng = random.Random(seed)
    reqs, _ = build_requests(True, rng)
    reqs = [r for r in reqs if r[0] not in ("hd", "fd", "id")]
    reqs = rng.sample(reqs, n)
    impl()
    hit = {}
    mon = sys.monitoring
    tool = mon.COVERAGE_ID
    vlib.claim_tool(tool, "lb2")

    def on_line(code, line):
        base = os.path.basename(code.co_filename)
        if base in MODELLED:
            hit.setdefault((base, code.co_name), set()).add(line)
        else:
            return mon.DISABLE
    mon.register_callback(tool, mon.events.LINE, on_line)
    mon.set_events(tool, mon.events.LINE)
    try:
        for r in reqs:
            real(r)
    finally:
        mon.set_events(tool, 0)
        mon.free_tool_id(tool)
    import inspect
    I = _IMPL
    classes = {"html_helper.py": I["HH"], "fenced_leaf_block_processor.py": I["FEN"], "indented_leaf_block_processor.py": I["ICB"], "tab_helper.py": I["TH"]}
    out = {}
    for base, names in MODELLED.items():
        cls = classes[base]
        for nm in names:
            attr = ("_%s%s" % (cls.__name__, nm)) if nm.startswith("__") else nm
            fn = inspect.unwrap(cls.__dict__[attr].__func__)
            code = fn.__code__
            src, first = inspect.getsourcelines(fn)
            lines = sorted({l for _, _, l in code.co_lines() if l is not None and l > code.co_firstlineno})
            real_lines = [l for l in lines if not src[l - first].strip().startswith(("POGGER", "LOGGER", ")", "#"))]
            got = hit.get((base, code.co_name), set())
            miss = [l for l in real_lines if l not in got]
            out["%s:%s" % (base, nm)] = {"lines": len(real_lines), "hit": len(real_lines) - len(miss), "unreached": miss}
    return out

# ---------------------------------------------------------------- worker
def _work(reqs):
    lines, slots = [], []
    for r in reqs:
        if r[0] == "id":                       # one `il` request per line of the document; the answers are joined below
            slots.append((len(lines), len(r[1])))
            lines += [encode(("il", l, i > 0, False)) for i, l in enumerate(r[1])]
        else:
            slots.append((len(lines), 0))
            lines.append(encode(r))
    reals = [real(r) for r in reqs]
    raw = vlib.Driver("leafblocks2").run(lines)
    model = []
    for (at, n), r in zip(slots, reqs):
        if r[0] != "id":
            model.append(raw[at])
        else:
            parts = raw[at:at + n]
            if any(p == "none" or p.startswith("err") for p in parts):
                model.append(parts[0] if parts[0] == "none" or parts[0].startswith("err") else "partial " + "/".join(parts))
            else:
                model.append("T|" + hx("\n".join(vlib.unhex(p.split("|")[3][1:]) for p in parts)))
    counts = Counter()
    bad = []
    outside = []
    for r, x, m in zip(reqs, reals, model):
        counts["op:" + r[0]] += 1
        if x.startswith("err"):
            counts[x] += 1
        elif r[0] in ("hb", "hn", "hs"):
            counts["%s->%s" % (r[0], x.split("|")[0])] += 1
        elif r[0] == "he":
            counts["he ty%d->%s" % (r[1], x.split("|")[0])] += 1
        elif r[0] in ("hd", "fd", "id", "fl", "il"):
            counts["%s->%s" % (r[0], x.split("|")[0][:12])] += 1
        if r[0] == "hd" and x != "none" and m != "none" and not x.startswith("err"):
            x = m.split("|")[0] + "|" + x.split("|")[1]         # the parser does not expose the type; the line count is compared
        if r[0] == "hd" and m == "none" and x.startswith("err"):
            outside.append(r)          # no HTML block on line 1: the document fails elsewhere (paragraph / inline phase), not in the modelled functions
            continue
        if x != m:
            bad.append({"kind": "disagree", "request": [a if not isinstance(a, list) else a for a in r], "real": x, "model": m})
    # ---- the specification side (direct oracle): real answer against CommonMark, differences are classified, not disagreements
    from pymarkdown.general.parser_helper import ParserHelper as PH
    sreqs, sidx = [], []
    for k, (r, x) in enumerate(zip(reqs, reals)):
        if x.startswith("err") or x.startswith("odd"):
            continue
        if r[0] == "hb" and not r[5] and (r[2], r[3]) == lead(r[1]):
            sreqs.append("sp|%s|%d" % (H(r[1]), r[4])); sidx.append(k)
        elif r[0] == "fl" and r[1] == "`" and r[2] == 3:
            sreqs.append("sf|%d|%s" % (r[3], H(r[4]))); sidx.append(k)
            sreqs.append("sc|%s|%d|%s" % (H(r[1]), r[2], H(r[4]))); sidx.append(k)
        elif r[0] == "il" and not r[3] and x != "none":
            sreqs.append("si|%s" % H(r[1])); sidx.append(k)
    sans = vlib.Driver("leafblocks2").run(sreqs)
    spec = Counter()
    samples = {}

    def note(cls, r):
        spec[cls] += 1
        samples.setdefault(cls, [])
        if len(samples[cls]) < 3:
            samples[cls].append(repr(r[1:]))
    for r in outside:
        note("document crash outside the modelled functions (line 1 is not an HTML block)", r)
    for q, k, a in zip(sreqs, sidx, sans):
        r, x = reqs[k], reals[k]
        if q.startswith("sp|"):
            code = x.split("|")[0]
            g, c31 = a.split("|")
            tab = "\t" in r[1]
            note("html start: code %s gfm029 %s%s" % (code, g, " (line with TAB: never reaches the function)" if tab and code != g else ""), r) \
                if code != g else spec.update(["html start = gfm029"])
            if code != c31:
                note("html start: code %s cm0312 %s" % (code, c31), r) if not tab else None
        elif q.startswith("sf|"):
            if x.startswith("text|"):
                _, e, t = x.split("|")
                rendered = PH.resolve_all_from_text(vlib.unhex(e[1:])) + vlib.unhex(t[1:])
                source = PH.remove_all_from_text(vlib.unhex(e[1:])) + vlib.unhex(t[1:])
                if hx(rendered) != a:
                    note("fence content != line minus min(indent, N) columns", r)
                else:
                    spec["fence content = spec"] += 1
                if source != r[4]:
                    note("fence stored whitespace + text != source line", r)
                else:
                    spec["fence roundtrip ok"] += 1
        elif q.startswith("sc|"):
            is_close = x.startswith("close|")
            if is_close != (a == "1"):
                note("closing fence: code %s spec %s" % (is_close, a == "1"), r)
            else:
                spec["closing fence = spec"] += 1
        elif q.startswith("si|"):
            content = vlib.unhex(x.split("|")[3][1:])
            head, e, t = x.split("|")[:3]
            source = (vlib.unhex(head[5:]) if head.startswith("open") else "") + vlib.unhex(e[1:]) + vlib.unhex(t[1:])
            if hx(content) != a:
                note("icode content != line minus 4 columns", r)
            else:
                spec["icode content = spec"] += 1
            if source != r[1]:
                note("icode stored pieces != source line", r)
            else:
                spec["icode roundtrip ok"] += 1
    return counts, bad, spec, samples


def _chunks(items, n):
    return [items[i:i + n] for i in range(0, len(items), n)]


def build_requests(quick, rng):
    reqs, space = [], {}
    # html start
    strs = list(atom_strings(HTML_ATOMS, 3)) + [s for s in atom_strings(HTML_ATOMS_SMALL, 5)]
    strs = list(dict.fromkeys(HTML_EXTRA + strs))
    if not quick:
        strs = list(dict.fromkeys(strs + list(atom_strings(HTML_ATOMS, 4))))
    hs = []
    for s in strs:
        hs += html_start_requests(s)
    space["html_start_strings"] = len(strs)
    hn = []
    for s in atom_strings(HTML_ATOMS_SMALL, 3 if quick else 4):
        hn += html_normal_requests(s)
    he = []
    for s in atom_strings(END_ATOMS, 3 if quick else 4):
        he += html_end_requests(s)
    hd, hd_total = html_doc_requests(quick, rng)
    space.update(html_start=len(hs), html_normal=len(hn), html_end=len(he), html_docs=hd_total)
    if quick:
        n_extra = sum(len(html_start_requests(x)) for x in HTML_EXTRA)
        hs = hs[:n_extra] + rng.sample(hs[n_extra:], min(len(hs) - n_extra, 400000))
        hn = rng.sample(hn, min(len(hn), 60000))
        he = rng.sample(he, min(len(he), 40000))
    # fenced content lines
    fstrs = [x for x in atom_strings(FENCE_ATOMS, 4 if quick else 5) if nonblank(x)]
    fl = []
    for x in fstrs:
        fl += fence_line_requests(x)
    fd, fd_total = fence_doc_requests(quick, rng)
    # indented code lines
    il = []
    for x in atom_strings(ICODE_ATOMS, 5 if quick else 6):
        if nonblank(x):
            il += [("il", x, False, False), ("il", x, True, False), ("il", x, False, True)]
    idocs = list(icode_doc_lines(2 if quick else 3))
    space.update(fence_lines=len(fl), fence_docs=fd_total, icode_lines=len(il), icode_docs=len(idocs))
    if quick:
        fl = rng.sample(fl, min(len(fl), 100000))
        il = rng.sample(il, min(len(il), 60000))
        idocs = rng.sample(idocs, min(len(idocs), 800))
    reqs = hs + hn + he + [("hbl", t) for t in range(1, 8)] + hd + fl + fd + il + [("id", d) for d in idocs]
    return reqs, space


def run(ctx, quick):
    reqs, space = build_requests(quick, ctx.rng)
    ctx.rng.shuffle(reqs)
    chunks = _chunks(reqs, 20000)
    counts, bad, spec, samples = Counter(), [], Counter(), {}
    with mp.Pool(8) as p:
        for c, b, sp, sm in p.imap_unordered(_work, chunks):
            counts.update(c)
            bad += b
            spec.update(sp)
            for k, v in sm.items():
                samples.setdefault(k, [])
                samples[k] = (samples[k] + v)[:3]
    tinfo, tbad = table_checks()
    bad += tbad
    cov = {"space": space, "run": len(reqs), "counts": dict(sorted(counts.items())), "tables": tinfo,
           "spec_oracle": dict(sorted(spec.items())), "spec_difference_samples": samples}
    if bad:
        ctx.broken.append("correspondence leafblocks2: %d disagreements (first: %r)" % (len(bad), bad[0]))
    cov["disagreements"] = bad[:50]
    cov["witnesses"], cov["failing_inputs"] = real_witnesses()
    return cov


if __name__ == "__main__":
    import random, time, json

    class _C:
        rng = random.Random(1)
        broken = []
    if len(sys.argv) > 1 and sys.argv[1] == "coverage":
        print(json.dumps(line_coverage(), indent=1))
        sys.exit(0)
    t0 = time.time()
    r = run(_C, quick=(len(sys.argv) < 2 or sys.argv[1] != "thorough"))
    print(json.dumps({k: v for k, v in r.items() if k != "disagreements"}, indent=1))
    for d in r["disagreements"][:15]:
        print(d)
    print("disagreements:", len(r["disagreements"]), "broken:", _C.broken, "time %.1fs" % (time.time() - t0))
