"""Correspondence of the coalesce-pass model (lean/Verif/Model/Coalesce.lean, driver `coalesce`) with the REAL
`CoalesceProcessor.coalesce_text_blocks` (pymarkdown/coalesce/coalesce_processor.py) and the token methods it calls.

Two sources of inputs, both closed:

* **spy** — while the real parser parses every document of `docs.corpus()` (= repo test sources), `docs.d1()`, core `dn(2)`,
  `families()`, `leaf_edges()`, the class attribute `CoalesceProcessor.coalesce_text_blocks` is wrapped: the argument list is
  encoded BEFORE the call (the pass mutates its input objects), the real function runs, the result (or the exception) is encoded
  after.  Both calls of the pipeline are seen: block-pass output with `only_change_text_blocks=False`, inline-pass output with `True`.
* **synthetic** — every list of at most `n` REAL token objects over an alphabet of token shapes (text tokens with / without leading
  and trailing white space, tabified text, `end_whitespace`; blank lines; paragraph, setext, indented code (three widths), fenced code,
  html-block start tokens; an end token), fresh objects per call, both modes.

Per case the same request goes to the model; compared: the complete output list (kinds, every modelled field, positions, the
identity of the surviving non-text objects = `tag`), exceptions by kind, the per-input-token marks (object kept / merged away /
blank replaced by a new text object), and that no un-modelled attribute of a surviving non-text object changed.
Direct oracle (independent of the model's `coalesce`): `flatten(real output) == flatten(real input)` on the cases that satisfy the
hypotheses of `coalesce_preserves_content`, the flattening evaluated by the driver on the real token lists.
"""
import copy, itertools, multiprocessing as mp, signal
import vlib, implib, docs

H = vlib.hexs


def hx(s):
    return "=" + H(s)


def ohx(s):
    return "-" if s is None else hx(s)


_MUT = ("_ParagraphMarkdownToken__final_whitespace", "_SetextHeadingMarkdownToken__final_whitespace",
        "_IndentedCodeBlockMarkdownToken__indented_whitespace", "_MarkdownToken__extra_data")


def enc_tok(t, tag):
    """the model's view of one real token; `tag` identifies a non-text object"""
    if t.is_text:
        return "t,%s,%s,%s,%s,%d,%d" % (hx(t.token_text), hx(t.extracted_whitespace), ohx(t.end_whitespace), ohx(t.tabified_text),
                                       t.line_number, t.column_number)
    if t.is_blank_line:
        return "b,%s,%d,%d" % (hx(t.extracted_whitespace), t.line_number, t.column_number)
    if t.is_paragraph:
        return "p,%s,%d" % (hx(t.final_whitespace), tag)
    if t.is_setext_heading:
        return "s,%s,%d" % (hx(t.final_whitespace), tag)
    if t.is_indented_code_block:
        return "i,%s,%s,%d" % (hx(t.extracted_whitespace), hx(t.indented_whitespace), tag)
    if t.is_fenced_code_block:
        return "f,%d" % tag
    return "o,%d" % tag


def rest_of(t):
    """every attribute of a non-text token the model does not speak about"""
    return {k: v for k, v in vars(t).items() if k not in _MUT}


def observe(fn, tokens, only):
    """Run the real pass on `tokens`; -> (request fields, real answer, real marks, side-condition failures)."""
    ids = {}
    for i, t in enumerate(tokens):
        ids.setdefault(id(t), i)
    aliased = len(ids) != len(tokens)
    enc_in = ";".join(enc_tok(t, ids[id(t)]) for t in tokens)
    rest = [None if (t.is_text or t.is_blank_line) else rest_of(t) for t in tokens]
    rest = [None if r is None else dict(r) for r in rest]
    try:
        out = fn(tokens, only)
    except IndexError:
        return enc_in, "err index", None, [], aliased
    except AssertionError:
        return enc_in, "err assertion", None, [], aliased
    except AttributeError:
        return enc_in, "err attribute", None, [], aliased
    except Exception as e:                                  # any other kind is a disagreement by construction
        return enc_in, "err " + type(e).__name__, None, [], aliased
    bad = []
    enc_out = []
    outids = set()
    for t in out:
        i = ids.get(id(t))
        outids.add(id(t))
        if not t.is_text and i is None:
            bad.append("new non-text object in the output")
        enc_out.append(enc_tok(t, -1 if i is None else i))
        if i is not None and rest[i] is not None and rest_of(t) != rest[i]:
            bad.append("un-modelled attribute of token %d changed" % i)
    # marks: K = object survives, D = gone, R = a blank gone and a NEW text object stands where it was
    new_texts = [t for t in out if id(t) not in ids]
    marks = []
    nt = 0
    for i, t in enumerate(tokens):
        if id(t) in outids:
            marks.append("K")
        elif t.is_blank_line and nt < len(new_texts) and (new_texts[nt].line_number, new_texts[nt].column_number) == \
                (t.line_number, t.column_number) and _is_replacement(out, new_texts[nt], tokens, i, ids):
            marks.append("R")
            nt += 1
        else:
            marks.append("D")
    if nt != len(new_texts):
        bad.append("new text objects not accounted for")
    return enc_in, "ok|" + ";".join(enc_out), "".join(marks), bad, aliased


def _is_replacement(out, nt, tokens, i, ids):
    """the new text object stands directly after the (surviving) object that preceded the blank in the input"""
    k = next(j for j, t in enumerate(out) if t is nt)
    return k > 0 and i > 0 and out[k - 1] is tokens[i - 1]


# ---------------------------------------------------------------- the real function
_IMPL = {}


def impl():
    if not _IMPL:
        from pymarkdown.coalesce.coalesce_processor import CoalesceProcessor
        _IMPL["CP"] = CoalesceProcessor
        _IMPL["fn"] = CoalesceProcessor.__dict__["coalesce_text_blocks"].__func__
    return _IMPL


# ---------------------------------------------------------------- spy on the real parser
_SPY = []


def install_spy():
    I = impl()
    if getattr(I["CP"], "_verif_spy", False):
        return
    fn = I["fn"]

    def spy(first_pass_results, only_change_text_blocks=False):
        toks = first_pass_results
        ids = {}
        for i, t in enumerate(toks):
            ids.setdefault(id(t), i)
        holder = {}

        def run(ts, only):
            try:
                holder["r"] = fn(ts, only)
            except Exception as e:
                holder["exc"] = e
                raise
            return holder["r"]
        rec = observe(run, toks, only_change_text_blocks)
        _SPY.append((1 if only_change_text_blocks else 0,) + rec)
        if "exc" in holder:
            raise holder["exc"]                              # the parser sees what the real function raised
        return holder["r"]
    I["CP"].coalesce_text_blocks = staticmethod(spy)
    I["CP"]._verif_spy = True


class _Timeout(BaseException):
    pass


def _alarm(*_):
    raise _Timeout()


def spy_doc(doc):
    """parse one document with the spy installed -> [(only, enc_in, real_answer, marks, bad, aliased)]"""
    install_spy()
    tk = implib.parser()
    del _SPY[:]
    signal.setitimer(signal.ITIMER_PROF, 3.0)
    try:
        try:
            tk.transform(doc, show_debug=False)
        except _Timeout:
            pass
        except Exception:
            pass
    finally:
        signal.setitimer(signal.ITIMER_PROF, 0)
    return list(_SPY)


def _init_spy_worker():
    signal.signal(signal.SIGPROF, _alarm)
    install_spy()


def _work_spy(chunk):
    out = []
    for d in chunk:
        out += spy_doc(d)
    return out


# ---------------------------------------------------------------- synthetic token lists (real objects)
_PROTO = {}


def _protos():
    """prototype non-text tokens taken from real block passes (copied per use)"""
    if _PROTO:
        return _PROTO
    tk = implib.parser()
    orig = tk._TokenizedMarkdown__parse_blocks_pass
    grabbed = []

    def wrapped(*a, **k):
        r = orig(*a, **k)
        grabbed.append([copy.copy(t) for t in r])
        return r
    tk._TokenizedMarkdown__parse_blocks_pass = wrapped
    try:
        for d in ["a\n", "a\n===\n", "    a\n", "\ta\n", "```\na\n```\n", "<div>\n", "# h\n"]:
            tk.transform(d)
    finally:
        del tk._TokenizedMarkdown__parse_blocks_pass
    flat = [t for l in grabbed for t in l]

    def first(pred):
        return next(t for t in flat if pred(t))
    _PROTO["P"] = first(lambda t: t.is_paragraph)
    _PROTO["S"] = first(lambda t: t.is_setext_heading)
    _PROTO["I"] = first(lambda t: t.is_indented_code_block and t.extracted_whitespace == "    ")
    _PROTO["J"] = first(lambda t: t.is_indented_code_block and t.extracted_whitespace == "\t")
    _PROTO["F"] = first(lambda t: t.is_fenced_code_block)
    _PROTO["H"] = first(lambda t: t.is_html_block)
    _PROTO["E"] = first(lambda t: t.is_paragraph_end)
    _PROTO["A"] = first(lambda t: t.is_atx_heading)
    return _PROTO


def make(atom):
    """a FRESH real token object for one letter of the synthetic alphabet"""
    from pymarkdown.tokens.text_markdown_token import TextMarkdownToken as T
    from pymarkdown.tokens.blank_line_markdown_token import BlankLineMarkdownToken as B
    from pymarkdown.tokens.indented_code_block_markdown_token import IndentedCodeBlockMarkdownToken as IC
    from pymarkdown.general.position_marker import PositionMarker as PM
    if atom == "a":
        return T("a", "", line_number=1, column_number=1)
    if atom == "b":
        return T("b  ", "  ", line_number=2, column_number=3)
    if atom == "c":
        return T("c   d   ", " ", line_number=3, column_number=2, tabified_text="c\td \t")
    if atom == "w":
        return T(" \t ", "      ", line_number=4, column_number=7)
    if atom == "e":
        return T("", "", end_whitespace="e\n", line_number=5, column_number=1)
    if atom == "z":
        return T("x ", "", line_number=6, column_number=1, tabified_text="")
    if atom == "y":
        return T("y  ", "", line_number=7, column_number=1, tabified_text="\t")
    if atom == "n":
        return T("q\nr ", "\n ", line_number=8, column_number=1, end_whitespace="")
    if atom == "0":
        return B("", PM(9, 0, ""))
    if atom == "1":
        return B("  ", PM(10, 0, "  "))
    if atom == "K":
        return IC("", 11, 1)
    P = _protos()
    if atom == "Q":
        t = copy.copy(P["P"])
        t.set_final_whitespace("zz")
        return t
    return copy.copy(P[atom])


FULL = "abcweyzn01PQSIJKFHE"
CORE = "ac1PIF"
SPACES = [(FULL, 4), (CORE, 6), ("abc01PSIFH", 5)]


def synth_cases(alpha, n):
    for k in range(n + 1):
        for t in itertools.product(alpha, repeat=k):
            yield "".join(t)


def synth_case(word, only):
    fn = impl()["fn"]
    toks = [make(a) for a in word]
    return (only,) + observe(fn, toks, bool(only))


def _work_synth(chunk):
    return [synth_case(w, o) for (w, o) in chunk]


def pool_map(fn, items, chunk=400, procs=16, init=None):
    items = list(items)
    if not items:
        return []
    chunks = [items[i:i + chunk] for i in range(0, len(items), chunk)]
    with mp.Pool(min(procs, max(1, len(chunks))), initializer=init) as p:
        out = []
        for part in p.imap(fn, chunks):
            out += part
    return out


# ---------------------------------------------------------------- comparison
def hyp_ok(enc_in):
    """hypotheses of `coalesce_preserves_content`: FinClean (paragraph / setext directly before a text token has empty
    final_whitespace) and TabNotBlank (a non-empty tabified_text is not all ASCII white space)"""
    toks = enc_in.split(";") if enc_in else []
    for i, t in enumerate(toks):
        f = t.split(",")
        if f[0] in "ps" and f[1] != "=" and i + 1 < len(toks) and toks[i + 1].startswith("t,"):
            return False
        if f[0] == "t" and f[4] not in ("-", "="):
            if all(chr(int(w, 16)) in " \t\n\x0b\x0c\r" for w in f[4][1:].split()):
                return False
    return True


def compare(records, counts, diffs, limit=20):
    """records: (only, enc_in, real_answer, marks, bad, aliased).  One driver batch for everything."""
    drv = vlib.Driver("coalesce")
    seen = set()
    uniq = []
    for r in records:
        key = (r[0], r[1])
        if key in seen:
            continue
        seen.add(key)
        uniq.append(r)
    lines = []
    for only, enc_in, real, marks, bad, aliased in uniq:
        lines.append("c|%d|%s" % (only, enc_in))
        lines.append("k|%d|%s" % (only, enc_in))
        lines.append("f|%s" % enc_in)
        lines.append("f|%s" % (real[3:] if real.startswith("ok|") else ""))
    ans = drv.run(lines)
    for k, (only, enc_in, real, marks, bad, aliased) in enumerate(uniq):
        m, mk, f_in, f_out = ans[4 * k: 4 * k + 4]
        counts["cases"] += 1
        counts["mode_only" if only else "mode_full"] += 1
        if real.startswith("err"):
            counts["raises"] += 1
        if aliased:
            counts["aliased_skipped"] += 1
            continue
        if m != real:
            counts["disagree"] += 1
            if len(diffs) < limit:
                diffs.append({"only": only, "input": enc_in, "real": real, "model": m})
            continue
        if marks is not None and mk != marks:
            counts["marks_disagree"] += 1
            if len(diffs) < limit:
                diffs.append({"only": only, "input": enc_in, "real_marks": marks, "model_marks": mk})
        if bad:
            counts["side_condition"] += 1
            if len(diffs) < limit:
                diffs.append({"only": only, "input": enc_in, "side": bad})
        if not only and real.startswith("ok|") and hyp_ok(enc_in):
            counts["oracle_flatten"] += 1
            if f_in != f_out:
                counts["oracle_flatten_fail"] += 1
                if len(diffs) < limit:
                    diffs.append({"only": only, "input": enc_in, "flatten_in": f_in, "flatten_out": f_out})
        if real.startswith("ok|"):
            ks = [t.split(",")[0] for t in real[3:].split(";")] if real != "ok|" else []
            if any(a == "t" and b == "t" for a, b in zip(ks, ks[1:])):
                counts["oracle_adjacent_text"] += 1
                if len(diffs) < limit:
                    diffs.append({"only": only, "input": enc_in, "adjacent_text": real})
    return counts


def doc_pool(quick, rng):
    core2 = list(docs.dn(2, docs.CORE_PREFIX, docs.CORE_BODY))
    pools = {"corpus": docs.repo_sources(), "d1": list(docs.d1()), "core_d2": core2, "families": list(docs.families()),
             "leaf_edges": list(docs.leaf_edges())}
    if quick:
        pools = {k: (v if len(v) <= 1500 else docs.sample(rng, v, 1500)) for k, v in pools.items()}
    return pools


def run(ctx, quick):
    """-> coverage dict; disagreements go to ctx.broken and are returned under 'disagreements'"""
    from collections import Counter
    counts = Counter()
    diffs = []
    cov = {}
    # 1. spy on real parses
    pools = doc_pool(quick, ctx.rng)
    for name, ds in pools.items():
        ds = [d if isinstance(d, str) else d[0] for d in ds]
        recs = pool_map(_work_spy, ds, chunk=200, init=_init_spy_worker)
        cov["spy_" + name] = {"documents": len(ds), "calls": len(recs)}
        compare(recs, counts, diffs)
    # 2. synthetic lists of real token objects
    _protos()
    for alpha, n in SPACES:
        words = list(synth_cases(alpha, n))
        total = len(words)
        if quick:
            short = [w for w in words if len(w) <= 2]
            words = short + docs.sample(ctx.rng, [w for w in words if len(w) > 2], 6000)
        items = [(w, o) for w in words for o in (0, 1)]
        recs = pool_map(_work_synth, items, chunk=2000)
        cov["synthetic_%s_%d" % (alpha, n)] = {"space": total * 2, "run": len(items)}
        compare(recs, counts, diffs)
    cov["counts"] = dict(counts)
    bad = counts["disagree"] + counts["marks_disagree"] + counts["side_condition"]
    if bad:
        ctx.broken.append("correspondence coalesce: %d disagreements (first: %r)" % (bad, diffs[0] if diffs else None))
    if counts["oracle_flatten_fail"] or counts["oracle_adjacent_text"]:
        ctx.broken.append("oracle coalesce: flatten %d adjacent-text %d" % (counts["oracle_flatten_fail"], counts["oracle_adjacent_text"]))
    w = real_witnesses()
    cov["witnesses"] = w
    for k, v in EXPECTED_WITNESS.items():
        if w.get(k) != v:
            ctx.broken.append("witness coalesce %s: real code gives %r, the model's theorem says %s" % (k, w.get(k), v))
    if w["twice"]["first"] == w["twice"]["second"]:
        ctx.broken.append("witness coalesce twice: the real second run no longer resets final_whitespace")
    cov["disagreements"] = diffs
    return cov


# ---------------------------------------------------------------- the excluded points of the theorems, on the real code
def real_witnesses():
    """Run the REAL pass at the points the `_partial` theorems exclude; -> {name: observation}.  The model's answers at the same
    points are theorems (`coalesce_excluded_*`, `content_excluded_*`, `coalesce_not_idempotent_witness`, `coalesceOnly_attribute_witness`)."""
    fn = impl()["fn"]
    _protos()
    out = {}

    def call(word, only):
        toks = [make(a) for a in word]
        try:
            r = fn(toks, bool(only))
            return "ok " + " ".join(str(t) for t in r)
        except Exception as e:
            return type(e).__name__
    out["empty_list"] = call("", 0)                              # model: err index
    out["text_text_first"] = call("aa", 0)                       # model: err index
    out["text_blank_first"] = call("a0", 0)                      # model: err index
    out["only_code_text_blank"] = call("Fa0", 1)                 # model: err attribute
    out["final_ws_overwritten"] = call("Qa", 0)                  # paragraph with final_whitespace 'zz' already set: lost
    out["blank_tabified"] = call("Py", 0)                        # tabified text all white space
    # idempotence: the second run of the full pass resets final_whitespace
    toks = [make("P"), make("b")]
    r1 = fn(toks, False)
    first = " ".join(str(t) for t in r1)
    r2 = fn(r1, False)
    out["twice"] = {"first": first, "second": " ".join(str(t) for t in r2)}
    return out


EXPECTED_WITNESS = {"empty_list": "IndexError", "text_text_first": "IndexError", "text_blank_first": "IndexError",
                    "only_code_text_blank": "AttributeError"}


if __name__ == "__main__":
    import random, sys, time, json

    class _C:
        rng = random.Random(1)
        broken = []
    t0 = time.time()
    r = run(_C, quick=(len(sys.argv) < 2 or sys.argv[1] != "thorough"))
    print(json.dumps({k: v for k, v in r.items() if k != "disagreements"}, indent=1))
    for d in r["disagreements"][:8]:
        print(d)
    print("broken:", _C.broken, "time %.1fs" % (time.time() - t0))
