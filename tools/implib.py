"""Helpers to drive the implementation (pymarkdown in /repo) in-process."""
import contextlib, hashlib, io, json, os, shutil, sys, tempfile, textwrap
import vlib


@contextlib.contextmanager
def workspace():
    d = tempfile.mkdtemp(prefix="verif-ws-")
    try:
        yield d
    finally:
        shutil.rmtree(d, ignore_errors=True)


def write(path, data):
    os.makedirs(os.path.dirname(path), exist_ok=True)
    mode = "wb" if isinstance(data, bytes) else "w"
    kw = {} if isinstance(data, bytes) else {"encoding": "utf-8", "newline": ""}
    with open(path, mode, **kw) as fh:
        fh.write(data)
    return path


def read_bytes(path):
    with open(path, "rb") as fh:
        return fh.read()


def tree_snapshot(root):
    """{relative path: bytes} for every file below root, plus directories as None."""
    snap = {}
    for d, ds, fs in os.walk(root):
        for x in ds:
            snap[os.path.relpath(os.path.join(d, x), root) + "/"] = None
        for f in fs:
            p = os.path.join(d, f)
            snap[os.path.relpath(p, root)] = read_bytes(p)
    return snap


# ------------------------------------------------------------------ probe plug-ins
PROBE_TMPL = '''
from pymarkdown.plugin_manager.plugin_details import PluginDetailsV2
from pymarkdown.plugin_manager.rule_plugin import RulePlugin
import builtins

CTL = getattr(builtins, "_verif_probe_ctl", None)
if CTL is None:
    CTL = builtins._verif_probe_ctl = {{"log": [], "count": {{}}, "raise": {{}}}}

def _hit(pid, ev, payload=None):
    CTL["log"].append((pid, ev, payload))
    k = (pid, ev)
    CTL["count"][k] = CTL["count"].get(k, 0) + 1
    want = CTL["raise"].get(k)
    if want is not None and (want == 0 or want == CTL["count"][k]):
        raise Exception("verif-probe-fault %s %s %d" % (pid, ev, CTL["count"][k]))

class {cls}(RulePlugin):
    def get_details(self):
        return PluginDetailsV2(plugin_name="{names}", plugin_id="{pid}", plugin_enabled_by_default={enabled},
            plugin_description="verif probe", plugin_version="0.0.1", plugin_interface_version=2,
            plugin_supports_fix={fix}, plugin_fix_level={level})
{methods}
'''

METHODS = {
    "start": '''
    def starting_new_file(self):
        _hit("{pid}", "start")
''',
    "token": '''
    def next_token(self, context, token):
        _hit("{pid}", "token", (str(token), context.in_fix_mode, id(context), context.scan_file))
''',
    "line": '''
    def next_line(self, context, line):
        _hit("{pid}", "line", (context.line_number, line, context.in_fix_mode, id(context), context.scan_file))
        if "PLUGINBOOM" in line:
            raise Exception("verif plugin boom")
        if "{trig}" and "{trig}" in line:
            if context.in_fix_mode and {fix}:
                if {dofix}:
                    context.set_current_fix_line(line.replace("{trig}", "{repl}"))
            else:
                self.report_next_line_error(context, 1)
''',
    "done": '''
    def completed_file(self, context):
        _hit("{pid}", "done", (context.line_number, context.in_fix_mode, id(context), context.scan_file))
''',
}


def probe_plugin(dirpath, pid="zzz999", names="verif-probe", enabled=True, fix=False, level=1,
                 callbacks=("start", "token", "line", "done"), trig="", repl="", dofix=True):
    """Write a rule plug-in file with the given metadata / overridden callbacks; returns its path.
    The module name encodes the parameters so that python's module cache never serves a stale one."""
    key = hashlib.sha1(json.dumps([pid, names, enabled, fix, level, list(callbacks), trig, repl, dofix]).encode()).hexdigest()[:10]
    mod = f"vp_{pid}_{key}"
    cls = "".join(x.capitalize() or "_" for x in mod.split("_"))
    methods = "".join(METHODS[c].format(pid=pid, trig=trig, repl=repl, fix=fix, dofix=dofix) for c in callbacks)
    src = PROBE_TMPL.format(cls=cls, names=names, pid=pid.upper(), enabled=enabled, fix=fix, level=level, methods=methods)
    return write(os.path.join(dirpath, mod + ".py"), src)


def probe_ctl():
    import builtins
    ctl = getattr(builtins, "_verif_probe_ctl", None)
    if ctl is None:
        ctl = builtins._verif_probe_ctl = {"log": [], "count": {}, "raise": {}}
    return ctl


def probe_reset():
    ctl = probe_ctl()
    ctl["log"].clear(); ctl["count"].clear(); ctl["raise"].clear()
    return ctl


# ------------------------------------------------------------------ parser fault injection (harness level)
@contextlib.contextmanager
def parser_fault(marker="PARSERBOOM"):
    """While active, tokenizing a file whose text contains `marker` raises BadTokenizationError,
    exactly as an internal parser failure would (it is raised from inside transform_from_provider)."""
    from pymarkdown.general.tokenized_markdown import TokenizedMarkdown
    from pymarkdown.general.bad_tokenization_error import BadTokenizationError
    orig = TokenizedMarkdown.transform_from_provider

    def wrapped(self, source_provider, *a, **kw):
        lines = getattr(source_provider, "_FileSourceProvider__read_lines", None)
        if lines is None:
            lines = getattr(source_provider, "_InMemorySourceProvider__read_lines", [])
        if any(marker in (l or "") for l in lines):
            raise BadTokenizationError("verif injected parser fault")
        return orig(self, source_provider, *a, **kw)

    TokenizedMarkdown.transform_from_provider = wrapped
    try:
        yield
    finally:
        TokenizedMarkdown.transform_from_provider = orig


@contextlib.contextmanager
def parser_fault_midway(marker="PARSERBOOM"):
    """While active, the block pass fails when it REACHES a line containing `marker`: an ordinary exception is raised from inside
    ContainerBlockProcessor.parse_line_for_container_blocks, so that the parser's own try/except turns it into the
    BadTokenizationError an internal failure gives — after the lines before the marker (pragmas, link reference definitions,
    open containers) have been processed and whatever state they leave has been collected."""
    from pymarkdown.container_blocks.container_block_processor import ContainerBlockProcessor
    orig = ContainerBlockProcessor.parse_line_for_container_blocks

    def wrapped(parser_state, position_marker, *a, **kw):
        if marker in (position_marker.text_to_parse or ""):
            raise AssertionError("verif injected parser fault (mid-document)")
        return orig(parser_state, position_marker, *a, **kw)

    ContainerBlockProcessor.parse_line_for_container_blocks = staticmethod(wrapped)
    try:
        yield
    finally:
        ContainerBlockProcessor.parse_line_for_container_blocks = staticmethod(orig)


# ------------------------------------------------------------------ parser in-process
_PARSER = {}


def parser(extensions=None):
    """A configured TokenizedMarkdown (cached per extension tuple)."""
    key = tuple(sorted(extensions or ()))
    if key not in _PARSER:
        from application_properties import ApplicationProperties
        from pymarkdown.extension_manager.extension_manager import ExtensionManager
        from pymarkdown.general.main_presentation import MainPresentation
        from pymarkdown.general.tokenized_markdown import TokenizedMarkdown
        props = ApplicationProperties()
        for e in key:
            props.load_from_dict({"extensions": {e: {"enabled": True}}}, clear_map=False)
        em = ExtensionManager(MainPresentation())
        em.initialize(None, props)
        em.apply_configuration()
        tk = TokenizedMarkdown()
        tk.apply_configuration(props, em)
        _PARSER[key] = tk
    return _PARSER[key]
