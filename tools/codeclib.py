"""Function-level correspondence for the Codec / Tabs models (used by tools/props/c02.py).

Every modelled function is called on the REAL implementation (private ones through name mangling) inside a
worker process under a CPU timer, and on the Lean model through `verifdrv codec`; canonical answers are diffed.
"""
import itertools, multiprocessing as mp, os, resource, signal, sys
import vlib

BS, AL, WS, NOOP, ESC = "\b", "\a", "\x02", "\x03", "\x05"
ALPHA = [BS, AL, ESC, NOOP, "\\", "x", "&"]
TIMER = 0.02          # CPU seconds (user+system: a runaway loop may spend its time in page faults) before a real call is declared non-terminating
TIMER_CONFIRM = 1.5   # a disagreement "real hangs / model answers" is re-run with this budget


class _Timeout(BaseException):
    pass


def _alarm(*_):
    raise _Timeout()


def _init_worker():
    signal.signal(signal.SIGPROF, _alarm)
    try:
        resource.setrlimit(resource.RLIMIT_AS, (6 << 30, 6 << 30))
    except (ValueError, OSError):
        pass


def guard(fn, *a, budget=TIMER):
    """canonical answer of a real call: ok=<hex> | err=valueError | err=assertion | err=hang | err=<Type>"""
    signal.setitimer(signal.ITIMER_PROF, budget)
    try:
        r = fn(*a)
        signal.setitimer(signal.ITIMER_PROF, 0)
        return "ok=" + vlib.hexs(r)
    except _Timeout:
        return "err=hang"
    except MemoryError:
        signal.setitimer(signal.ITIMER_PROF, 0)
        return "err=hang"
    except ValueError:
        signal.setitimer(signal.ITIMER_PROF, 0)
        return "err=valueError"
    except AssertionError:
        signal.setitimer(signal.ITIMER_PROF, 0)
        return "err=assertion"
    except Exception as e:  # anything else is reported verbatim (the model has no such answer)
        signal.setitimer(signal.ITIMER_PROF, 0)
        return "err=" + type(e).__name__
    finally:
        signal.setitimer(signal.ITIMER_PROF, 0)


def _real():
    from pymarkdown.general.parser_helper import ParserHelper as P
    from pymarkdown.general.tab_helper import TabHelper as T
    from pymarkdown.transform_markdown.transform_to_markdown import TransformToMarkdown as M
    return P, T, M


def real_fns():
    P, T, M = _real()
    g = lambda n: getattr(P, "_ParserHelper__" + n)
    return {
        "esc": P.escape_special_characters,
        "rmbs": g("remove_backspaces_from_text"),
        "rsbs": P.resolve_backspaces_from_text,
        "noops": P.resolve_noops_from_text,
        "escs": g("resolve_escapes_from_text"),
        "escs2": g("remove_escapes_from_text"),
        "rrm": g("resolve_replacement_markers_from_text"),
        "rref": g("resolve_references_from_text"),
        "remove0": lambda s: P.remove_all_from_text(s, False),
        "remove1": lambda s: P.remove_all_from_text(s, True),
        "resolve": P.resolve_all_from_text,
        "vis": P.make_value_visible,
        "fwe": g("find_with_escape"),
        "nth": P.find_nth_occurrence,
        "mark": P.create_replacement_markers,
        "nothing": P.create_replace_with_nothing_marker,
        "detab": T.detabify_string,
        "calclen": T.calculate_length,
        "final": getattr(M, "_TransformToMarkdown__correct_for_final_newline"),
        "pragma": getattr(M, "_TransformToMarkdown__handle_pragma_processing"),
        "bsseq": P.backslash_escape_sequence,
    }


STR_OPS = ["esc", "rmbs", "rsbs", "noops", "escs", "rrm", "rref", "remove0", "remove1", "resolve"]
DRV_OP = {"esc": "esc|{h}", "rmbs": "rmbs|{h}", "rsbs": "rsbs|{h}", "noops": "noops|{h}", "escs": "escs|{h}", "rrm": "rrm|{h}",
          "rref": "rref|{h}", "remove0": "remove|{h}|0", "remove1": "remove|{h}|1", "resolve": "resolve|{h}", "vis": "vis|{h}"}
FWE_CHARS = [BS, AL, ESC, NOOP]

_F = None


def _fns():
    global _F
    if _F is None:
        _F = real_fns()
    return _F


def _work_strings(chunk):
    """chunk: list of strings -> list of (request line, real answer)"""
    F = _fns()
    out = []
    for s in chunk:
        h = vlib.hexs(s)
        for op in STR_OPS:
            r = guard(F[op], s)
            if op == "esc":
                r = r[3:]
            out.append((DRV_OP[op].format(h=h), r))
        r2 = guard(F["escs2"], s)
        out.append((DRV_OP["escs"].format(h=h), r2))
        for c in FWE_CHARS:
            for st in range(0, len(s) + 2):
                r = guard(lambda: str(F["fwe"](s, c, st)))
                out.append((f"fwe|{h}|{vlib.hexs(c)}|{st}", vlib.unhex(r[3:]) if r.startswith("ok=") else r))
    return out


def _work_generic(chunk):
    """chunk: list of (kind, args) -> list of (request line, real answer)"""
    F = _fns()
    out = []
    for kind, a in chunk:
        if kind == "vis":
            out.append((DRV_OP["vis"].format(h=vlib.hexs(a)), guard(F["vis"], a)[3:]))
        elif kind == "detab":
            s, d = a
            r = guard(F["detab"], s, d)[3:]
            out.append((f"detab|{vlib.hexs(s)}|{d}", r + "|" + r))
        elif kind == "calclen":
            s, d = a
            out.append((f"calclen|{vlib.hexs(s)}|{d}", str(F["calclen"](s, d))))
        elif kind == "nth":
            s, n = a
            out.append((f"nth|{vlib.hexs(s)}|a|{n}", str(F["nth"](s, "\n", n))))
        elif kind == "final":
            s, keep = a
            out.append((f"final|{vlib.hexs(s)}|{int(keep)}", vlib.hexs(_real_final(F, s, keep))))
        elif kind == "pragma":
            data, recs = a
            tok = type("FakePragmaToken", (), {"pragma_lines": dict(recs)})()
            r = F["pragma"](tok, data)
            out.append((f"pragma|{vlib.hexs(data)}|" + (";".join(f"{n}={vlib.hexs(t)}" for n, t in sorted(recs)) or "-"), vlib.hexs(r)))
        elif kind == "mark":
            x, y = a
            out.append((f"mark|{vlib.hexs(x)}|{vlib.hexs(y)}", vlib.hexs(F["mark"](x, y))))
            out.append((f"nothing|{vlib.hexs(x)}", vlib.hexs(F["nothing"](x))))
    return out


def _real_final(F, s, keep):
    """drive the real __correct_for_final_newline with stub tokens realising `keep`"""
    class Tok:
        def __init__(self, fe=False, forced=False, fs=False):
            self.is_fenced_code_block_end, self.was_forced, self.is_fenced_code_block = fe, forced, fs
    toks = [Tok(), Tok(fe=True, forced=True)] if keep else [Tok(fs=True), Tok(fe=True, forced=True)]
    return F["final"](s, toks)


# ------------------------------------------------------------------ pieces
def piece_catalog():
    lits = [("L", c) for c in ["x", "&", "\\", "*", BS, AL, ESC, NOOP, WS]]
    bss = [("B", c) for c in ["*", "\\", "&"]] + [("B", ESC)]
    brs = [("BR", "<", "&lt;"), ("BR", "&", "&amp;"), ("BR", "<", "")]
    rs = [("R", "&amp;", "&"), ("R", "<", "&lt;"), ("R", "\n", " "), ("R", "", "z"), ("R", "x", ""), ("R", ESC, "y"), ("R", "q", AL), ("R", "a" + BS, "b")]
    ns = [("N", "  "), ("N", ""), ("N", "\t"), ("N", NOOP)]
    xs = [("X", "&amp;", "&", "&amp;"), ("X", "", "", ""), ("X", "a", "", "c"), ("X", "a", "b", ""), ("X", "a", AL, "c")]
    return lits + bss + brs + rs + ns + xs


def piece_req(ps):
    def f(p):
        return ":".join([p[0]] + [vlib.hexs(x) for x in p[1:]])
    return "enc|" + (";".join(f(p) for p in ps) or "-")


def real_encode(F, ps):
    """the encoded text built with the REAL encoder functions; (encoded, source, rendered)"""
    enc, src, ren = [], [], []
    bsq = F["bsseq"]
    for p in ps:
        k = p[0]
        if k == "L":
            enc.append(F["esc"](p[1])); src.append(p[1]); ren.append(p[1])
        elif k == "B":
            enc.append(bsq + p[1]); src.append("\\" + p[1]); ren.append(p[1])
        elif k == "BR":
            enc.append(bsq + F["mark"](p[1], p[2])); src.append("\\" + p[1]); ren.append(p[2])
        elif k == "R":
            enc.append(F["mark"](p[1], p[2])); src.append(p[1]); ren.append(p[2])
        elif k == "N":
            enc.append(F["nothing"](p[1])); src.append(p[1]); ren.append("")
        elif k == "X":
            enc.append(F["mark"](p[1], F["mark"](p[2], p[3]))); src.append(p[1]); ren.append(p[3])
    return "".join(enc), "".join(src), "".join(ren)


def _work_pieces(chunk):
    F = _fns()
    out = []
    for ps in chunk:
        enc, src, ren = real_encode(F, ps)
        h = vlib.hexs(enc)
        out.append((ps, enc, src, ren, guard(F["remove0"], enc), guard(F["resolve"], enc)))
    return out


def all_strings(alpha, maxlen, minlen=0):
    for n in range(minlen, maxlen + 1):
        for t in itertools.product(alpha, repeat=n):
            yield "".join(t)


def chunks(seq, n):
    """strided chunks of about n items (expensive inputs are contiguous in enumeration order: spread them)"""
    seq = list(seq)
    k = max(1, (len(seq) + n - 1) // n)
    return [seq[i::k] for i in range(k)]


def pool_map(fn, items, chunk=150, procs=16):
    cs = chunks(items, chunk)
    if not cs:
        return []
    with mp.Pool(min(procs, len(cs)), initializer=_init_worker) as p:
        out = []
        for r in p.imap(fn, cs):
            out.extend(r)
    return out


def confirm_hang(op, s):
    """re-run one real string op with the long budget (in a fresh worker)"""
    with mp.Pool(1, initializer=_init_worker) as p:
        return p.apply(_confirm, (op, s))


def _confirm(op, s):
    return guard(_fns()[op], s, budget=TIMER_CONFIRM)
