"""Python side of the LeanMark driver entries (reference CommonMark model, lean/Verif/Model/LeanMark).

  html(docs)      -> list of HTML strings            (verifdrv leanmark-html)
  events(docs)    -> list of event lists             (verifdrv leanmark-events), see `parse_events`
  in_scope(docs)  -> list of bool                    (verifdrv leanmark-inscope)

An event is a dict:
  {"t": "open",  "kind": "quote"|"ul"|"ol"|"li", "line", "col", ["bullet"], ["delim", "start"]}
  {"t": "close", "kind": ..., "end_line"}
  {"t": "leaf",  "kind": "para"|"heading"|"hr"|"fence"|"icode"|"html"|"lrd", "line", "col", "end_line",
                 "payload" (source lines without container prefixes, joined by LF),
                 ["level", "setext"], ["info"], ["label", "dest", "title"], "inlines": [...] (para / heading only)}
  inline events (inside "inlines"):
  {"t": "iopen"|"inline", "kind": "text"|"soft"|"hard"|"code"|"rawhtml"|"autolink"|"emph"|"strong"|"link"|"image",
   "line", "col", ["text"], ["dest", "title"]}   and   {"t": "iclose", "kind": "emph"|"strong"|"link"|"image"}
Lines are 1-based; columns are 1-based in the tab-expanded line.
"""
import os, sys

sys.path.insert(0, os.path.dirname(os.path.abspath(__file__)))
import vlib

_BRACKETING = ("emph", "strong", "link", "image")


def html(docs, reading=0):
    """reading 0 = the model's default (the spec's appendix strategy); 1..3 = the other readings of the two points on
    which the spec's prose and its appendix differ (lean/Verif/Model/LeanMark/Block.lean `Reading`)."""
    m = "leanmark-html" + (f"-r{reading}" if reading else "")
    return [vlib.unhex(x) for x in vlib.Driver(m).run([vlib.hexs(d) for d in docs])]


def ambiguity(docs):
    """per document: "" if all four readings give the same event stream, else the deviating reading indices, e.g. "13"."""
    return ["" if x == "0" else x for x in vlib.Driver("leanmark-amb").run([vlib.hexs(d) for d in docs])]


def in_scope(docs):
    return [x == "1" for x in vlib.Driver("leanmark-inscope").run([vlib.hexs(d) for d in docs])]


def _kind(s):
    p = s.split(":")
    if p[0] == "ul":
        return {"kind": "ul", "bullet": chr(int(p[1]))}
    if p[0] == "ol":
        return {"kind": "ol", "delim": chr(int(p[1])), "start": int(p[2])}
    return {"kind": p[0]}


def _opt(s):
    return None if s == "-" else vlib.unhex(s[1:])


def parse_events(answer):
    out = []
    if not answer:
        return out
    for item in answer.split(";"):
        f = item.split(",")
        tag = f[0]
        if tag == "O":
            e = {"t": "open", "line": int(f[2]), "col": int(f[3])}
            e.update(_kind(f[1]))
            out.append(e)
        elif tag == "C":
            e = {"t": "close", "end_line": int(f[2])}
            e.update(_kind(f[1]))
            out.append(e)
        elif tag == "L":
            p = f[1].split(":")
            e = {"t": "leaf", "kind": {"h": "heading"}.get(p[0], p[0]), "line": int(f[2]), "col": int(f[3]),
                 "end_line": int(f[4]), "payload": vlib.unhex(f[6])}
            if p[0] == "h":
                e["level"], e["setext"] = int(p[1]), p[2] == "s"
                e["inlines"] = []
            elif p[0] == "para":
                e["inlines"] = []
            elif p[0] == "fence":
                e["info"] = vlib.unhex(f[5])
            elif p[0] == "lrd":
                e["label"], e["dest"], e["title"] = vlib.unhex(f[5]), vlib.unhex(f[7]), _opt(f[8])
            out.append(e)
        elif tag == "I":
            k = f[1]
            e = {"t": "iopen" if k in _BRACKETING else "inline", "kind": k, "line": int(f[2]), "col": int(f[3])}
            if k in ("text", "code", "rawhtml"):
                e["text"] = vlib.unhex(f[4])
            elif k == "autolink":
                e["dest"], e["text"] = vlib.unhex(f[4]), vlib.unhex(f[5])
            elif k in ("link", "image"):
                e["dest"], e["title"] = vlib.unhex(f[4]), _opt(f[5])
            out[-1]["inlines"].append(e)
        elif tag == "i":
            out[-1]["inlines"].append({"t": "iclose", "kind": f[1]})
        else:
            raise ValueError("unknown event " + item)
    return out


def events(docs, reading=0):
    m = "leanmark-events" + (f"-r{reading}" if reading else "")
    return [parse_events(a) for a in vlib.Driver(m).run([vlib.hexs(d) for d in docs])]


if __name__ == "__main__":
    import json
    for a in sys.argv[1:]:
        d = a.encode().decode("unicode_escape")
        print(repr(d), "in scope" if in_scope([d])[0] else "OUT OF SCOPE")
        print(html([d])[0])
        for e in events([d])[0]:
            print(" ", json.dumps(e, ensure_ascii=False))
