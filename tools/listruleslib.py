"""Correspondence of the faithful list-rule models (lean/Verif/Model/ListRules/*.lean, driver `listrules`) with the REAL
rule classes RuleMd005 / RuleMd006 / RuleMd007 and the REAL `ContainerTokenManager` of pymarkdown.

Real side, per (rule, configuration, token stream) — exactly as tools/tokenruleslib.py: a real `PluginManager` with only that
rule enabled is driven in scan mode and in fix mode, the registered requests are applied by the REAL
`FileScanHelper.__process_file_fix_tokens_apply_fixes_inner`; exceptions are observed by the class of their root cause.
Additionally
  * seq : two streams through ONE plug-in object (`starting_new_file`, tokens of the first stream until the first exception
          or until position k — an ABANDONED file —, `starting_new_file`, the second stream): the reports of the second;
  * ctm : the real `ContainerTokenManager` alone (`premanage_container_tokens` + `manage_container_tokens` per token):
          stack depth, `bq_line_index`, `list_adjust_map`, kind of `last_leaf_token`.
Model side: the abstraction (`abstract`: tokenruleslib's + the five overloaded fields described in Model/ListRules/Basic.lean)
of the same streams goes to `verifdrv listrules`; both answers are compared as strings.

Spaces (closed):
  * parsed: the closed list-document families of `list_docs()` (nesting depth <= 3 x bullet / ordered markers of widths 1-3 x
    indentation 0-5 x sibling indentation x container prefix '', '> ', '> > ', '1. ' x item bodies with quotes / fences / HTML
    blocks / SetExt / indented code / LRDs), the known crash exemplars of known_findings.json, the rule resources of the three
    rules, slices of `docs.families()`, `docs.nest_drop()`, `docs.corpus_marker_variants()`;
  * synthetic: every token list of length <= N over a per-rule alphabet of abstract tokens, built into REAL token objects;
  * seq: pairs of the above with every cut position of the first stream (sampled in quick mode).
Thorough = all of it; quick = a `ctx.rng` sample of the same space plus everything short."""
import copy, itertools, os, sys, types
import multiprocessing as mp
import vlib, docs, implib
import tokenruleslib as T

H = vlib.hexs
DEFAULT = T.DEFAULT


# ------------------------------------------------------------------ abstraction
def abstract(t):
    d = T.abstract(t)
    k = d["kind"]
    if k == "text":
        d["endData"] = t.end_whitespace
    elif k == "link-ref-def":
        parts = [t.link_name_debug, t.link_destination_whitespace, t.link_title_whitespace, t.link_title_raw]
        d["leading"] = None if any(p is None for p in parts) else "".join(parts)
        d["text"] = ""
    elif k in ("ulist", "olist"):
        ln = t.last_new_list_token
        d["trailing"], d["hashCount"] = (0, 0) if ln is None else (1, ln.indent_level)
    elif k == "icode-span":
        d["text"] = t.leading_whitespace + t.span_text + t.trailing_whitespace
    elif k == "raw-html":
        d["text"] = t.raw_tag
    return d


def abstract_after(t, before):
    """Abstraction of a token AFTER the fix was applied: `last_new_list_token` is an alias of an `li` token of the stream, the
    model carries its indent as a constant of the list token (value at the start of the pass)."""
    d = abstract(t)
    if d["kind"] in ("ulist", "olist"):
        d["trailing"], d["hashCount"] = before["trailing"], before["hashCount"]
    return d


def build(d, prev=None):
    x = dict(DEFAULT); x.update(d)
    k = x["kind"]
    if k == "text":
        from pymarkdown.tokens.text_markdown_token import TextMarkdownToken
        return TextMarkdownToken(x["text"], x["ws"], end_whitespace=x["endData"], line_number=x["line"], column_number=x["col"])
    if k == "link-ref-def":
        from pymarkdown.general.position_marker import PositionMarker
        from pymarkdown.tokens.link_reference_definition_markdown_token import LinkReferenceDefinitionMarkdownToken
        dbg = types.SimpleNamespace(collected_destination=x["leading"] or "", line_destination_whitespace="", inline_raw_link="",
                                    line_title_whitespace="", inline_raw_title="", end_whitespace="")
        return LinkReferenceDefinitionMarkdownToken(True, x["ws"], "\x00name", None, dbg, PositionMarker(x["line"], x["col"] - 1, ""))
    if k in ("html-block", "raw-html", "hard-break"):
        from pymarkdown.general.position_marker import PositionMarker
        pm = PositionMarker(x["line"], x["col"] - 1, "")
        if k == "html-block":
            from pymarkdown.tokens.html_block_markdown_token import HtmlBlockMarkdownToken
            return HtmlBlockMarkdownToken(pm, x["ws"])
        if k == "raw-html":
            from pymarkdown.tokens.raw_html_markdown_token import RawHtmlMarkdownToken
            return RawHtmlMarkdownToken(x["text"], x["line"], x["col"])
        from pymarkdown.tokens.hard_break_markdown_token import HardBreakMarkdownToken
        return HardBreakMarkdownToken("\\", x["line"], x["col"])
    t = T.build(x, prev)
    if k == "block-quote" and x["leading"] is None:
        t._BlockQuoteMarkdownToken__leading_spaces = None
    if k in ("ulist", "olist") and x["trailing"]:
        from pymarkdown.general.position_marker import PositionMarker
        from pymarkdown.tokens.new_list_item_markdown_token import NewListItemMarkdownToken
        li = NewListItemMarkdownToken(x["hashCount"], PositionMarker(x["line"] + 1, 0, ""), "", "")
        t.adjust_for_new_list_item(li, skip_adjustment=True)
    return t


def build_all(ds):
    out = []
    for d in ds:
        prev = None
        k = d["kind"]
        if k.startswith("end-") and k != "end-of-stream":
            for e in reversed(out):
                if e.token_name == k[4:]:
                    prev = e
                    break
        out.append(build(d, prev))
    return out


def enc_toks(ds):
    return T.enc_toks(ds)


class ParseTimeout(Exception):
    pass


def parse(src, seconds=3.0):
    """The real parser under a CPU-time alarm (the pinned parser does not terminate on some list documents: C01's business)."""
    import signal

    def onalarm(*_):
        raise ParseTimeout()
    old = signal.signal(signal.SIGALRM, onalarm)
    signal.setitimer(signal.ITIMER_REAL, seconds)
    try:
        return T.parse(src)
    finally:
        signal.setitimer(signal.ITIMER_REAL, 0)
        signal.signal(signal.SIGALRM, old)


# ------------------------------------------------------------------ the real side
def diff_enc(before, after):
    return T.diff_enc(before, after)


def _reports(ctx):
    reps = ctx._PluginScanContext__reported
    return "ok " + ",".join("%d:%d:%s" % (r.line_number, r.column_number, T._opt(r.extra_error_information)) for r in reps)


def fresh(pm):
    """The cached plug-in objects are made to look freshly constructed: `ContainerTokenManager.clear()` (called by MD007's
    `starting_new_file`) leaves `list_adjust_map` alone, so an entry of an EARLIER stream that raised or was unbalanced survives and
    masks the KeyError of a later one.  (Found by this tie: the same stream gave different answers depending on the streams before it.)"""
    for p in pm.enabled_plugins:
        cm = getattr(p.plugin_instance, "_RuleMd007__container_manager", None)
        if cm is not None:
            cm.list_adjust_map = {}
    return pm


def real_answer(rule, cfg, toks, abstoks):
    """(scan | requests | fixed) in the driver's answer syntax + the fixed REAL tokens (or None)."""
    from pymarkdown.plugin_manager.plugin_scan_context import PluginScanContext
    pm = fresh(T.manager(rule, cfg))
    try:
        ctx = pm.starting_new_file("f.md")
        for t in toks:
            pm.next_token(ctx, t)
        pm.completed_file(ctx, -1)
        scan = _reports(ctx)
    except Exception as e:          # noqa: BLE001 — the exception class IS the observation
        scan = "err " + T._root(e)
    fresh(pm)
    fm, rl = {}, []
    toks1 = copy.deepcopy(toks) if rule == "md005" else toks      # MD005 `_modify_token`s copies only; keep the input pristine anyway
    try:
        ctx = pm.starting_new_file("f.md", fix_mode=True, fix_token_map=fm, replace_tokens_list=rl)
        for t in toks1:
            pm.next_token(ctx, t)
        pm.completed_file(ctx, -1)
        reqs = "ok " + ",".join("%d:%s:%s" % (T._index(toks1, k), r.field_name, T._val(r.field_value))
                                for k, v in fm.items() for r in v)
    except Exception as e:          # noqa: BLE001
        return scan + "|err " + T._root(e) + "|err " + T._root(e), None
    if not fm and not rl:
        return scan + "|" + reqs + "|ok " + diff_enc(abstoks, abstoks), None
    toks2, fm2, rl2 = copy.deepcopy((toks1, fm, rl))
    ctx2 = PluginScanContext(pm, "f.md", True, None, fm2, rl2)
    try:
        T._apply_inner()(ctx2, False, toks2, rl2, fm2)
        fixed = "ok " + diff_enc(abstoks, [abstract_after(t, b) for t, b in zip(toks2, abstoks)])
    except Exception as e:          # noqa: BLE001
        return scan + "|" + reqs + "|err " + T._root(e), None
    return scan + "|" + reqs + "|" + fixed, toks2


def real_seq(rule, cfg, first, second):
    pm = fresh(T.manager(rule, cfg))
    try:
        ctx = pm.starting_new_file("a.md")
        for t in first:
            pm.next_token(ctx, t)
    except Exception:               # noqa: BLE001 — the first file is abandoned here
        pass
    try:
        ctx = pm.starting_new_file("b.md")
        for t in second:
            pm.next_token(ctx, t)
        pm.completed_file(ctx, -1)
        return _reports(ctx)
    except Exception as e:          # noqa: BLE001
        return "err " + T._root(e)


def real_ctm(toks):
    from pymarkdown.plugins.utils.container_token_manager import ContainerTokenManager
    c = ContainerTokenManager()
    try:
        for t in toks:
            c.premanage_container_tokens(t)
            c.manage_container_tokens(t)
    except Exception as e:          # noqa: BLE001
        return "err " + type(e).__name__
    lf = c.last_leaf_token
    leaf = "-" if lf is None else ("setext" if lf.is_setext_heading else "block")
    dd = lambda d: ",".join("%d=%d" % kv for kv in sorted(d.items()))
    return "ok %d:%s:%s:%s" % (len(c.container_token_stack), dd(c.bq_line_index), dd(c.list_adjust_map), leaf)


# ------------------------------------------------------------------ rules, configurations, synthetic alphabets
def _ul(col, indent, line=1, ws=None, **kw):
    return dict(kind="ulist", seq="-", line=line, col=col, indent=indent, ws=" " * (col - 1) if ws is None else ws, **kw)


def _ol(col, content, indent, line=1, ws=None, **kw):
    return dict(kind="olist", seq=".", content=content, line=line, col=col, indent=indent, ws=" " * (col - 1) if ws is None else ws, **kw)


def _li(col, indent, content="", line=2, ws=None):
    return dict(kind="li", content=content, line=line, col=col, indent=indent, ws=" " * (col - 1) if ws is None else ws)


_BQ = [dict(kind="block-quote", line=1, col=1, leading="> "), dict(kind="block-quote", line=1, col=1, leading="> \n> "),
       dict(kind="block-quote", line=1, col=3, leading=None)]
_ENDS = [dict(kind="end-ulist"), dict(kind="end-olist"), dict(kind="end-block-quote")]

RULES = {
    "md007": dict(
        cfgs=[{}, {"indent": 4}, {"start_indented": True}, {"indent": 3, "start_indented": True}],
        alphabet=[_ul(1, 2), _ul(3, 4), _ul(4, 7, leading="   \n       "), _ul(6, 7, ws=" "), _ul(5, 6, leading=""),
                  _ol(1, "1", 3), _ol(2, "10", 6, trailing=1, hashCount=5), _li(1, 2), _li(4, 5), _li(6, 9, ws="  "),
                  dict(kind="para", line=1, col=3, ws="\n"), dict(kind="BLANK", line=2, col=1)] + _BQ + _ENDS,
        maxlen=4,
    ),
    "md006": dict(
        cfgs=[{}],
        alphabet=[_ul(1, 2), _ul(3, 4), _ul(4, 7), _ul(6, 9, ws=" "), _ol(1, "1", 3), _ol(2, "10", 6), _li(1, 2), _li(4, 5), _li(3, 5, ws=" "),
                  dict(kind="para", line=1, col=3)] + _BQ + _ENDS,
        maxlen=4,
    ),
}

CTM_ALPHABET = [_ul(1, 2), _ol(1, "1", 3), _li(1, 2), dict(kind="block-quote", line=1, col=1, leading="> "),
                dict(kind="para", ws="\n\n"), dict(kind="end-para"), dict(kind="BLANK"), dict(kind="tbreak"), dict(kind="atx", hashCount=1),
                dict(kind="setext", hashCount=1), dict(kind="end-setext"), dict(kind="icode-block"), dict(kind="end-icode-block"),
                dict(kind="html-block"), dict(kind="end-html-block"), dict(kind="fcode-block", fenceChar="`"), dict(kind="end-fcode-block"),
                dict(kind="text", text="a\nb", endData="\n"), dict(kind="text", text="a", endData=None),
                dict(kind="link-ref-def", leading="a\nb"), dict(kind="hard-break"), dict(kind="emphasis")] + _ENDS


def jobs_of(rules):
    return [(r, c) for r in rules for c in RULES[r]["cfgs"]]


def enc_jobs(jobs):
    return "&".join("%s~%s" % (r, T.enc_cfg(c)) for r, c in jobs)


# ------------------------------------------------------------------ document families
KNOWN_CRASH = [">\n> >\n> > + list\n> >   item", "> abc\n> > def\n> > + list\n> >   item", ">\n> >\n> > + list\n  >   item",
               "1. Item 1\n   * Item 1a\n * Item 2\n   * Item 2a\n"]
MARK1 = ["-", "*", "1.", "10.", "1)", "100."]
MARK2 = ["-", "+", "1.", "10."]
PREFIX = ["", "> ", "> > ", "1. ", "- "]
BODIES = ["p\n{c}q", "> q\n{c}> r", "```\n{c}x\n{c}```", "<div>\n{c}x\n{c}</div>\n{c}", "t\n{c}===", "    code\n{c}", "[l]:\n{c}/u\n{c}'t\n{c}x'",
          "# h", "***", "a\\\n{c}b", "a `x\n{c}y` b", "a <b\n{c}c> d", "a [x\n{c}y](/u) b"]


LEAF_FIRSTS = ["- <div>\n  x\n  </div>\n", "> a\n> ===\n", "- ```\n  x\n  ```\n", "1.     code\n\n   - b\n", "> - a\n>   - b\n"]
LEAF_SECONDS = ["> a\n> b\n> - c\n>   - d\n", "> a\n> b\n>\n>  - c\n", "- a\n  b\n\n   - c\n", "1. a\n   > b\n   > c\n   > - d\n"]


def _pfx(p, n):
    """container prefix `p` for line n (0 = the line that opens the containers)"""
    if p in ("1. ", "- "):
        return p if n == 0 else " " * len(p)
    return p


def list_docs():
    out = []
    # family A: two levels + a sibling on each level, every indentation
    for p, m1, m2 in itertools.product(PREFIX, MARK1, MARK2):
        w1 = len(m1) + 1
        for i0, i1, j1, j0 in itertools.product((0, 1, 3), range(0, 6), (0, 2, 3, 4), (0, 1, 2)):
            lines = [" " * i0 + m1 + " a", " " * (i0 + i1) + m2 + " b", " " * (i0 + j1) + m2 + " c", " " * j0 + m1 + " d"]
            if i1 < 1 and j1 < 1:
                continue
            out.append("\n".join(_pfx(p, n) + l for n, l in enumerate(lines)) + "\n")
    # family B: three levels, ordered numbers of different widths on the same level
    for p, (m1, m2, m3) in itertools.product(("", "> "), itertools.product(("-", "1.", "9."), ("*", "1.", "10."), ("+", "100."))):
        for i1, i2, j in itertools.product((2, 3, 4), (2, 3, 5), (0, 1)):
            n1 = "10." if m1 == "9." else m1
            lines = [m1 + " a", " " * i1 + m2 + " b", " " * (i1 + i2) + m3 + " c", " " * (i1 + i2 + j) + m3 + " d",
                     " " * (i1 + j) + m2 + " e", " " * j + n1 + " f"]
            out.append("\n".join(_pfx(p, n) + l for n, l in enumerate(lines)) + "\n")
    # family C: an item body with leaves / containers inside, then a nested list and a sibling, inside every prefix
    for p, m1, b in itertools.product(PREFIX, ("-", "1.", "10."), BODIES):
        c = " " * (len(m1) + 1)
        for i1, blank in itertools.product((0, 1, 2), ("", "\n")):
            body = b.replace("{c}", c)
            text = m1 + " " + body + "\n" + blank + c + " " * i1 + "- n\n" + c + "- o\n" + " " * i1 + m1 + " z"
            lines = text.split("\n")
            out.append("\n".join(_pfx(p, n) + l for n, l in enumerate(lines)) + "\n")
    # family D: right / left aligned ordered lists of mixed widths, with continuation lines (leading_spaces)
    for p in ("", "> ", "- "):
        for a, b_, c_ in itertools.product((" 8.", "8.", "  8."), (" 9.", "9.", "  9."), ("10.", " 10.", "100.")):
            for cont in ("", "   x\n", "    x\n"):
                lines = (a + " a\n" + cont + b_ + " b\n" + cont + c_ + " c\n").split("\n")[:-1]
                out.append("\n".join(_pfx(p, n) + l for n, l in enumerate(lines)) + "\n")
    seen, res = set(), []
    for d in out:
        if d not in seen:
            seen.add(d); res.append(d)
    return res


def doc_space(quick, rng):
    fam = list_docs()
    res = [t for n, t in docs.rule_resources() if any(x in n.lower() for x in ("md005", "md006", "md007", "md004", "md030", "md029", "md027"))]
    gen = docs.hash_slice(docs.families(), 1500, "listrules")
    nest = docs.hash_slice(docs.nest_drop(), 1500, "listrules")
    var = docs.hash_slice(docs.corpus_marker_variants(), 600, "listrules")
    if quick:
        fam = docs.sample(rng, fam, 700)
        res = docs.sample(rng, res, 120)
        gen = docs.sample(rng, gen, 80)
        nest = docs.sample(rng, nest, 60)
        var = docs.sample(rng, var, 40)
    seen, out = set(), []
    for tag, ds in (("known", KNOWN_CRASH), ("list_docs", fam), ("resources", res), ("families", gen), ("nest_drop", nest), ("variants", var)):
        for d in ds:
            if d not in seen:
                seen.add(d)
                out.append((tag, d))
    return out


# ------------------------------------------------------------------ line coverage of the modelled Python
WATCH = ("rule_md_005.py", "rule_md_006.py", "rule_md_007.py", "container_token_manager.py")
_HIT = set()


def _watch_on():
    mon = sys.monitoring
    vlib.claim_tool(mon.COVERAGE_ID, "listrules")

    def line(code, ln):
        fn = code.co_filename
        if fn.endswith(WATCH):
            _HIT.add((os.path.basename(fn), ln))
        return mon.DISABLE
    mon.register_callback(mon.COVERAGE_ID, mon.events.LINE, line)
    mon.set_events(mon.COVERAGE_ID, mon.events.LINE)


def executable_lines():
    import pymarkdown
    out = set()
    base = os.path.dirname(pymarkdown.__file__)
    for rel in ("plugins/rule_md_005.py", "plugins/rule_md_006.py", "plugins/rule_md_007.py", "plugins/utils/container_token_manager.py"):
        path = os.path.join(base, rel)
        code = compile(open(path, encoding="utf-8").read(), path, "exec")
        stack = [code]
        while stack:
            c = stack.pop()
            skip = c.co_name in ("<module>", "get_details", "query_config", "initialize_from_config", "__validate_configuration_indent") \
                or (c.co_name[:1].isupper())
            for _, _, ln in c.co_lines():
                if ln is not None and not skip and ln != c.co_firstlineno:
                    out.add((os.path.basename(path), ln))
            stack += [k for k in c.co_consts if isinstance(k, types.CodeType)]
    return out


# ------------------------------------------------------------------ workers
def _work_docs(args):
    chunk, rules = args
    _watch_on()
    jobs = jobs_of(rules)
    out = []
    for tag, src in chunk:
        try:
            toks = parse(src)
        except Exception as e:      # noqa: BLE001 — parser failures are C01's business
            out.append((tag, src, None, "parse " + type(e).__name__))
            continue
        try:
            abst = [abstract(t) for t in toks]
        except Exception as e:      # noqa: BLE001
            out.append((tag, src, None, "ABSTRACT " + type(e).__name__ + " " + str(e)))
            continue
        req = enc_jobs(jobs) + "|" + enc_toks(abst)
        reals = []
        for r, c in jobs:
            ans, _ = real_answer(r, c, toks, abst)
            reals.append(ans)
        out.append((tag, src, req, "&".join(reals)))
        out.append(("ctm:" + tag, src, "ctm|" + enc_toks(abst), real_ctm(toks)))
    return out, set(_HIT)


def _work_synth(args):
    rule, lists = args
    _watch_on()
    out = []
    for ds in lists:
        full = [dict(DEFAULT, **d) for d in ds]
        try:
            toks = build_all(full)
            abst = [abstract(t) for t in toks]
        except Exception as e:          # noqa: BLE001
            out.append(("synthetic", ds, None, "build " + type(e).__name__ + " " + str(e)[:80]))
            continue
        if abst != full:
            out.append(("synthetic", ds, None, "abstract(build(d)) != d: " + repr([(a, b) for a, b in zip(abst, full) if a != b][:1])))
            continue
        if rule == "ctm":
            out.append(("synthetic ctm", ds, "ctm|" + enc_toks(abst), real_ctm(toks)))
            continue
        jobs = jobs_of([rule])
        req = enc_jobs(jobs) + "|" + enc_toks(abst)
        out.append(("synthetic", ds, req, "&".join(real_answer(r, c, toks, abst)[0] for r, c in jobs)))
    return out, set(_HIT)


def _work_seq(args):
    items, rules = args
    _watch_on()
    jobs = jobs_of(rules)
    out = []
    for kind, a, k, b in items:
        try:
            if kind == "doc":
                ta, tb = parse(a)[:k], parse(b)
            else:
                ta, tb = build_all([dict(DEFAULT, **d) for d in a]), build_all([dict(DEFAULT, **d) for d in b])
            aa, ab = [abstract(t) for t in ta], [abstract(t) for t in tb]
        except Exception as e:          # noqa: BLE001
            out.append(("seq", (a, k, b), None, "parse/build " + type(e).__name__))
            continue
        req = "seq|" + enc_jobs(jobs) + "|" + enc_toks(aa) + "|" + enc_toks(ab)
        out.append(("seq " + kind, (a, k, b), req, "&".join(real_seq(r, c, ta, tb) for r, c in jobs)))
    return out, set(_HIT)


def _dispatch(w):
    if w[0] == "S":
        return _work_synth((w[1], w[2]))
    if w[0] == "Q":
        return _work_seq((w[1], w[2]))
    return _work_docs(w)


def synth_lists(alpha, n, quick, rng, cap=900):
    lists = [list(p) for k in range(n + 1) for p in itertools.product(alpha, repeat=k)]
    if quick and len(lists) > cap:
        short = [l for l in lists if len(l) <= 2]
        lists = short + rng.sample([l for l in lists if len(l) > 2], cap)
    return lists


def seq_items(space, rules, quick, rng):
    """(first document, cut position, second document): every cut of a first document x a few second documents"""
    firsts = [d for _, d in space if len(d) < 80][: (40 if quick else 120)]
    seconds = [d for _, d in space][:: max(1, len(space) // (6 if quick else 10))]
    items = []
    for a in firsts:
        try:
            n = len(parse(a))
        except Exception:               # noqa: BLE001
            continue
        cuts = range(1, n) if not quick else sorted(set(rng.sample(range(1, n), min(3, n - 1))))
        for k in cuts:
            for b in (seconds if not quick else rng.sample(seconds, min(2, len(seconds)))):
                items.append(("doc", a, k, b))
    # targeted (always complete): a first file abandoned INSIDE a leaf block the manager remembers (`last_leaf_token`) or inside open
    # containers, then a second file whose block-quote line counting depends on the remembered leaf
    for a in LEAF_FIRSTS:
        n = len(parse(a))
        for k in range(1, n):
            for b in LEAF_SECONDS:
                items.append(("doc", a, k, b))
    # synthetic: an abandoned first stream that leaves containers open, a second stream that would raise on a fresh object
    for r in rules:
        alpha = RULES[r]["alphabet"]
        pairs = [(list(p), list(q)) for p in itertools.product(alpha, repeat=2) for q in itertools.product(alpha, repeat=2)]
        pairs += [([p], list(q)) for p in alpha[:8] for q in itertools.product(alpha, repeat=3)]
        if quick:
            pairs = rng.sample(pairs, min(len(pairs), 600))
        items += [("syn", a, len(a), b) for a, b in pairs]
    return items


def _chunks(seq, n):
    seq = list(seq)
    k = max(1, (len(seq) + n - 1) // n)
    return [seq[i:i + k] for i in range(0, len(seq), k)]


def strip_wf(ans):
    body, _, wf = ans.rpartition("|wf")
    return (body, wf) if _ else (ans, "")


def run(ctx, quick, rules=None):
    import time as _t
    rules = list(rules or RULES)
    rng = ctx.rng
    cov = {"rules": rules, "jobs": len(jobs_of(rules))}
    space = doc_space(quick, rng)
    work = [(c, rules) for c in _chunks(space, 48)]
    for r in rules:
        lists = synth_lists(RULES[r]["alphabet"], RULES[r]["maxlen"], quick, rng)
        cov["synthetic " + r] = len(lists)
        work += [("S", r, c) for c in _chunks(lists, 24)]
    lists = synth_lists(CTM_ALPHABET, 3 if quick else 4, quick, rng, cap=1500)
    cov["synthetic ctm"] = len(lists)
    work += [("S", "ctm", c) for c in _chunks(lists, 24)]
    seqs = seq_items(space, rules, quick, rng)
    cov["seq items"] = len(seqs)
    work += [("Q", c, rules) for c in _chunks(seqs, 32)]
    t0 = _t.time()
    with mp.Pool(8) as pool:
        parts = pool.map(_dispatch, work, chunksize=1)
    cov["seconds real side"] = round(_t.time() - t0, 1)
    results, hit = [], set()
    for p, h in parts:
        results += p
        hit |= h
    bad_harness = [(x[0], x[1], x[3]) for x in results if x[2] is None]
    good = [x for x in results if x[2] is not None]
    t0 = _t.time()
    answers = vlib.Driver("listrules").run([x[2] for x in good])
    cov["seconds model side"] = round(_t.time() - t0, 1)
    disagreements, n_cmp, n_reports, n_reqs = [], 0, 0, 0
    guard = {"parsed streams x md007 cfgs": 0, "guard007 holds": 0, "guard007 holds and real scan raised": 0}
    errs, by_space, failing = {}, {}, []
    for (tag, src, req, real), ans in zip(good, answers):
        by_space[tag] = by_space.get(tag, 0) + 1
        if req.startswith("ctm|"):
            n_cmp += 1
            if real.startswith("err"):
                errs["ctm " + real[4:]] = errs.get("ctm " + real[4:], 0) + 1
            if ans != real:
                disagreements.append(dict(space=tag, input=src, job="ctm", real=real, model=ans))
            continue
        head = req.split("|")
        jobs = (head[1] if head[0] == "seq" else head[0]).split("&")
        m_parts, r_parts = ans.split("&"), real.split("&")
        if len(m_parts) != len(jobs) or len(r_parts) != len(jobs):
            disagreements.append(dict(space=tag, input=src, job="*", real=real[:300], model=ans[:300]))
            continue
        for job, m, r in zip(jobs, m_parts, r_parts):
            body, _wf = strip_wf(m)
            n_cmp += 1
            rs = r.split("|")
            if job.startswith("md007") and head[0] != "seq" and tag != "synthetic":
                guard["parsed streams x md007 cfgs"] += 1
                if _wf == "1":
                    guard["guard007 holds"] += 1
                    if rs[0].startswith("err"):         # would contradict md007_total_partial + the correspondence
                        guard["guard007 holds and real scan raised"] += 1
                        disagreements.append(dict(space=tag, input=src, job=job, real=r, model="guard007 = true"))
            n_reports += 0 if rs[0] in ("ok ", "") or rs[0].startswith("err") else rs[0].count(",") + 1
            n_reqs += 0 if len(rs) < 2 or rs[1] == "ok " or rs[1].startswith("err") else rs[1].count(",") + 1
            for x in rs:
                if x.startswith("err"):
                    key = job.split("~")[0] + " " + x[4:]
                    errs[key] = errs.get(key, 0) + 1
                    if isinstance(src, str) and len(failing) < 200:
                        failing.append(dict(rule=job, document=src, exception=x[4:]))
            if body != r:
                disagreements.append(dict(space=tag, input=src, job=job, real=r, model=body))
    want = executable_lines()
    missed = sorted(want - hit)
    cov.update({"documents": len(space), "streams": len(good), "by space": by_space, "comparisons": n_cmp, "real reports": n_reports,
                "real fix requests": n_reqs, "guard of md007_total_partial": guard, "real exceptions by rule and kind": errs, "harness skips": len(bad_harness),
                "skips": bad_harness[:10], "lines executable": len(want), "lines hit": len(want & hit),
                "lines missed": ["%s:%d" % m for m in missed if not (m[0] == "rule_md_005.py" and "md005" not in rules)],
                "disagreements": disagreements, "failing_inputs": failing})
    if disagreements:
        ctx.broken.append("correspondence listrules: %d disagreements, first %r" % (len(disagreements), disagreements[0]))
    return cov


if __name__ == "__main__":
    import json, random, time

    class _C:
        rng = random.Random(1)
        broken = []
    t0 = time.time()
    quick = "--thorough" not in sys.argv
    rules = [a for a in sys.argv[1:] if a in RULES] or None
    cov = run(_C, quick, rules)
    for a in sys.argv:
        if a.startswith("--dump="):
            json.dump(cov, open(a[7:], "w"), default=str)
    dis, fail = cov.pop("disagreements"), cov.pop("failing_inputs")
    print(json.dumps(cov, indent=1, default=str))
    print("disagreements", len(dis), "failing_inputs", len(fail), "time %.1fs" % (time.time() - t0))
    for d in dis[:8]:
        print(json.dumps(d, default=str)[:1800])
    seen = set()
    for d in fail:
        k = (d["rule"].split("~")[0], d["exception"])
        if k not in seen:
            seen.add(k); print("FAILING", json.dumps(d, default=str)[:400])
