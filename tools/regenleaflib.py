"""Correspondence of the container-free Markdown regenerator model (lean/Verif/Model/RegenLeaf.lean, driver `regenleaf`)
with the REAL `TransformToMarkdown().transform(tokens)` (pymarkdown/transform_markdown/transform_to_markdown.py) and every
`register_for_markdown_transform` handler of the leaf / inline / special token classes it dispatches to.

Inputs (all closed, explicitly finite):

* **real streams** — the token stream the real parser produces for every container-free document of the `tools/docs.py` pools
  (d1 / d2 over BODY without a prefix, `leaf_edges`, `inline_edges`, `link_edges`, `multi_pairs`, `families`, `inline_links`,
  `inline_emph`, `d_inline` (hash slice), the repo test corpus, the rule resources, plus front-matter / pragma documents), each
  token serialised with every field its handler reads (end tokens: the fields of `start_markdown_token` read through the real
  reference; paragraph objects get an identity);
* **field mutants** — every real stream of the mutation pools with ONE field of ONE token set to each value of a per-type list
  (the fix-mode situation: `modify_token` changes one field of one token, end tokens recompose `extra_data` as `_modify_token`
  does) — on a deep copy made of real token objects;
* **structure mutants** — one token deleted / duplicated / swapped with its neighbour, every proper prefix, an end-of-stream token,
  a pragma token, an unknown token, an end token without a handler appended.

Per case: the REAL transform runs (CPU timer: a hang is `err hang`) with `__process_next_token` spied for the per-token texts; the
same stream goes to the model (`t` = whole transform, `p` = per-token texts).  Compared: text or exception kind, and — when the real
run returns — the list of per-token texts.  Also function level: `ParserHelper.recombine_string_with_whitespace` on all
(text, whitespace) pairs ≤ 3 over `a`, space, newline x start index x modes; Python `int()` vs `pyInt` on all strings ≤ 4 over a
digit / sign / underscore / white-space alphabet (CPython table check); `ParserHelper.repeat_string`.
Direct oracle (C02, independent of the model): regenerated text == document, on every real stream.
"""
import copy, hashlib, itertools, multiprocessing as mp, os, re, signal, sys
from collections import Counter
import vlib, implib, docs

H = vlib.hexs
PROCS = 8


def hx(s):
    return "=" + H(s)


def ohx(s):
    return "-" if s is None else hx(s)


class Unser(Exception):
    """the stream holds something the model does not speak about (container token, field of an unexpected type)"""


def _s(v):
    if not isinstance(v, str):
        raise Unser("not a str: %r" % (v,))
    return hx(v)


def _o(v):
    if v is not None and not isinstance(v, str):
        raise Unser("not an optional str: %r" % (v,))
    return ohx(v)


def _i(v):
    if isinstance(v, bool) or not isinstance(v, int):
        raise Unser("not an int: %r" % (v,))
    return "%d" % v


def _b(v):
    return "1" if v else "0"


CONTAINER_NAMES = ("block-quote", "ulist", "olist", "li")
END_HANDLED = ("para", "atx", "setext", "fcode-block", "html-block", "icode-block", "emphasis", "link")


class Ids:
    def __init__(self):
        self.m = {}

    def __call__(self, obj):
        return self.m.setdefault(id(obj), len(self.m))


def enc_link(code, t):
    g = lambda a: getattr(t, "_ReferenceMarkdownToken__" + a)        # `active_link_uri` = `__pre_link_uri or __link_uri`: no property for the first
    return ",".join([code, _s(t.label_type), _s(t.text_from_blocks), _o(t.ex_label), _o(g("pre_link_uri")), _o(g("link_uri")),
                     _o(g("pre_link_title")), _o(g("link_title")), _b(t.did_use_angle_start), _o(t.inline_title_bounding_character),
                     _o(t.before_link_whitespace), _o(t.before_title_whitespace), _o(t.after_title_whitespace)])


def enc_tok(t, ids):
    """the model's view of one real token = exactly the fields its handler reads"""
    n = t.token_name
    if n == "end-of-stream":                 # its name starts with "end-", but the start-handler table is consulted first
        return "Z"
    if t.is_end_token:
        tn = t.type_name
        st = t.start_markdown_token
        cls = type(st).__name__
        if tn == "para":
            if cls != "ParagraphMarkdownToken":
                raise Unser("end-para of " + cls)
            return "eP,%d,%s,%s" % (ids(st), _s(st.extracted_whitespace), _i(st.rehydrate_index))
        if tn == "atx":
            if cls != "AtxHeadingMarkdownToken":
                raise Unser("end-atx of " + cls)
            return "eA,%s,%s,%s" % (_s(t.extracted_whitespace), _o(t.extra_end_data), _i(st.remove_trailing_count))
        if tn == "setext":
            return "eS,%s,%s" % (_s(t.extracted_whitespace), _o(t.extra_end_data))
        if tn == "fcode-block":
            if cls != "FencedCodeBlockMarkdownToken":
                raise Unser("end-fcode of " + cls)
            return "eF,%s,%s,%s,%s" % (_s(t.extracted_whitespace), _o(t.extra_data), _b(t.was_forced), _s(st.fence_character))
        if tn == "html-block":
            return "eH"
        if tn == "icode-block":
            return "eI"
        if tn == "emphasis":
            if cls != "EmphasisMarkdownToken":
                raise Unser("end-emphasis of " + cls)
            return "eE,%s,%s" % (_s(st.emphasis_character), _i(st.emphasis_length))
        if tn == "link":
            return "eL"
        if tn in CONTAINER_NAMES:
            raise Unser("container")
        return "eO"
    if n in CONTAINER_NAMES:
        raise Unser("container")
    if n == "para":
        return "P,%d,%s,%s" % (ids(t), _s(t.extracted_whitespace), _s(t.final_whitespace))
    if n == "atx":
        return "A,%s,%s,%s" % (_s(t.extracted_whitespace), _i(t.hash_count), _i(t.remove_trailing_count))
    if n == "setext":
        return "S,%s,%s,%s,%s" % (_s(t.extracted_whitespace), _s(t.heading_character), _i(t.heading_character_count), _s(t.final_whitespace))
    if n == "tbreak":
        return "B,%s,%s" % (_s(t.extracted_whitespace), _s(t.rest_of_line))
    if n == "fcode-block":
        return "F,%s,%s,%s,%s,%s,%s,%s,%s" % (_s(t.extracted_whitespace), _s(t.fence_character), _i(t.fence_count),
                                             _s(t.extracted_whitespace_before_info_string), _s(t.pre_extracted_text), _s(t.extracted_text),
                                             _s(t.pre_text_after_extracted_text), _s(t.text_after_extracted_text))
    if n == "icode-block":
        return "I,%s,%s" % (_s(t.extracted_whitespace), _s(t.indented_whitespace))
    if n == "html-block":
        return "H"
    if n == "BLANK":
        return "N,%s" % _s(t.extracted_whitespace)
    if n == "link-ref-def":
        return ",".join(["R", _s(t.extracted_whitespace), _s(t.link_name_debug), _s(t.link_name), _o(t.link_destination_whitespace),
                         _o(t.link_destination_raw), _o(t.link_destination), _o(t.link_title_whitespace), _o(t.link_title_raw),
                         _o(t.link_title), _o(t.end_whitespace)])
    if n == "text":
        return "T,%s,%s,%s" % (_s(t.token_text), _s(t.extracted_whitespace), _o(t.end_whitespace))
    if n == "emphasis":
        return "E,%s,%s" % (_s(t.emphasis_character), _i(t.emphasis_length))
    if n == "icode-span":
        return "C,%s,%s,%s,%s" % (_s(t.extracted_start_backticks), _s(t.leading_whitespace), _s(t.span_text), _s(t.trailing_whitespace))
    if n == "raw-html":
        return "W,%s" % _s(t.raw_tag)
    if n == "uri-autolink":
        return "U,%s,%s,%s" % (_s(t.autolink_text), _b(t.add_http_prefix), _b(t.add_angle_brackets))
    if n == "email-autolink":
        return "M,%s,%s" % (_s(t.autolink_text), _b(t.add_angle_brackets))
    if n == "hard-break":
        return "K,%s" % _s(t.line_end)
    if n == "link":
        return enc_link("L", t)
    if n == "image":
        return enc_link("G", t)
    if n == "end-of-stream":
        return "Z"
    if n == "front-matter":
        return "Y,%s,%s,%s" % (_s(t.start_boundary_line), "/".join(_s(x) for x in t.collected_lines), _s(t.end_boundary_line))
    if n == "pragma":
        items = []
        for k, v in t.pragma_lines.items():
            if isinstance(k, bool) or not isinstance(k, int) or k < 0:
                raise Unser("pragma key")
            items.append("%d=%s" % (k, H(v)))
        return "Q," + "/".join(items)
    if n == "task-list":
        raise Unser("task-list")
    return "O"


_SURR = re.compile(r"(?<![0-9a-f])d[89a-f][0-9a-f]{2}(?![0-9a-f])")


def enc_stream(tokens):
    ids = Ids()
    enc = ";".join(enc_tok(t, ids) for t in tokens)
    if _SURR.search(enc):
        raise Unser("lone surrogate (`&#xD800;`): not a Lean `Char`")       # F-C03-SURROGATE documents; counted as unserialisable
    return enc


# ---------------------------------------------------------------- the real function
class _Timeout(BaseException):
    pass


def _alarm(*_):
    raise _Timeout()


_IMPL = {}
_PARTS = []
EXC = {"IndexError": "index", "AssertionError": "assertion", "AttributeError": "attribute", "ValueError": "value", "TypeError": "type"}
HANG_CPU = 1.0


def impl():
    if not _IMPL:
        from pymarkdown.transform_markdown.transform_to_markdown import TransformToMarkdown as TM
        from pymarkdown.transform_markdown.markdown_transform_context import MarkdownTransformContext as MC
        orig = TM.__dict__["_TransformToMarkdown__process_next_token"]

        def spy(self, *a, **k):
            r = orig(self, *a, **k)
            _PARTS.append(r[0])
            return r
        TM._TransformToMarkdown__process_next_token = spy
        _IMPL["TM"] = TM
        _IMPL["MC"] = MC
        _IMPL["inst"] = TM()
        signal.signal(signal.SIGPROF, _alarm)
    return _IMPL


def real_transform(tokens):
    """-> (answer, per-token texts or None, exception site or None)"""
    I = impl()
    inst = I["inst"]
    inst.context = I["MC"]()
    del _PARTS[:]
    signal.setitimer(signal.ITIMER_PROF, HANG_CPU)
    try:
        try:
            out = inst.transform(tokens)
            return "ok|" + H(out), list(_PARTS), None
        except _Timeout:
            return "err hang", None, None
        except Exception as e:
            tb = e.__traceback__
            while tb.tb_next is not None:
                tb = tb.tb_next
            site = "%s:%s" % (os.path.basename(tb.tb_frame.f_code.co_filename)[:-3], tb.tb_frame.f_code.co_name)
            return "err " + EXC.get(type(e).__name__, type(e).__name__), None, site
    finally:
        signal.setitimer(signal.ITIMER_PROF, 0)


def observe(tokens, doc=None):
    """serialise BEFORE the run (the run mutates `rehydrate_index`), run the real transform
    -> (enc, real answer, real per-token texts joined, site, doc) or None when the stream is outside the model"""
    try:
        enc = enc_stream(tokens)
    except Unser:
        return None
    ans, parts, site = real_transform(tokens)
    return (enc, ans, None if parts is None else ";".join(H(p) for p in parts), site, doc)


# ---------------------------------------------------------------- mutants of a real stream
WS = ["", " ", "\n", " \n  ", "\t"]
TXT = ["", "x", "a\nb", "\\\x08*", "\x07&\x07&amp;\x07", "x\x02", "\n"]
CHR = ["", "*", "~~", "="]
INT = [0, 1, 3, -1]
OPT = [None, "", "x", "a:b:2"]
LABEL = ["shortcut", "full", "collapsed", "inline", "bogus"]

FIELDS = {
    "ParagraphMarkdownToken": [("_ParagraphMarkdownToken__extracted_whitespace", WS), ("_ParagraphMarkdownToken__final_whitespace", WS)],
    "AtxHeadingMarkdownToken": [("_AtxHeadingMarkdownToken__hash_count", INT), ("_AtxHeadingMarkdownToken__remove_trailing_count", INT),
                                ("_LeafMarkdownToken__extracted_whitespace", WS)],
    "SetextHeadingMarkdownToken": [("_SetextHeadingMarkdownToken__heading_character", CHR), ("_SetextHeadingMarkdownToken__heading_character_count", INT),
                                   ("_SetextHeadingMarkdownToken__final_whitespace", WS), ("_LeafMarkdownToken__extracted_whitespace", WS)],
    "ThematicBreakMarkdownToken": [("_ThematicBreakMarkdownToken__extracted_whitespace", WS), ("_ThematicBreakMarkdownToken__rest_of_line", TXT)],
    "FencedCodeBlockMarkdownToken": [("_FencedCodeBlockMarkdownToken__fence_character", CHR), ("_FencedCodeBlockMarkdownToken__fence_count", INT),
                                     ("_FencedCodeBlockMarkdownToken__extracted_text", TXT), ("_FencedCodeBlockMarkdownToken__pre_extracted_text", TXT),
                                     ("_FencedCodeBlockMarkdownToken__extracted_whitespace_before_info_string", WS),
                                     ("_FencedCodeBlockMarkdownToken__text_after_extracted_text", TXT),
                                     ("_FencedCodeBlockMarkdownToken__pre_text_after_extracted_text", TXT), ("_LeafMarkdownToken__extracted_whitespace", WS)],
    "IndentedCodeBlockMarkdownToken": [("_IndentedCodeBlockMarkdownToken__indented_whitespace", WS), ("_LeafMarkdownToken__extracted_whitespace", WS)],
    "BlankLineMarkdownToken": [("_LeafMarkdownToken__extracted_whitespace", WS)],
    "LinkReferenceDefinitionMarkdownToken": [("_LinkReferenceDefinitionMarkdownToken__link_name", TXT[:3]), ("_LinkReferenceDefinitionMarkdownToken__link_name_debug", TXT[:3]),
                                             ("_LinkReferenceDefinitionMarkdownToken__link_destination", OPT), ("_LinkReferenceDefinitionMarkdownToken__link_destination_raw", OPT),
                                             ("_LinkReferenceDefinitionMarkdownToken__link_destination_whitespace", OPT), ("_LinkReferenceDefinitionMarkdownToken__link_title", OPT),
                                             ("_LinkReferenceDefinitionMarkdownToken__link_title_raw", OPT), ("_LinkReferenceDefinitionMarkdownToken__link_title_whitespace", OPT),
                                             ("_LinkReferenceDefinitionMarkdownToken__end_whitespace", OPT), ("_LeafMarkdownToken__extracted_whitespace", WS)],
    "TextMarkdownToken": [("_TextMarkdownToken__token_text", TXT), ("_TextMarkdownToken__extracted_whitespace", WS + ["\x07 \x07\x03\x07"]),
                          ("_TextMarkdownToken__end_whitespace", [None, "", "\n", " \n \x02", "a\x02b\x02c", "\x02\n\x02", "  \x02"])],
    "EmphasisMarkdownToken": [("_EmphasisMarkdownToken__emphasis_length", INT), ("_EmphasisMarkdownToken__emphasis_character", CHR)],
    "InlineCodeSpanMarkdownToken": [("_InlineCodeSpanMarkdownToken__span_text", TXT), ("_InlineCodeSpanMarkdownToken__extracted_start_backticks", ["", "``"]),
                                    ("_InlineCodeSpanMarkdownToken__leading_whitespace", WS), ("_InlineCodeSpanMarkdownToken__trailing_whitespace", WS)],
    "RawHtmlMarkdownToken": [("_RawHtmlMarkdownToken__raw_tag", TXT)],
    "UriAutolinkMarkdownToken": [("_UriAutolinkMarkdownToken__autolink_text", TXT[:3]), ("_UriAutolinkMarkdownToken__add_http_prefix", "flip"),
                                 ("_UriAutolinkMarkdownToken__add_angle_brackets", "flip")],
    "EmailAutolinkMarkdownToken": [("_EmailAutolinkMarkdownToken__autolink_text", TXT[:3]), ("_EmailAutolinkMarkdownToken__add_angle_brackets", "flip")],
    "HardBreakMarkdownToken": [("_HardBreakMarkdownToken__line_end", ["", "\\", "  ", "\n"])],
    "EndMarkdownToken": [("_EndMarkdownToken__extracted_whitespace", WS[:3] + [":"]), ("_EndMarkdownToken__extra_end_data", OPT + [":7", " :x", ": 3 ", ":-1", ":1_0"]),
                         ("_EndMarkdownToken__was_forced", "flip"), ("_MarkdownToken__extra_data", OPT + ["::", ":: 2", "a:b"])],
}
_REF = [("_ReferenceMarkdownToken__label_type", LABEL), ("_ReferenceMarkdownToken__link_uri", OPT[:3]), ("_ReferenceMarkdownToken__link_title", OPT[:3] + ["a\nb"]),
        ("_ReferenceMarkdownToken__pre_link_uri", OPT[:3]), ("_ReferenceMarkdownToken__pre_link_title", OPT[:3]), ("_ReferenceMarkdownToken__ex_label", OPT[:3]),
        ("_ReferenceMarkdownToken__text_from_blocks", TXT), ("_ReferenceMarkdownToken__did_use_angle_start", "flip"),
        ("_ReferenceMarkdownToken__inline_title_bounding_character", ["", "'", "(", "\"", None]), ("_ReferenceMarkdownToken__before_link_whitespace", OPT[:2] + [" ", "\n"]),
        ("_ReferenceMarkdownToken__before_title_whitespace", OPT[:2] + [" ", "\n "]), ("_ReferenceMarkdownToken__after_title_whitespace", OPT[:2] + [" "])]
FIELDS["LinkStartMarkdownToken"] = _REF
FIELDS["ImageStartMarkdownToken"] = _REF


def field_mutants(tokens):
    """(description, mutated deep copy) for every (token, field, value); the copy shares nothing with `tokens`"""
    for k, t in enumerate(tokens):
        for attr, values in FIELDS.get(type(t).__name__, ()):
            if attr not in vars(t):
                continue
            cur = getattr(t, attr)
            vals = [not cur] if values == "flip" else [v for v in values if v != cur]
            if values is INT:
                vals = vals + [cur + 1]
            for v in vals:
                ts = copy.deepcopy(tokens)
                setattr(ts[k], attr, v)
                if type(t).__name__ == "EndMarkdownToken" and attr != "_MarkdownToken__extra_data":
                    ts[k]._EndMarkdownToken__compose_data_field()          # what `_modify_token` does after the assignment
                yield "%d.%s=%r" % (k, attr.split("__")[-1], v), ts


def extra_tokens():
    from pymarkdown.tokens.end_of_stream_token import EndOfStreamToken
    from pymarkdown.extensions.pragma_token import PragmaToken
    from pymarkdown.tokens.markdown_token import MarkdownToken, MarkdownTokenClass, EndMarkdownToken
    from pymarkdown.tokens.emphasis_markdown_token import EmphasisMarkdownToken
    img_end = EndMarkdownToken("image", "", None, EmphasisMarkdownToken(1, "*"), False)
    return [("eos", lambda: EndOfStreamToken(1)), ("pragma", lambda: PragmaToken({2: "<!-- pyml x-->", 1: "<!--\tpyml y-->"})),
            ("pragma0", lambda: PragmaToken({})), ("pragma9", lambda: PragmaToken({9: "<!-- pyml z-->"})),
            ("other", lambda: MarkdownToken("bogus", MarkdownTokenClass.INLINE_BLOCK, "")), ("endother", lambda: copy.copy(img_end))]


def structure_mutants(tokens):
    n = len(tokens)
    for k in range(n):
        ts = copy.deepcopy(tokens)
        del ts[k]
        yield "del%d" % k, ts
        ts = copy.deepcopy(tokens)
        ts.insert(k, ts[k])
        yield "dup%d" % k, ts
        if k + 1 < n:
            ts = copy.deepcopy(tokens)
            ts[k], ts[k + 1] = ts[k + 1], ts[k]
            yield "swap%d" % k, ts
        yield "prefix%d" % k, copy.deepcopy(tokens[:k])
    for name, mk in extra_tokens():
        yield "append-" + name, copy.deepcopy(tokens) + [mk()]
        if n:
            ts = copy.deepcopy(tokens)
            ts.insert(n // 2, mk())
            yield "insert-" + name, ts


# ---------------------------------------------------------------- workers
def parse(doc, ext=()):
    tk = implib.parser(ext)
    signal.setitimer(signal.ITIMER_PROF, 3.0)
    try:
        try:
            return tk.transform(doc, show_debug=False)
        except _Timeout:
            return None
        except Exception:
            return None
    finally:
        signal.setitimer(signal.ITIMER_PROF, 0)


def _work(task):
    """task = (documents, mutate?) -> records (kind, enc, real answer, real parts, site, doc, mutation)"""
    chunk, mutate = task
    impl()
    out = []
    for item in chunk:
        doc, ext = item if isinstance(item, tuple) else (item, ())
        toks = parse(doc, ext)
        if toks is None:
            out.append(("parse-fail", None, None, None, None, doc, None))
            continue
        if any(t.is_container or (t.is_end_token and getattr(t, "type_name", None) in CONTAINER_NAMES) for t in toks):
            out.append(("container", None, None, None, None, doc, None))
            continue
        base = copy.deepcopy(toks) if mutate else None
        r = observe(toks, doc)
        if r is None:
            out.append(("unser", None, None, None, None, doc, None))
            continue
        out.append(("real",) + r + (None,))
        if mutate:
            for kind, gen in (("field", field_mutants), ("struct", structure_mutants)):
                for desc, ts in gen(base):
                    r = observe(ts, doc)
                    if r is None:
                        out.append(("unser", None, None, None, None, doc, desc))
                    else:
                        out.append((kind,) + r + (desc,))
    return out


def pool_map(fn, tasks, procs=PROCS):
    tasks = list(tasks)
    if not tasks:
        return []
    with mp.Pool(min(procs, max(1, len(tasks)))) as p:
        out = []
        for part in p.imap(fn, tasks):
            out += part
    return out


def chunks(items, mutate, size):
    items = list(items)
    return [(items[i:i + size], mutate) for i in range(0, len(items), size)]


# ---------------------------------------------------------------- comparison
def compare(records, counts, diffs, failing, kinds, limit=25):
    """one driver batch; de-duplicated on the serialised stream"""
    seen = {}
    for r in records:
        kind, enc, ans, parts, site, doc, desc = r
        counts["rec_" + kind] += 1
        if enc is None:
            continue
        if kind == "real":
            counts["oracle_roundtrip"] += 1
            if ans != "ok|" + H(doc):
                counts["oracle_roundtrip_fail"] += 1
                sig = ans if ans.startswith("err") else "text differs"
                kinds["roundtrip:" + (sig + " @" + str(site) if site else sig)] += 1
                if len(failing) < 60:
                    failing.append({"document": doc, "real": ans if ans.startswith("err") else vlib.unhex(ans[3:]), "site": site})
        if ans.startswith("err"):
            kinds["%s:%s @%s" % (kind, ans, site)] += 1
        seen.setdefault(enc, r)
    uniq = list(seen.values())
    lines = []
    for r in uniq:
        lines.append("t|" + r[1])
        lines.append("p|" + r[1])
        lines.append("w|" + r[1])
    ans = vlib.Driver("regenleaf").run(lines)
    for k, r in enumerate(uniq):
        kind, enc, real, parts, site, doc, desc = r
        mt, mp_, wf = ans[3 * k], ans[3 * k + 1], ans[3 * k + 2]
        if wf == "1":
            counts["wf_" + kind] += 1
            if real.startswith("err"):                      # regen_total, checked on the real code
                counts["wf_but_real_raises"] += 1
                if len(diffs) < limit:
                    diffs.append({"kind": kind, "doc": doc, "mutation": desc, "stream": enc, "real": real, "guard": "WF holds"})
        elif not real.startswith("err"):
            counts["not_wf_real_ok_" + kind] += 1
        counts["cases"] += 1
        counts["cases_" + kind] += 1
        counts["tokens"] += enc.count(";") + 1 if enc else 0
        if real.startswith("err"):
            counts["real_raises"] += 1
        if mt != real:
            counts["disagree"] += 1
            if len(diffs) < limit:
                diffs.append({"kind": kind, "doc": doc, "mutation": desc, "stream": enc, "real": real, "model": mt, "site": site})
            continue
        if parts is not None and mp_ != "ok|" + parts:
            counts["parts_disagree"] += 1
            if len(diffs) < limit:
                diffs.append({"kind": kind, "doc": doc, "mutation": desc, "stream": enc, "real_parts": parts, "model_parts": mp_})
    return counts


# ---------------------------------------------------------------- function-level ties
def recombine_cases(n=3, alpha="a \n"):
    strs = ["".join(t) for k in range(n + 1) for t in itertools.product(alpha, repeat=k)]
    for t in strs:
        for w in strs:
            for st in (0, 1, 2):
                for post in (0, 1):
                    for k in (0, 1):
                        for after in (0, 1):
                            yield (t, w, st, post, k, after)


def _work_recombine(chunk):
    from pymarkdown.general.parser_helper import ParserHelper as PH
    out = []
    for t, w, st, post, k, after in chunk:
        try:
            s, j = PH.recombine_string_with_whitespace(t, w, st, post_increment_index=bool(post), start_text_index=k, add_whitespace_after=bool(after))
            r = "ok|%s|%d" % (H(s), j)
        except IndexError:
            r = "err index"
        out.append(("r|%s|%s|%d|%d|%d|%d" % (H(t), H(w), st, post, k, after), r))
    return out


INT_ALPHA = "019_+- \ta٣\x1c\xa0"


def int_cases(n=4):
    for k in range(n + 1):
        for t in itertools.product(INT_ALPHA, repeat=k):
            yield "".join(t)


def tie_functions(ctx, quick, counts, diffs):
    cases = list(recombine_cases())
    total = len(cases)
    if quick:
        cases = docs.sample(ctx.rng, cases, 20000)
    pairs = pool_map(_work_recombine, [cases[i:i + 5000] for i in range(0, len(cases), 5000)])
    ans = vlib.Driver("regenleaf").run([p[0] for p in pairs])
    bad = 0
    for (req, real), m in zip(pairs, ans):
        if real != m:
            bad += 1
            if len(diffs) < 25:
                diffs.append({"fn": "recombine", "request": req, "real": real, "model": m})
    counts["recombine_cases"] = len(pairs)
    counts["recombine_space"] = total
    counts["recombine_disagree"] = bad
    ints = list(int_cases())
    itotal = len(ints)
    if quick:
        ints = [s for s in ints if len(s) <= 2] + docs.sample(ctx.rng, [s for s in ints if len(s) > 2], 20000)
    real = []
    for s in ints:
        try:
            real.append("ok|%d" % int(s))
        except ValueError:
            real.append("err value")
    ans = vlib.Driver("regenleaf").run(["i|" + H(s) for s in ints])
    ibad = 0
    for s, r, m in zip(ints, real, ans):
        if r != m:
            ibad += 1
            if len(diffs) < 25:
                diffs.append({"fn": "int", "input": s, "real": r, "model": m})
    counts["int_cases"] = len(ints)
    counts["int_space"] = itotal
    counts["int_disagree"] = ibad
    return bad + ibad


# ---------------------------------------------------------------- the block pass's token production vs `RegenLeafSpec.Leaf.toks`
def _pl(lines):
    """(lead, body, trail) of each line: leading / trailing runs of spaces"""
    out = []
    for l in lines:
        b = l.strip(" ")
        lead = l[:len(l) - len(l.lstrip(" "))] if b else ""
        out.append((lead, b, l[len(lead) + len(b):]))
    return out


def _plenc(lines):
    return ";".join(",".join(H(x) for x in t) for t in _pl(lines))


def leaf_cases():
    """(document, driver request) for single-block documents with plain-text content: the spec-side token production of
    `regen_leaf_roundtrip` / `regen_paragraph_text` is compared with the REAL block + inline pass"""
    leads = ["", " ", "   "]
    for lead in leads:
        for n in (1, 2, 6):
            for ws in (" ", "  ", "\t"):
                for text in ("a", "a b", "a  b", "a#", "b #c"):
                    for close in ("", " #", " ##", "  #  ", "#", " ####   "):
                        l = lead + "#" * n + ws + text + close
                        yield l, "b|A|" + H(l)
            for l in (lead + "#" * n, lead + "#" * n + " ", lead + "#" * n + " #"):
                yield l, "b|A|" + H(l)
        for br in ("---", "***", "* * *", "_ _ _", "- - -", "-- -", "*****"):
            for tr in ("", " ", "\t", "  "):
                yield lead + br + tr, "b|B|" + H(lead + br + tr)
    for l in ("", " ", "  \t", "\t", "    "):
        yield l, "b|N|" + H(l)
    pls = [lead + body + tr for lead in leads for body in ("a", "a b") for tr in ("", " ")]
    for n in (1, 2, 3):
        for t in itertools.product(pls, repeat=n):
            yield "\n".join(t), "b|P|0|" + _plenc(t)
    for n in (1, 2, 3):
        for t in itertools.product(pls[:8] if n < 3 else pls[:2] + pls[4:6], repeat=n):
            for u in ("===", " ---", "=  ", "  -", "--", "   ==== "):
                yield "\n".join(t) + "\n" + u, "b|S|%s|%s" % (_plenc(t), H(u))
    for o in ("```", "~~~", " ```py", "```` a b", "  ~~~ x", "```py  "):
        for body in (None, "a", "a\nb", " a\n  b ", "a \n b"):
            for c in ("```", "~~~", "  ```` ", "~~~~~", " ```  ", "````"):
                fo = o.strip(" ")
                if fo[0] != c.strip(" ")[0] or len(c.strip(" ")) < len(fo) - len(fo.lstrip("`~")):
                    continue
                if o.startswith(" ") and body is not None and (body.startswith(" ") or "\n " in body):
                    continue                      # indentation removed from content lines is stored with replacement markers: not plain
                doc = o + "\n" + (body + "\n" if body is not None else "") + c
                if body is None:
                    b = "-"
                else:
                    ew = body[:len(body) - len(body.lstrip(" "))]
                    b = H(ew) + "," + H(body[len(ew):])
                yield doc, "b|F|%s|%s|%s" % (H(o), b, H(c))


def tie_leaf_production(counts, diffs):
    cases = list(dict.fromkeys(leaf_cases()))
    impl()
    real = []
    for doc, req in cases:
        toks = parse(doc)
        try:
            real.append(None if toks is None else "ok|" + enc_stream(toks))
        except Unser:
            real.append(None)
    ans = vlib.Driver("regenleaf").run([r for _, r in cases])
    bad = 0
    for (doc, req), r, m in zip(cases, real, ans):
        counts["leafprod_cases"] += 1
        counts["leafprod_" + req[2]] += 1
        if r != m:
            bad += 1
            if len(diffs) < 25:
                diffs.append({"fn": "Leaf.toks", "doc": doc, "request": req, "real": r, "model": m})
    counts["leafprod_disagree"] = bad
    return bad


# ---------------------------------------------------------------- document pools
EXT_DOCS = [("---\na: b\n---\ntext\n", ("front-matter",)), ("---\n---\n", ("front-matter",)), ("---\na: b\nc: d\n---\n# h\n\nx", ("front-matter",)),
            ("---\na\n---", ("front-matter",)), ("<!-- pyml disable-next-line md001-->\n# h\n", ()), ("a\n<!-- pyml disable md001-->\nb\n", ()),
            ("<!-- pyml x-->", ()), ("<!-- pyml x-->\n", ()), ("# h\n\n<!--\tpyml disable md001-->\n\ntext\n<!-- pyml enable md001-->", ()),
            ("```\na\n<!-- pyml x-->\n```\n", ())]


def body_d2():
    return list(docs.dn(2, [""], docs.BODY)) + list(docs.dn(2, [""], docs.BODY, final_newline=False))


def pools(quick, rng):
    """name -> (documents, mutate?)"""
    def strs(seq):
        return [d if isinstance(d, str) else d[0] for d in seq]
    big = {"d_inline": strs(docs.d_inline()), "inline_emph": strs(docs.inline_emph())}
    P = {
        "d1_body": (list(docs.d1([""], docs.BODY)), True),
        "d2_body": (body_d2(), False),
        "leaf_edges": (strs(docs.leaf_edges()), True),
        "inline_edges": (strs(docs.inline_edges()), True),
        "link_edges": (strs(docs.link_edges()), True),
        "multi_pairs": (strs(docs.multi_pairs()), False),
        "multi_single": (["a " + m + " c" for m in docs.MULTI] + [" a " + m.replace("\n", "\n  ") + " c\n" for m in docs.MULTI], True),
        "families": (strs(docs.families()), False),
        "inline_links": (strs(docs.inline_links()), False),
        "corpus": (strs(docs.repo_sources()), False),
        "rule_resources": (strs(docs.rule_resources()), False),
        "extensions": (EXT_DOCS, True),
    }
    for k, v in big.items():
        P[k] = (docs.hash_slice(v, 12000, "regenleaf"), False)
    if quick:
        Q = {}
        for k, (ds, mut) in P.items():
            cap = 120 if mut else 900
            Q[k] = (ds if len(ds) <= cap else docs.sample(rng, ds, cap), mut)
        Q["d2_body_mut"] = (docs.sample(rng, P["d2_body"][0], 60), True)
        Q["corpus_mut"] = (docs.sample(rng, P["corpus"][0], 60), True)
        return Q
    P["d2_body_mut"] = (docs.hash_slice(P["d2_body"][0], 500, "regenleaf-mut"), True)
    P["corpus_mut"] = (docs.hash_slice(P["corpus"][0], 500, "regenleaf-mut"), True)
    P["multi_pairs_mut"] = (docs.hash_slice(P["multi_pairs"][0], 200, "regenleaf-mut"), True)
    return P


# ---------------------------------------------------------------- branch coverage of the real functions
def modelled_spans():
    """{filename: set(line numbers)} of the function bodies the model covers"""
    import ast, glob
    repo = vlib.REPO
    want = {os.path.join(repo, "pymarkdown/transform_markdown/transform_to_markdown.py"):
            ["transform", "__correct_for_final_newline", "__handle_pragma_processing", "__process_next_token"],
            os.path.join(repo, "pymarkdown/general/parser_helper.py"): ["recombine_string_with_whitespace", "repeat_string", "count_newlines_in_text"],
            os.path.join(repo, "pymarkdown/extensions/front_matter_markdown_token.py"): ["__rehydrate_front_matter"]}
    for f in glob.glob(os.path.join(repo, "pymarkdown/tokens/*.py")):
        want[f] = None                                  # every `__rehydrate_*` / `rehydrate_*` / `__reconstitute_*` / `insert_leading…`
    spans = {}
    for f, names in want.items():
        tree = ast.parse(open(f, encoding="utf-8").read())
        for n in ast.walk(tree):
            if isinstance(n, (ast.FunctionDef,)):
                ok = (n.name in names) if names is not None else (("rehydrate" in n.name and n.name != "register_for_markdown_transform")
                                                               or n.name.startswith("__reconstitute") or n.name == "insert_leading_whitespace_at_newlines")
                if ok:
                    body = []
                    for st in n.body:
                        if isinstance(st, ast.Expr) and isinstance(getattr(st, "value", None), ast.Constant) and isinstance(st.value.value, str):
                            continue                    # docstring
                        for x in ast.walk(st):
                            if isinstance(x, ast.stmt):
                                inner = getattr(x, "body", None)
                                last = (inner[0].lineno - 1) if isinstance(inner, list) and inner and hasattr(inner[0], "lineno") else (x.end_lineno or x.lineno)
                                body.append((x.lineno, max(x.lineno, last)))      # a statement is reached when any line of its header is
                    spans.setdefault(f, {})[n.name] = body
    return spans


def coverage_pass(docs_list, max_docs=400):
    """single process: statement lines of the modelled functions executed by the real transform under (a sample of) the space"""
    spans = modelled_spans()
    lines = {f: {l for body in d.values() for (a, b) in body for l in range(a, b + 1)} for f, d in spans.items()}
    hits = set()
    mon = sys.monitoring
    TOOL = 3
    vlib.claim_tool(TOOL, "verif-regenleaf")

    def ev(code, line):
        s = lines.get(code.co_filename)
        if s is None or line not in s:
            return mon.DISABLE
        hits.add((code.co_filename, line))
        return mon.DISABLE
    mon.register_callback(TOOL, mon.events.LINE, ev)
    impl()
    try:
        for item in docs_list[:max_docs]:
            doc, ext = item if isinstance(item, tuple) else (item, ())
            toks = parse(doc, ext)
            if toks is None or any(t.is_container for t in toks):
                continue
            base = copy.deepcopy(toks)
            mon.set_events(TOOL, mon.events.LINE)
            mon.restart_events()
            observe(toks, doc)
            for gen in (field_mutants, structure_mutants):
                for _, ts in gen(base):
                    observe(ts, doc)
            mon.set_events(TOOL, 0)
    finally:
        mon.set_events(TOOL, 0)
        mon.free_tool_id(TOOL)
    report, missed = {}, []
    for f, d in spans.items():
        for name, body in d.items():
            h = [(a, b) for (a, b) in body if any((f, l) in hits for l in range(a, b + 1))]
            report["%s:%s" % (os.path.basename(f)[:-3], name)] = "%d/%d" % (len(h), len(body))
            for (a, b) in sorted(set(body) - set(h)):
                missed.append("%s:%d" % (os.path.basename(f), a))
    return report, missed


COVERAGE_DOCS = ["a\n b  \n  c\n", " a *b\n c*  \nd", "a\n===\n", " a  \n  b \n---", "    a\n\n     b\n", "```py x\na\n```\n", "```\na\n", "<div>\na\n\nb",
                 "[r]: /u 't'\n\n[r]", "# h #  ", "a `b\n c` <b\n d> [x\n y](/u\n 't')", "a\\\nb  \nc", "![a *b*](/u)", "[a *b* `c` <b> <http://a.b> <a@b.c> ![i](/u)\\\nx](/u)",
                 "[a][r]\n\n[r]: /u", "[r][]\n\n[r]: /u", "![a\nb][r]\n\n[r]: /u", "---\n", "<http://a.b> <a@b.c>\n", "a\nb \n c\n===\n", "[a](</u> (t) )", "[a](/u \"t\")",
                 "~~~\n\n~~~", "# [a\nb](/u)", "www.a.b\n", "a <b\nc> d\n---\n", "a `b\nc` d\n===\n"] + EXT_DOCS


# ---------------------------------------------------------------- the excluded points of the theorems, on the REAL code
def real_witnesses():
    """the streams of `regen_excluded_*`, `regen_roundtrip_excluded_*`, `regen_pragma_only_last`, built from REAL token objects
    -> {name: what the real transform does}"""
    from pymarkdown.extensions.pragma_token import PragmaToken
    from pymarkdown.tokens.markdown_token import MarkdownToken, MarkdownTokenClass
    impl()
    out = {}

    def run(ts):
        a, _, site = real_transform(ts)
        return (a + " @" + site) if site else (vlib.unhex(a[3:]) if a.startswith("ok|") else a)

    def setp(t, attr, v):
        name = [k for k in vars(t) if k.endswith("__" + attr)][0]
        setattr(t, name, v)
    out["empty"] = run([])
    out["no_block"] = run(parse("a")[1:2])
    out["unclosed"] = run(parse("# a")[:1])
    ts = parse("a\nb"); setp(ts[0], "extracted_whitespace", ""); out["budget_index"] = run(ts)
    ts = parse("a"); setp(ts[0], "extracted_whitespace", "\n"); out["budget_assert"] = run(ts)
    ts = parse("a\nb"); setp(ts[1], "end_whitespace", None); out["end_whitespace"] = run(ts)
    ts = parse("```\n```"); setp(ts[0], "fence_character", "~~"); out["repeat"] = run(ts)
    ts = parse("```\n```"); setp(ts[-1], "extra_end_data", None); ts[-1]._EndMarkdownToken__compose_data_field(); out["fence_count"] = run(ts)
    out["attribute"] = run(parse("a")[:2] + parse("a\n===")[-1:])
    ts = parse("# a"); setp(ts[1], "token_text", "\x07"); out["marker"] = run(ts)
    ts = parse("# [a](/u)"); setp([t for t in ts if t.token_name == "link"][0], "before_title_whitespace", None); out["link_field"] = run(ts)
    out["unknown"] = run([MarkdownToken("bogus", MarkdownTokenClass.INLINE_BLOCK, "")])
    out["pragma_last"] = run(parse("\n")[:1] + [PragmaToken({1: "p"})])
    out["pragma_first"] = run([PragmaToken({1: "p"})] + parse("\n")[:1])
    out["doc_setext_trailws"] = run(parse("a\nb \nc\n==="))
    out["doc_fence_trailws"] = run(parse("```  \n```"))
    out["doc_thorn"] = run(parse("a\u00fe"))
    return out


EXPECTED_WITNESS = {
    "empty": "err index @transform_to_markdown:__correct_for_final_newline", "no_block": "err index @text_markdown_token:__rehydrate_text",
    "unclosed": "err assertion @transform_to_markdown:transform", "budget_index": "err index @parser_helper:recombine_string_with_whitespace",
    "budget_assert": "err assertion @paragraph_markdown_token:__rehydrate_paragraph_end",
    "end_whitespace": "err assertion @text_markdown_token:__reconstitute_paragraph_text", "repeat": "err type @parser_helper:repeat_string",
    "fence_count": "err value @fenced_code_block_markdown_token:__rehydrate_fenced_code_block_end",
    "attribute": "err attribute @setext_heading_markdown_token:__rehydrate_setext_heading_end",
    "marker": "err value @parser_helper:__resolve_replacement_markers_from_text",
    "link_field": "err assertion @link_start_markdown_token:__rehydrate_inline_link_text_from_token_type_inline",
    "unknown": "err assertion @transform_to_markdown:__process_next_token", "pragma_last": "p", "pragma_first": "",
    "doc_setext_trailws": "err assertion @text_markdown_token:__reconstitute_setext_text_item", "doc_fence_trailws": "```    \n```", "doc_thorn": "a"}


# ---------------------------------------------------------------- entry
def run(ctx, quick):
    counts = Counter()
    kinds = Counter()
    diffs, failing = [], []
    cov = {}
    P = pools(quick, ctx.rng)
    for name, (ds, mut) in P.items():
        recs = pool_map(_work, chunks(ds, mut, 25 if mut else 300))
        before = counts["cases"]
        compare(recs, counts, diffs, failing, kinds)
        c = Counter(r[0] for r in recs)
        cov["pool_" + name] = {"documents": len(ds), "container_free": c["real"], "with_containers": c["container"], "parse_fail": c["parse-fail"],
                               "field_mutants": c["field"], "structure_mutants": c["struct"], "distinct_streams_compared": counts["cases"] - before}
    fbad = tie_functions(ctx, quick, counts, diffs)
    fbad += tie_leaf_production(counts, diffs)
    cov["counts"] = dict(counts)
    cov["exception_kinds"] = dict(kinds.most_common(80))
    report, missed = coverage_pass(COVERAGE_DOCS + (P["leaf_edges"][0][:80] if quick else P["leaf_edges"][0][:400]))
    cov["line_coverage"] = report
    cov["lines_not_reached"] = missed
    w = real_witnesses()
    cov["witnesses"] = w
    for k, v in EXPECTED_WITNESS.items():
        if w.get(k) != v:
            ctx.broken.append("witness regenleaf %s: real code gives %r, the model's theorem says %r" % (k, w.get(k), v))
    bad = counts["disagree"] + counts["parts_disagree"] + counts["wf_but_real_raises"] + fbad
    if bad:
        ctx.broken.append("correspondence regenleaf: %d disagreements (first: %r)" % (bad, diffs[0] if diffs else None))
    cov["disagreements"] = diffs
    cov["failing_inputs"] = failing
    return cov


if __name__ == "__main__":
    import random, time, json

    class _C:
        rng = random.Random(1)
        broken = []
    t0 = time.time()
    r = run(_C, quick=(len(sys.argv) < 2 or sys.argv[1] != "thorough"))
    print(json.dumps({k: v for k, v in r.items() if k not in ("disagreements", "failing_inputs")}, indent=1))
    for d in r["disagreements"][:10]:
        print("DISAGREE", d)
    for d in r["failing_inputs"][:10]:
        print("FAILING", d)
    print("broken:", _C.broken, "time %.1fs" % (time.time() - t0))
